"""Shared by C12/C13: SymPy expressions over generic (undefined) fields  <->  the jet language of Model/DiffAlg.v.

* ``JetSer``  : serialise a SymPy expression (output of the real code) into a Coq term of type R over a valuation
                ``rho : val``: coordinates/parameters -> ``(vq rho i)``, ``f_k(q0,q1,q2)`` and its ``Derivative``s ->
                ``(vj rho k a b c)``, a field of the Cartesian point composed with a map, ``F_k(X0,X1,X2)``, and the
                ``Subs(Derivative(...))`` nodes SymPy's chain rule produces -> ``(vk rho k a b c)``.  Fail-closed:
                a node it cannot place raises ``sx.Unsupported``.
* ``to_tx``   : a concrete polynomial/trigonometric SymPy expression in the coordinates -> a ``tx`` literal
                (so that the model differentiates it with its own D).
"""
from __future__ import annotations

from fractions import Fraction

import sympy
from sympy import Derivative, Subs
from sympy.core.function import AppliedUndef

from . import sx


class JetSer:
    def __init__(self, coords, jfields, kfields=None, kargs=None, rho="rho", symbols=None):
        """symbols   : {Symbol: coq variable name} extra universally quantified reals (generic coefficients)
        coords : the variables q0,q1,q2 (base scalars or parameters)
        jfields   : {undefined function: index}  recognised when applied to a prefix of coords      -> vj
        kfields   : {undefined function: index | (index, args)}  recognised when applied to `args`
                    (default `kargs`): a field evaluated at the image of a map of the variables   -> vk"""
        self.coords = list(coords)
        self.jf = dict(jfields)
        default = tuple(sympy.sympify(a) for a in (kargs or ()))
        self.kf = {}
        for f, v in (kfields or {}).items():
            if isinstance(v, tuple):
                self.kf[f] = (v[0], tuple(sympy.sympify(a) for a in v[1]))
            else:
                self.kf[f] = (v, default)
        self.rho = rho
        self.symbols = dict(symbols or {})
        self.side: list[tuple[str, str]] = []
        self.used: set[str] = set()

    # -- helpers --------------------------------------------------------------------------------
    def _coord_index(self, v):
        for i, c in enumerate(self.coords):
            if v == c:
                return i
        return None

    def _jet(self, kind, k, counts):
        a, b, c = (list(counts) + [0, 0, 0])[:3]
        t = f"({kind} {self.rho} {k} {a} {b} {c})"
        self.used.add(t)
        return t

    def _j_applied(self, e):
        """index of a generic field of the current variables if `e` is f(q0, q1, ...) else None"""
        if isinstance(e, AppliedUndef) and e.func in self.jf and len(e.args) <= len(self.coords) \
                and all(a == c for a, c in zip(e.args, self.coords)):
            return self.jf[e.func]
        return None

    def hook(self, e, rc):
        i = self._coord_index(e)
        if i is not None:
            return f"(vq {self.rho} {i})"
        if isinstance(e, AppliedUndef):
            k = self._j_applied(e)
            if k is not None:
                return self._jet("vj", k, (0, 0, 0))
            if e.func in self.kf and tuple(e.args) == self.kf[e.func][1]:
                return self._jet("vk", self.kf[e.func][0], (0, 0, 0))
            raise sx.Unsupported(f"undefined function applied to unexpected arguments: {e}")
        if isinstance(e, Derivative):
            k = self._j_applied(e.expr)
            if k is None:
                return self._kderiv(e.expr, e.variable_count, {}, e)
            counts = [0, 0, 0]
            for v, n in e.variable_count:
                i = self._coord_index(v)
                if i is None or i >= len(e.expr.args) or not (n.is_Integer and n > 0):
                    raise sx.Unsupported(f"Derivative with respect to {v}: {e}")
                counts[i] += int(n)
            return self._jet("vj", k, counts)
        if isinstance(e, Subs):
            return self._subs(e)
        if isinstance(e, sympy.Symbol):
            if e in self.symbols:
                return self.symbols[e]
            raise sx.Unsupported(f"free symbol {e} that is not a coordinate/parameter")
        return None

    def _kderiv(self, app, variable_count, rep, whole):
        """Derivative of a composed field F(a1,a2,a3) with respect to its argument SLOTS (SymPy writes these either as
        Derivative(F(X(u,v),..), X(u,v)) or as Subs(Derivative(F(_xi,..), _xi), _xi, X(u,v)))."""
        if not isinstance(app, AppliedUndef) or app.func not in self.kf:
            raise sx.Unsupported(f"Derivative of something that is not a generic field: {whole}")
        k, kargs = self.kf[app.func]
        final_args = tuple(sympy.sympify(a).xreplace(rep) for a in app.args)
        if final_args != kargs:
            raise sx.Unsupported(f"field evaluated at {final_args}, expected {kargs}: {whole}")
        counts = [0, 0, 0]
        for v, n in variable_count:
            pos = [j for j, a in enumerate(app.args) if a == v]
            if len(pos) != 1 or not (n.is_Integer and n > 0):
                raise sx.Unsupported(f"derivative variable {v} is not exactly one argument slot: {whole}")
            counts[pos[0]] += int(n)
        return self._jet("vk", k, counts)

    def _subs(self, e):
        inner, variables, point = e.expr, list(e.variables), list(e.point)
        if not isinstance(inner, Derivative):
            raise sx.Unsupported(f"Subs of unexpected shape: {e}")
        return self._kderiv(inner.expr, inner.variable_count, dict(zip(variables, point)), e)

    def term(self, e) -> str:
        rc = sx.RCtx(atoms=False, atom_hook=self.hook)
        t = rc.term(e)
        if rc.vars:
            raise sx.Unsupported(f"unexpected free variables {rc.origin}")
        for s in rc.side:
            if s not in self.side:
                self.side.append(s)
        return t


# ---- concrete expressions -> tx literals ----------------------------------------------------------------

def _tc(n: int) -> str:
    return f"(TC {n})" if n >= 0 else f"(TC ({n}))"


def to_tx(e, coords) -> str:
    """Polynomial/trigonometric expression in the coordinates (sin/cos of a bare coordinate only,
    integer powers, rational coefficients) as a Gallina `tx` literal."""
    e = sympy.sympify(e)
    for i, c in enumerate(coords):
        if e == c:
            return f"(TCoord {i})"
    if e.is_Integer:
        return _tc(int(e))
    if e.is_Rational:
        return f"(TDiv {_tc(int(e.p))} {_tc(int(e.q))})"
    if e.is_Add or e.is_Mul:
        op = "TAdd" if e.is_Add else "TMul"
        ts = [to_tx(a, coords) for a in e.args]
        out = ts[0]
        for t in ts[1:]:
            out = f"({op} {out} {t})"
        return out
    if e.is_Pow and e.exp.is_Integer:
        n = int(e.exp)
        b = to_tx(e.base, coords)
        out = b
        for _ in range(abs(n) - 1):
            out = f"(TMul {out} {b})"
        if n == 0:
            return _tc(1)
        return out if n > 0 else f"(TInv {out})"
    if isinstance(e, (sympy.sin, sympy.cos)):
        for i, c in enumerate(coords):
            if e.args[0] == c:
                return f"({'TSin' if isinstance(e, sympy.sin) else 'TCos'} {i})"
    raise sx.Unsupported(f"not a trigonometric polynomial in the coordinates: {e}")


def frac_str(x) -> str:
    fr = Fraction(int(sympy.Rational(x).p), int(sympy.Rational(x).q))
    return str(fr)
