"""Helpers of the C19 check (documentation generation).

Trusted harness parts that live here:
* `classify_stmt`   -- top-level AST statement -> abstract `stmt` of Model/DocsPatch.v (mirrors exactly the
                       isinstance / attribute tests that docs/patch.py and docs/parse.py perform);
* `has_title`, `documented_sources` -- an independent reading of "documented law module / package"
                       (module docstring with an underlined title, below a non-private, non-excluded directory);
* Gallina literal printers;
* the synthetic module generator (abstract statement list -> Python source whose statements record the
  value of the evaluation flag at the moment they are executed).
"""
from __future__ import annotations

import ast
import os
from pathlib import Path

EVAL_STR = ":laws:sympy-eval::"
SYM_STR = ":laws:symbol::"
LTX_STR = ":laws:latex::"

PREAMBLE = ("From Coq Require Import List Bool Arith String Ascii ZArith.\n"
    "From VP Require Import Base.Util Model.DocsPatch Model.DocsView.\n"
    "Import ListNotations.\nOpen Scope string_scope.\n")


# ---------------------------------------------------------------------------------------------
# which sources are documented (specification side; written from the property text, not from build.py)
# ---------------------------------------------------------------------------------------------

def has_title(doc: str) -> bool:
    """A docstring has a title when some non-empty line after the first consists of '=' only or '-' only."""
    for ln in doc.splitlines()[1:]:
        if ln and (set(ln) == {"="} or set(ln) == {"-"}):
            return True
    return False


def _private(name: str) -> bool:
    return name.startswith(".") or name.startswith("_")


def documented_sources(root: Path, top: str = "symplyphysics", exclude=("core",)):
    """Every law module / package under root/top that carries a titled module docstring.
    Returns dicts {kind, path, stem (page name), dotted (python module name), dir}."""
    out = []
    base = root / top
    for path, dirs, files in os.walk(base):
        p = Path(path)
        rel = p.relative_to(root).parts          # ('symplyphysics', 'laws', ...)
        if _private(p.name) or (len(rel) == 2 and rel[1] in exclude):
            dirs.clear()
            continue
        dirs.sort()
        for f in sorted(files):
            if f.startswith("__") or not f.endswith(".py"):
                continue
            out.append({"kind": "law", "path": p / f, "stem": ".".join(rel[1:] + (f[:-3],)),
                "dotted": ".".join(rel + (f[:-3],)), "dir": p})
        init = p / "__init__.py"
        if init.exists():
            out.append({"kind": "package", "path": init, "stem": ".".join(rel[1:]), "dotted": ".".join(rel), "dir": p})
    res = []
    for s in out:
        try:
            tree = ast.parse(s["path"].read_text(encoding="utf-8"))
        except SyntaxError:
            continue
        doc = ast.get_docstring(tree)
        if doc is None or not has_title(doc):
            continue
        res.append(s)
    return res


# ---------------------------------------------------------------------------------------------
# classifier: ast statement -> abstract stmt
# ---------------------------------------------------------------------------------------------

class Unmodelled(Exception):
    pass


def classify_stmt(s: ast.stmt):
    """('fn', name, doc) | ('assign', [name-or-None, ...]) | ('sconst', ev, sym, ltx) | ('other',)"""
    if isinstance(s, ast.FunctionDef):
        return ("fn", s.name, ast.get_docstring(s) is not None)
    if isinstance(s, ast.Assign):
        return ("assign", [t.id if isinstance(t, ast.Name) else None for t in s.targets])
    if isinstance(s, ast.Expr) and isinstance(s.value, ast.Constant):
        v = s.value.value
        if not isinstance(v, str):
            raise Unmodelled(f"non-string constant statement {v!r} (parse.py would pass it to re.sub)")
        flags = (EVAL_STR in v, SYM_STR in v, LTX_STR in v)
        # parse.py looks for the directives after removing the sympy-eval marker and stripping newlines
        import re  # pylint: disable=import-outside-toplevel
        cleaned = re.sub(r"\n?:laws:sympy-eval::\n?", "", v).strip("\n")
        if (SYM_STR in cleaned, LTX_STR in cleaned) != flags[1:]:
            raise Unmodelled("directive appears/disappears when the sympy-eval marker is removed")
        return ("sconst",) + flags
    return ("other",)


def classify_body(body):
    return [classify_stmt(s) for s in body]


def coq_bool(b) -> str:
    return "true" if b else "false"


def coq_string(s: str) -> str:
    if any(ord(c) > 126 or (ord(c) < 32 and c != "\n") for c in s):
        raise Unmodelled(f"non-ASCII text in a Gallina string literal: {s!r}")
    return '"' + s.replace('"', '""') + '"'


def coq_stmt(t) -> str:
    if t[0] == "fn":
        return f"FnDef {coq_string(t[1])} {coq_bool(t[2])}"
    if t[0] == "assign":
        return "Assign [" + "; ".join("None" if n is None else f"Some {coq_string(n)}" for n in t[1]) + "]"
    if t[0] == "sconst":
        return f"SConst {coq_bool(t[1])} {coq_bool(t[2])} {coq_bool(t[3])}"
    return "Other"


def coq_body(abs_body) -> str:
    return "[" + "; ".join(coq_stmt(t) for t in abs_body) + "]"


def coq_shape(shape) -> str:
    m = {"I": "TImport", "D": "TDisable", "R": "TReset"}
    return "[" + "; ".join(m[t] if isinstance(t, str) else f"TOrig {t}" for t in shape) + "]"


def coq_list(items) -> str:
    return "[" + "; ".join(items) + "]"


def real_patch_shape(patch_mod, tree: ast.Module):
    """Run the real patch_sympy_evaluate on `tree` (mutated in place) and describe the resulting body."""
    ident = {id(s): i for i, s in enumerate(tree.body)}
    out = patch_mod.patch_sympy_evaluate(tree)
    shape = []
    for s in out.body:
        if s is patch_mod._IMPORT_NODE:  # pylint: disable=protected-access
            shape.append("I")
        elif s is patch_mod._DISABLE_NODE:  # pylint: disable=protected-access
            shape.append("D")
        elif s is patch_mod._ENABLE_NODE:  # pylint: disable=protected-access
            shape.append("R")
        elif id(s) in ident:
            shape.append(ident[id(s)])
        else:
            raise Unmodelled(f"patched body contains an unknown node {ast.dump(s)[:120]}")
    return out, shape


# ---------------------------------------------------------------------------------------------
# reference semantics in Python (used only to *search / decide* after a disagreement, and for statistics)
# ---------------------------------------------------------------------------------------------

def spec_disabled(abs_body):
    """Indices i of member statements (public assignment / documented def) such that some later string constant j
    with a formula directive and without sympy-eval has no member statement strictly between i and j."""
    res = set()
    cur = None
    for i, t in enumerate(abs_body):
        if t[0] == "fn" and t[2]:
            cur = i
        elif t[0] == "assign" and any(n is not None and not n.startswith("_") for n in t[1]):
            cur = i
        elif t[0] == "sconst" and cur is not None:
            if not t[1] and (t[2] or t[3]):
                res.add(cur)
    return res


def spec_keep(abs_body):
    """number of leading original statements that must survive: up to the last documented def or the last
    string constant that follows a member"""
    keep = 0
    cur = None
    for i, t in enumerate(abs_body):
        if t[0] == "fn" and t[2]:
            cur = i
            keep = i + 1
        elif t[0] == "assign" and any(n is not None and not n.startswith("_") for n in t[1]):
            cur = i
        elif t[0] == "sconst" and cur is not None:
            keep = i + 1
    return keep


def spec_flag_trace(shape, start: bool):
    """[(original index, flag)] and final flag for a patched shape under the property's reading: the disable node
    switches evaluation off, the reset node switches it back to the default (on)."""
    f = start
    tr = []
    for t in shape:
        if t == "D":
            f = False
        elif t == "R":
            f = True
        elif t == "I":
            pass
        else:
            tr.append((t, f))
    return tr, f


# ---------------------------------------------------------------------------------------------
# synthetic modules
# ---------------------------------------------------------------------------------------------

VAR_POOL = ["law", "definition", "x", "y", "mass", "_p", "_q", "_law"]
FN_POOL = ["calculate_a", "calculate_b", "_helper", "print_law"]


def gen_abstract_body(rng, max_len=14, distinct_names=False):
    n = rng.randrange(0, max_len + 1)
    body = []
    if rng.random() < 0.8:
        body.append(("sconst", False, False, False))       # module docstring
    used = set()
    fn_used = set()

    def var():
        pool = [v for v in VAR_POOL if v not in used] if distinct_names else VAR_POOL
        if not pool:
            pool = [f"v{len(used)}"]
        v = rng.choice(pool)
        used.add(v)
        return v

    while len(body) < n:
        r = rng.random()
        if r < 0.36:
            k = rng.random()
            if k < 0.72:
                ts = [var()]
            elif k < 0.82:
                ts = [None]
            elif k < 0.92:
                ts = [var(), var()] if not distinct_names else [var()]
                if len(ts) == 2 and ts[0] == ts[1]:
                    ts = ts[:1]
            else:
                ts = [None, var()] if rng.random() < 0.5 else [var(), None]
            body.append(("assign", ts))
        elif r < 0.72:
            ev = rng.random() < 0.2
            k = rng.random()
            sym, ltx = (True, True) if k < 0.35 else (True, False) if k < 0.5 else (False, True) if k < 0.6 else (False, False)
            body.append(("sconst", ev, sym, ltx))
        elif r < 0.84:
            pool = [f for f in FN_POOL if f not in fn_used] or [f"fn{len(fn_used)}"]
            f = rng.choice(pool)
            fn_used.add(f)
            body.append(("fn", f, rng.random() < 0.6))
        else:
            body.append(("other",))
    return body


def render_source(abs_body, rng) -> str:
    """Python source for an abstract body.  Every statement other than a string constant calls
    `vp_c19_rec(<its index>)` (installed in builtins by the driver) when it is executed."""
    lines = []
    for i, t in enumerate(abs_body):
        if t[0] == "sconst":
            parts = ["Some text."]
            if t[1]:
                parts.append(EVAL_STR)
            if t[2] and t[3] and rng.random() < 0.5:
                parts += [LTX_STR, SYM_STR]
            else:
                if t[2]:
                    parts.append(SYM_STR)
                if t[3]:
                    parts.append(LTX_STR)
            parts.append("More text.")
            if i == 0:
                parts = ["Title", "====="] + parts
            lines.append('"""\n' + "\n\n".join(parts) + '\n"""')
        elif t[0] == "assign":
            tg = []
            for k, n in enumerate(t[1]):
                if n is not None:
                    tg.append(n)
                elif rng.random() < 0.5:
                    tg.append(f"vp_c19_rec.attr_{i}_{k}")
                else:
                    tg.append(f"vp_c19_rec.slots[{i}]")
            lines.append(" = ".join(tg) + f" = vp_c19_rec({i})")
        elif t[0] == "fn":
            doc = '    """Function doc."""\n' if t[2] else ""
            lines.append(f"def {t[1]}(a_=vp_c19_rec({i})):\n{doc}    return a_")
        else:
            k = rng.randrange(5)
            lines.append([f"vp_c19_rec({i})", f"ann_{i}: int = vp_c19_rec({i})", f"assert vp_c19_rec({i})",
                f"if vp_c19_rec({i}):\n    pass", f"for _it_{i} in [vp_c19_rec({i})]:\n    pass"][k])
    return "\n".join(lines) + "\n"


# ---------------------------------------------------------------------------------------------
# translator: which global switches do disable / enable / reset_sympy_evaluation write?  (AST of core/processors.py)
# ---------------------------------------------------------------------------------------------

PROC_FUNCS = {"disable_sympy_evaluation": "w_disable", "enable_sympy_evaluation": "w_enable",
    "reset_sympy_evaluation": "w_reset"}


def _is_gp_attr(node) -> bool:
    return isinstance(node, ast.Attribute) and isinstance(node.value, ast.Name) and node.value.id == "global_parameters"


def read_processor_writes(path: Path):
    """{'w_disable': [(field, bool), ...], 'w_enable': ..., 'w_reset': ...} in source order.  A module-level name
    (e.g. `_old_evaluation`) on the right-hand side is resolved to its module-level boolean constant, which is sound
    only while no function rebinds it (`global` makes the translator refuse).  Anything else is Unmodelled."""
    tree = ast.parse(path.read_text(encoding="utf-8"))
    consts = {}
    for st in tree.body:
        tgt, val = None, None
        if isinstance(st, ast.AnnAssign) and isinstance(st.target, ast.Name):
            tgt, val = st.target.id, st.value
        elif isinstance(st, ast.Assign) and len(st.targets) == 1 and isinstance(st.targets[0], ast.Name):
            tgt, val = st.targets[0].id, st.value
        if tgt and isinstance(val, ast.Constant) and isinstance(val.value, bool):
            consts[tgt] = val.value
    out = {}
    for st in tree.body:
        if not isinstance(st, ast.FunctionDef):
            continue
        stores = [n for n in ast.walk(st) if _is_gp_attr(n) and isinstance(n.ctx, ast.Store)]
        calls = [n for n in ast.walk(st) if isinstance(n, ast.Call) and isinstance(n.func, ast.Name) and n.func.id in ("setattr", "delattr")]
        if st.name not in PROC_FUNCS:
            if stores or calls:
                raise Unmodelled(f"{st.name} writes global_parameters outside the three modelled functions")
            continue
        ws, local = [], set()
        for s in st.body:
            if isinstance(s, ast.Expr) and isinstance(s.value, ast.Constant):
                continue
            if isinstance(s, ast.Pass):
                continue
            if not (isinstance(s, ast.Assign) and len(s.targets) == 1):
                raise Unmodelled(f"{st.name}: statement {ast.dump(s)[:80]} is outside the modelled vocabulary")
            t, v = s.targets[0], s.value
            if isinstance(t, ast.Name):
                if not (isinstance(v, ast.Constant) or _is_gp_attr(v)):
                    raise Unmodelled(f"{st.name}: local {t.id} bound to a computed value")
                local.add(t.id)                       # binds a LOCAL: no effect on module or global state
            elif _is_gp_attr(t):
                if isinstance(v, ast.Constant) and isinstance(v.value, bool):
                    ws.append((t.attr, v.value))
                elif isinstance(v, ast.Name) and v.id not in local and v.id in consts:
                    ws.append((t.attr, consts[v.id]))
                else:
                    raise Unmodelled(f"{st.name}: global_parameters.{t.attr} = {ast.dump(v)[:60]} is not a resolvable constant")
            else:
                raise Unmodelled(f"{st.name}: assignment target {ast.dump(t)[:60]}")
        out[PROC_FUNCS[st.name]] = ws
    missing = [f for f, k in PROC_FUNCS.items() if k not in out]
    if missing:
        raise Unmodelled(f"functions not found in processors.py: {missing}")
    return out


def coq_writes(ws, ids) -> str:
    return "[" + "; ".join(f"({ids[f]}%N, {coq_bool(v)})" for f, v in ws) + "]"


def coq_switches(rec, ids) -> str:
    return "[" + "; ".join(f"({ids[f]}%N, {coq_bool(rec[f])})" for f in sorted(ids, key=ids.get)) + "]"


# ---------------------------------------------------------------------------------------------
# translator: the file-writing step of the generator  (AST of symplyphysics/docs/build.py, docs/build.py)
# ---------------------------------------------------------------------------------------------

OPEN_MODES = {"w": "FOpenW", "w+": "FOpenW", "r+": "FOpenRPlus", "a": "FOpenA", "a+": "FOpenA"}


def _mentions(node, name: str) -> bool:
    return any(isinstance(n, ast.Name) and n.id == name for n in ast.walk(node))


def _is_call(node, obj: str, meth: str):
    return (isinstance(node, ast.Call) and isinstance(node.func, ast.Attribute) and node.func.attr == meth
        and isinstance(node.func.value, ast.Name) and node.func.value.id == obj)


def _open_of(w: ast.With):
    if len(w.items) != 1:
        return None
    c = w.items[0].context_expr
    if isinstance(c, ast.Call) and isinstance(c.func, ast.Name) and c.func.id == "open" and isinstance(w.items[0].optional_vars, ast.Name):
        return c, w.items[0].optional_vars.id
    return None


def translate_with(w: ast.With, where: str):
    """`with open(path, mode) as f: ...` -> list of fop constructor names"""
    call, f = _open_of(w)
    mode = call.args[1] if len(call.args) > 1 else next((k.value for k in call.keywords if k.arg == "mode"), None)
    mode = "r" if mode is None else (mode.value if isinstance(mode, ast.Constant) else None)
    if mode not in OPEN_MODES:
        raise Unmodelled(f"{where}: open mode {mode!r}")
    ops = [OPEN_MODES[mode]]
    for s in w.body:
        if not _mentions(s, f):
            continue                                       # does not touch the file
        v = s.value if isinstance(s, (ast.Expr, ast.Assign)) else None
        if v is not None and _is_call(v, f, "write") and len(v.args) == 1 and isinstance(v.args[0], ast.Name):
            ops.append("FWrite")
        elif v is not None and _is_call(v, f, "read") and not v.args:
            ops.append("FRead")
        elif v is not None and _is_call(v, f, "seek") and len(v.args) == 1 and isinstance(v.args[0], ast.Constant) and v.args[0].value == 0:
            ops.append("FSeek0")
        elif v is not None and _is_call(v, f, "truncate") and not v.args:
            ops.append("FTruncate")
        elif v is not None and _is_call(v, f, "truncate") and len(v.args) == 1 and isinstance(v.args[0], ast.Constant) and v.args[0].value == 0:
            ops.append("FTruncate0")
        elif (isinstance(s, ast.If) and isinstance(s.test, ast.Compare) and len(s.test.ops) == 1 and isinstance(s.test.ops[0], ast.Eq)
                and _is_call(s.test.left, f, "read") and isinstance(s.test.comparators[0], ast.Name)
                and len(s.body) == 1 and isinstance(s.body[0], ast.Return) and not s.orelse):
            ops.append("FStopIfEqual")
        else:
            raise Unmodelled(f"{where}: file operation {ast.unparse(s)[:80]!r}")
    return ops


def _translate_writer_body(body, where: str):
    """statements of a function -> (if_missing ops, if_exists ops) or None when it does not write a file"""
    missing = exists = None
    for s in body:
        if isinstance(s, ast.With) and _open_of(s):
            exists = translate_with(s, where)
        elif (isinstance(s, ast.If) and isinstance(s.test, ast.UnaryOp) and isinstance(s.test.op, ast.Not)
                and isinstance(s.test.operand, ast.Call) and isinstance(s.test.operand.func, ast.Attribute)
                and s.test.operand.func.attr == "exists" and not s.orelse
                and len(s.body) == 2 and isinstance(s.body[0], ast.With) and _open_of(s.body[0]) and isinstance(s.body[1], ast.Return)):
            missing = translate_with(s.body[0], where)
        elif any(isinstance(n, ast.Call) and isinstance(n.func, ast.Name) and n.func.id == "open" for n in ast.walk(s)):
            raise Unmodelled(f"{where}: open() inside {ast.unparse(s)[:60]!r}")
    if exists is None:
        return None
    return (missing if missing is not None else exists), exists


def read_page_writer(build_py: Path):
    """the write step of _process_law and _process_law_package (directly, or through one module-level helper)"""
    tree = ast.parse(build_py.read_text(encoding="utf-8"))
    funcs = {s.name: s for s in tree.body if isinstance(s, ast.FunctionDef)}
    found = {}
    for name in ("_process_law", "_process_law_package"):
        if name not in funcs:
            raise Unmodelled(f"{name} not found")
        body = funcs[name].body
        # the source file is opened for reading first: only writing opens matter
        w = _translate_writer_body([s for s in body if not (isinstance(s, ast.With) and _open_of(s)
            and translate_mode(s) == "r")], name)
        if w is None:
            helpers = [n.func.id for s in body for n in ast.walk(s) if isinstance(n, ast.Call) and isinstance(n.func, ast.Name)
                and n.func.id in funcs and any(isinstance(m, ast.Call) and isinstance(m.func, ast.Name) and m.func.id == "open"
                    for m in ast.walk(funcs[n.func.id]))]
            if len(set(helpers)) != 1:
                raise Unmodelled(f"{name}: cannot find the page-writing step")
            w = _translate_writer_body(funcs[helpers[0]].body, helpers[0])
            if w is None:
                raise Unmodelled(f"{helpers[0]}: no writing open()")
        found[name] = w
    if found["_process_law"] != found["_process_law_package"]:
        raise Unmodelled(f"laws and packages are written differently: {found}")
    return found["_process_law"]


def translate_mode(w: ast.With) -> str:
    call, _ = _open_of(w)
    mode = call.args[1] if len(call.args) > 1 else next((k.value for k in call.keywords if k.arg == "mode"), None)
    return "r" if mode is None else (mode.value if isinstance(mode, ast.Constant) else "?")


def read_role_writer(script_py: Path):
    """process_generated_files of docs/build.py: rewrites every generated page in place"""
    tree = ast.parse(script_py.read_text(encoding="utf-8"))
    fn = next((s for s in tree.body if isinstance(s, ast.FunctionDef) and s.name == "process_generated_files"), None)
    if fn is None:
        raise Unmodelled("process_generated_files not found")
    withs = [n for n in ast.walk(fn) if isinstance(n, ast.With) and _open_of(n)]
    if len(withs) != 1:
        raise Unmodelled("process_generated_files: expected exactly one open()")
    return translate_with(withs[0], "process_generated_files")


def coq_fops(ops) -> str:
    return "[" + "; ".join(ops) + "]"
