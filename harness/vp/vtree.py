"""C14 layer 3 work unit: build one recipe with the real constructors under a given identity order, serialise
input (recipe) and output (SymPy object) to Coq, emit the proof script, evaluate both numerically.

Everything returned is JSON-able so that the same function can run in a subprocess with another
PYTHONHASHSEED (operand ordering is by id(); the hash seed changes the memory layout).

    python vtree.py   < jobs.json  > results.json        (worker mode)
"""
from __future__ import annotations

import json
import sys
import time
from fractions import Fraction

import sympy

from . import vx

TV_PREAMBLE = """From Coq Require Import List ZArith Bool Reals Lra Nsatz.
From VP Require Import Model.Vec3 Proofs.Vec3Proofs.
Local Open Scope R_scope.

Lemma Rabs_sq x : Rabs x * Rabs x = x * x.
Proof. rewrite <- Rabs_mult. apply Rabs_pos_eq. nra. Qed.

Ltac abs_consts :=
  unfold Rdiv; repeat rewrite Rabs_mult; repeat rewrite Rabs_inv; repeat rewrite Rabs_mult; repeat rewrite Rinv_mult;
  repeat match goal with
  | |- context [Rabs (IZR ?z)] =>
      first [ rewrite (Rabs_pos_eq (IZR z)) by lra | rewrite (Rabs_left (IZR z)) by lra ]
  | |- context [Rabs (norm ?v)] => rewrite (Rabs_pos_eq (norm v)) by apply norm_nonneg
  end.
Ltac abs_atoms :=
  repeat match goal with
  | |- context [Rabs ?x] =>
      let r := fresh "r" in let H := fresh "Hr" in
      pose proof (Rabs_sq x) as H; set (r := Rabs x) in *; clearbody r
  end.
Ltac norm_atoms :=
  repeat match goal with
  | |- context [norm ?v] =>
      let n := fresh "n" in let H := fresh "Hn" in
      pose proof (norm_sq v) as H; set (n := norm v) in *; clearbody n
  end.
Ltac v3_cbv := cbv [mixed vsub vneg dot cross vadd vscale vzero Vec3.vx Vec3.vy Vec3.vz] in *.
Ltac v3_destruct := repeat match goal with v : V3 |- _ => destruct v end; v3_cbv.
Ltac v3_finish := v3_destruct; unfold Rdiv; first [ ring | apply v3_eq; v3_cbv; ring ].
Ltac nz_side :=
  first [ assumption | lra
        | let Hz := fresh "Hz" in intro Hz;
          match goal with H : _ <> 0 |- _ => apply H; rewrite ?Hz; ring end ].
Ltac v3_lin :=
  repeat match goal with v : V3 |- _ => destruct v end; apply v3_eq; v3_cbv;
  first [ unfold Rdiv; ring | field; repeat split; nz_side ].
Ltac v3_nsatz :=
  v3_destruct;
  first [ ring | timeout 20 (solve [nsatz]) | apply v3_eq; v3_cbv; first [ ring | timeout 20 (solve [nsatz]) ] ].
Ltac v3_goal := cbv [mixed vsub vneg dot cross vadd vscale vzero Vec3.vx Vec3.vy Vec3.vz].
Ltac nz_hyp :=
  first [ assumption
        | let Hz := fresh "Hz" in intro Hz;
          match goal with H : _ <> 0 |- _ => apply H; v3_goal; first [ assumption | timeout 20 (solve [nsatz]) ] end ].
Ltac v3_field :=
  repeat match goal with v : V3 |- _ => destruct v end; v3_goal;
  first [ ring | field; repeat split; nz_hyp
        | apply v3_eq; v3_goal; first [ ring | field; repeat split; nz_hyp ] ].
Ltac abs_nz :=
  first [ lra | assumption | apply Rabs_no_R0; nz_side | nz_side ].
Ltac v3_field_abs := v3_destruct; unfold Rdiv; field; repeat split; abs_nz.
Ltac tv_norms :=
  abs_consts; rewrite ?norm_sq;
  first [ v3_finish | norm_atoms; abs_atoms; v3_nsatz | norm_atoms; v3_field_abs ].
"""


def rand_env(rng, nv, ns, nf=0, small=True, nf2=0):
    lo, hi = (-3, 3) if small else (-9, 9)

    def vec():
        while True:
            v = tuple(Fraction(rng.randint(lo, hi)) for _ in range(3))
            if any(v):
                return v
    scal = lambda: Fraction(rng.choice([x for x in range(lo, hi + 1) if x != 0]))
    env = vx.Env([vec() for _ in range(nv)], [scal() for _ in range(ns)], scal(), [vec() for _ in range(nf)],
        [vec() for _ in range(nf)], [vec() for _ in range(nf)], scal())
    for i in range(nf2):
        for suffix in [""] + ["_" + k for k in vx.PARTIAL_KEYS]:
            env.g[f"{i}{suffix}"] = vec()
    for i in range(nf):
        for n in vx.HIGH_ORDERS:
            env.g[f"f{i}_d{n}"] = vec()
    return env


def find_factor(P, Q):
    """k with P = k*Q componentwise (k free of vector components), 'zero' if P = 0, None otherwise."""
    P = [sympy.expand(p) for p in P]
    Q = [sympy.expand(q) for q in Q]
    if all(p == 0 for p in P):
        return "zero"
    k = None
    for p, q in zip(P, Q):
        if q != 0:
            k = sympy.cancel(p / q)
            break
    if k is None or k == 0:
        return None
    if any(s.name[0] in "vfd" or s.name.startswith("N[") for s in k.free_symbols):
        return None
    num, den = sympy.fraction(k)
    if not (num.is_polynomial(*num.free_symbols) and den.is_polynomial(*den.free_symbols)):
        return None
    if any(sympy.expand(p - k * q) != 0 for p, q in zip(P, Q)):
        return None
    return sympy.factor_terms(k) if den == 1 else k


def norm_script(recipe_in, out_ctx: vx.OutCtx):
    """proof steps relating the norms of the recipe and of the output (guidance; every step is checked by Coq): the
    arguments are grouped into classes of proportional vectors, every member is rewritten to |k| * norm(representative)"""
    members = []          # (coq text, components)
    seen = set()
    for text, arg in out_ctx.norm_args:
        if text not in seen:
            seen.add(text)
            members.append((text, vx.comps_of_sympy(arg, out_ctx, "v")))
    for x in vx.norm_args(recipe_in):
        text = vx.coq_of_recipe(x)
        if text not in seen:
            seen.add(text)
            members.append((text, vx.comps_of_recipe(x)))
    steps = []
    reps = []             # representatives (text, components)
    for text, P in members:
        if all(sympy.expand(p) == 0 for p in P):
            steps.append(f"replace (norm {text}) with 0 by (replace {text} with vzero by v3_lin; symmetry; apply norm_zero).")
            continue
        done = False
        for qtext, Q in reps:
            k = find_factor(P, Q)
            if k is None or k == "zero":
                continue
            if k == 1:
                steps.append(f"replace (norm {text}) with (norm {qtext}) by (f_equal; v3_lin).")
            else:
                try:
                    kt = vx.scalar_poly_to_coq(k)
                    # write |k| through an Abs argument of the output when it is a constant multiple of one
                    for atext, aexpr in out_ctx.abs_args:
                        ap = vx.comps_of_sympy(aexpr, out_ctx, "s")
                        ratio = sympy.cancel(k / ap) if ap != 0 else None
                        if ratio is not None and ratio.is_Rational:
                            kt = atext if ratio == 1 else f"({vx.scalar_poly_to_coq(ratio)} * {atext})"
                            break
                except vx.Unsupported:
                    continue
                steps.append(f"replace (norm {text}) with (Rabs {kt} * norm {qtext}) by (rewrite <- norm_scale; f_equal; v3_lin).")
            done = True
            break
        if not done:
            reps.append((text, P))
    return steps


def process(job, shared=None):
    """job: {recipe, nv, ns, nf, rank | creation, mode: 'auto'|'doit'|'diff', envs: [env json], trace: bool}"""
    t0 = time.time()
    recipe = totuple(job["recipe"])
    res = {"id": job.get("id"), "mode": job["mode"], "rank": job.get("rank"), "creation": job.get("creation")}
    from symplyphysics.core.experimental import vectors as V  # pylint: disable=import-outside-toplevel
    try:
        o = shared or vx.Objs(job["nv"], job["ns"], job.get("nf", 0), rank=job.get("rank"), creation=job.get("creation"),
            spread=job.get("spread"), spread_rng=__import__("random").Random(job.get("spread_seed", 0)),
            same_name=bool(job.get("same_name")), nfun2=job.get("nfun2", 0))
        res["id_rank"] = o.id_rank()
        res["between"] = o.between
        fired = []
        undo = install_trace(fired) if job.get("trace", True) else (lambda: None)
        try:
            if job["mode"] == "auto":
                obj = vx.build(recipe, o)
            elif job["mode"] == "doit":
                obj = vx.build(recipe, o, evaluate=False).doit()
            elif job["mode"] == "diff":
                base = vx.build(recipe, o)
                obj = base.diff(o.par) if not vx.is_vec(recipe) else V.vector_diff(base, o.par)
            elif job["mode"] == "partial":
                # mixed partial derivative w.r.t. the two parameters, in the order job["order"]
                base = vx.build(recipe, o)
                first, second = (o.par, o.par2) if job.get("order", "tu") == "tu" else (o.par2, o.par)
                isv = vx.is_vec(recipe)
                form = job.get("twice_form", "nested")
                if form == "nested":
                    one = V.vector_diff(base, first) if isv else sympy.sympify(base).diff(first)
                    obj = V.vector_diff(one, second) if isv else sympy.sympify(one).diff(second)
                else:
                    obj = V.vector_diff(base, first, second) if isv else sympy.sympify(base).diff(first, second)
            elif job["mode"] == "diffn":
                # a derivative of order >= 3 (possibly in two variables) requested in ONE call
                base = vx.build(recipe, o)
                sym_of = {"t": o.par, "u": o.par2}
                seq = job["orders"]                      # e.g. ["t", "t", "t"] or ["t", "t", "u"]
                if job.get("twice_form") == "count":
                    args_ = []
                    for v_ in seq:
                        if args_ and args_[-2] is sym_of[v_]:
                            args_[-1] += 1
                        else:
                            args_ += [sym_of[v_], 1]
                else:
                    args_ = [sym_of[v_] for v_ in seq]
                isv = vx.is_vec(recipe)
                if isv:
                    obj = V.vector_diff(base, *args_)
                else:
                    obj = sympy.sympify(base).diff(*args_)
            elif job["mode"] == "diff2":
                base = vx.build(recipe, o)
                if job.get("twice_form", "nested") == "nested":
                    one = base.diff(o.par) if not vx.is_vec(recipe) else V.vector_diff(base, o.par)
                    obj = sympy.sympify(one).diff(o.par) if not vx.is_vec(recipe) else V.vector_diff(one, o.par)
                else:
                    obj = base.diff(o.par, 2) if not vx.is_vec(recipe) else V.vector_diff(base, o.par, 2)
            else:
                raise ValueError(job["mode"])
        finally:
            undo()
        res["fired"] = sorted(set(fired))
    except RecursionError as e:
        tb = e.__traceback__
        q = []
        while tb:
            co = tb.tb_frame.f_code
            if "/symplyphysics/" in co.co_filename:
                q.append(co.co_qualname)
            tb = tb.tb_next
        res.update(status="recursion", cycle=sorted(set(q[-40:])))
        return res
    except Exception as e:  # pylint: disable=broad-except
        res.update(status="exception", error=f"{type(e).__name__}: {e}"[:300])
        return res
    res["out_str"] = str(obj)[:400]
    spec = recipe
    if job["mode"] == "diff":
        spec = vx.diff_recipe(recipe)
    elif job["mode"] == "diff2":
        spec = vx.diff_recipe(vx.diff_recipe(recipe))
    elif job["mode"] == "partial":
        spec = vx.diff_recipe(vx.diff_recipe(recipe, "t"), "u")
    elif job["mode"] == "diffn":
        for v_ in job["orders"]:
            spec = vx.diff_recipe(spec, v_)
    want = "v" if vx.is_vec(recipe) else "s"
    c = vx.OutCtx(o)
    try:
        out_coq = vx.coq_of_sympy(obj, c, want)
    except vx.Unsupported as e:
        res.update(status="unmodelled", error=str(e)[:300])
        return res
    atoms = vx.recipe_atoms(spec)
    # output may mention atoms the recipe does not (it should not); collect all declared ones
    for i in range(job["nv"]):
        atoms["v"].add(i)
    for j in range(job["ns"]):
        atoms["s"].add(j)
    for i in range(job.get("nf", 0)):
        atoms["f"].add(i)
    atoms["par"] = True
    if job.get("nfun2"):
        atoms["g"] = set(range(job["nfun2"]))
        atoms["par2"] = True
    if job["mode"] == "diffn":
        atoms["high"] = True
    in_coq = vx.coq_of_recipe(spec)
    hyps = ""
    quotient = False
    has_norm = bool(vx.norm_args(spec)) or bool(c.norm_args) or bool(c.abs_args)
    if job["mode"] in ("diff", "diff2", "partial", "diffn") and c.den_args and not c.abs_args and not vx.norm_args(spec):
        # quotients produced by SymPy's power rule; norms then occur only squared (norm v * norm v), rewritten to v.v
        has_norm = False
    if job["mode"] in ("diff", "diff2", "partial", "diffn"):
        nz = sorted({vx.coq_of_recipe(x) for x in vx.norm_args(recipe)})
        hyps = "".join(f"norm {x} <> 0 -> " for x in nz)
        quotient = bool(nz)
    dens = sorted({vx.coq_of_recipe(d) for d in sdiv_dens(spec)})
    out_dens = sorted(set(c.den_args) - set(dens)) if job["mode"] in ("diff", "diff2", "partial", "diffn") else []
    hyps += "".join(f"{d} <> 0 -> " for d in dens + out_dens)
    res["statement"] = f"forall {vx.binder(atoms)}, {hyps}{in_coq} = {out_coq}"
    if has_norm:
        try:
            steps = norm_script(spec, c)
        except Exception as e:  # pylint: disable=broad-except
            steps = [f"(* guidance failed: {type(e).__name__} *)"]
        res["proof"] = "intros.\n" + "\n".join(steps) + ("\n" if steps else "") + \
            ("try field_simplify_eq; try assumption.\n" if quotient else "") + "timeout 90 tv_norms."
    elif out_dens:
        # SymPy differentiates u**n to n*u**n*u'/u: the returned expression is only defined (and equal) where u <> 0
        res["proof"] = "intros. rewrite ?norm_sq. timeout 90 v3_field."
    else:
        res["proof"] = "intros. timeout 60 v3_finish."
    res["has_norm"] = has_norm
    # numeric comparison (exact unless a norm occurs)
    mism = None
    n_eval = 0
    for ej in job.get("envs", []):
        env = vx.Env.from_json(ej)
        try:
            a = vx.eval_recipe(spec, env)
            b = vx.eval_sympy(obj, c, env, want)
        except ZeroDivisionError:
            continue
        n_eval += 1
        if not vx.close(a, b):
            mism = {"env": ej, "expected": vx.show_value(a), "observed": vx.show_value(b)}
            break
    res["evaluated"] = n_eval
    res["mismatch"] = mism
    res["status"] = "ok"
    res["dt"] = round(time.time() - t0, 3)
    return res


def sdiv_dens(r, acc=None):
    if acc is None:
        acc = []
    if r[0] == "sdiv":
        acc.append(r[2])
    for x in r[1:]:
        if isinstance(x, tuple):
            sdiv_dens(x, acc)
    return acc


def totuple(x):
    if isinstance(x, list):
        return tuple(totuple(y) for y in x)
    return x


# ---------------------------------------------------------------------------------------------
# tracing which rewrite rule fires, and replacing rules by the reference identities (attribution only)
# ---------------------------------------------------------------------------------------------

def install_trace(fired: list):
    from symplyphysics.core.experimental import vectors as V  # pylint: disable=import-outside-toplevel
    orig_dot = V.VectorCross.__dict__["_eval_vector_dot"]
    orig_cross = V.VectorCross.__dict__["_eval_vector_cross"]

    def mk(orig, kind):
        f = orig.__func__

        def wrapper(cls, lhs, rhs):
            r = f(cls, lhs, rhs)
            if r is not None:
                lc, rc = isinstance(lhs, V.VectorCross), isinstance(rhs, V.VectorCross)
                fired.append(f"{kind}_" + ("cross_cross" if lc and rc else "cross_any" if lc else "any_cross"))
            return r
        return classmethod(wrapper)
    V.VectorCross._eval_vector_dot = mk(orig_dot, "dot")
    V.VectorCross._eval_vector_cross = mk(orig_cross, "cross")
    orig_sws = V.sort_with_sign

    def sws(it, key=None):
        sign, out = orig_sws(it, key=key)
        if len(out) == 3 and sign != 0:
            kinds = [V.is_atomic_vector(x) for x in out]
            if kinds == [True, False, True]:
                fired.append("mixed_composite_middle")
            elif not all(kinds):
                fired.append("mixed_composite_other")
        return sign, out
    V.sort_with_sign = sws

    def undo():
        V.VectorCross._eval_vector_dot = orig_dot
        V.VectorCross._eval_vector_cross = orig_cross
        V.sort_with_sign = orig_sws
    return undo


def install_reference(rules: set):
    """Replace the named rewrite rules by the classical identities (used only to decide whether a failing tree
    is explained by an already reported wrong rule).  Returns undo()."""
    from symplyphysics.core.experimental import vectors as V  # pylint: disable=import-outside-toplevel
    from sympy.core.cache import clear_cache  # pylint: disable=import-outside-toplevel
    orig_dot = V.VectorCross.__dict__["_eval_vector_dot"]
    orig_cross = V.VectorCross.__dict__["_eval_vector_cross"]
    fd, fc = orig_dot.__func__, orig_cross.__func__
    D, C, M = V.VectorDot, V.VectorCross, V.VectorMixedProduct

    def ref_dot(cls, lhs, rhs):
        lc, rc = isinstance(lhs, V.VectorCross), isinstance(rhs, V.VectorCross)
        if lc and rc and "dot_cross_cross" in rules:
            a, b = lhs.args
            c, d = rhs.args
            return D(a, c) * D(b, d) - D(a, d) * D(b, c)
        if lc and not rc and "dot_cross_any" in rules:
            a, b = lhs.args
            return M(rhs, a, b)
        if not lc and rc and "dot_any_cross" in rules:
            c, d = rhs.args
            return M(lhs, c, d)
        return fd(cls, lhs, rhs)

    def ref_cross(cls, lhs, rhs):
        lc, rc = isinstance(lhs, V.VectorCross), isinstance(rhs, V.VectorCross)
        if lc and rc and "cross_cross_cross" in rules:
            a, b = lhs.args
            c, d = rhs.args
            return c * M(d, a, b) - d * M(c, a, b)
        if lc and not rc and "cross_cross_any" in rules:
            a, b = lhs.args
            return b * D(rhs, a) - a * D(rhs, b)
        if not lc and rc and "cross_any_cross" in rules:
            c, d = rhs.args
            return c * D(lhs, d) - d * D(lhs, c)
        return fc(cls, lhs, rhs)
    V.VectorCross._eval_vector_dot = classmethod(ref_dot)
    V.VectorCross._eval_vector_cross = classmethod(ref_cross)
    clear_cache()

    def undo():
        V.VectorCross._eval_vector_dot = orig_dot
        V.VectorCross._eval_vector_cross = orig_cross
        clear_cache()
    return undo


def main():
    sys.setrecursionlimit(3000)
    jobs = json.load(sys.stdin)
    out = []
    for j in jobs:
        out.append(process(j))
    json.dump(out, sys.stdout)


if __name__ == "__main__":
    main()
