"""Fixed Cartesian operands of unequal lengths through every operation of core/vectors/arithmetics.py, run by props/c10.py in
child interpreters started as `python` and `python -O` (zero padding must not live in an `assert`).  Prints JSON: per case the
operation, the operands and the result (`srepr` of every component / of the scalar / the bool) or the exception class.  The
parent proves in Coq that every result equals what Model/CartVec.v gives on the same literal operands."""
import json
import sys

CASES = [
    ("add", [[1, 2], [10, 20, 30]]), ("add", [[1, 2, 3], [5]]), ("add", [[], [7, -1]]), ("add", [[1], [2, 3], [4, 5, 6]]),
    ("sub", [[1, 2], [10, 20, 30]]), ("sub", [[1, 2, 3], [5]]), ("sub", [[4], [1, 1], [0, 0, 2]]),
    ("dot", [[1, 2, 3], [4, 5]]), ("dot", [[2], [3, 4, 5]]),
    ("cross", [[1], [0, 1]]), ("cross", [[1, 2], [3, 4, 5]]), ("cross", [[], [1, 2, 3]]), ("cross", [[2, -1, 4], [3]]),
    ("equal", [[1, 2], [1, 2, 5]]), ("equal", [[1, 2], [1, 2, 0]]), ("equal", [[1, 2, 0, 3], [1, 2]]), ("equal", [[], [0, 0]]),
    ("project", [[1, 1], [2, 0, 1]]), ("project", [[1, 2, 3], [0, 2]]),
    ("reject", [[1, 1], [2, 0, 1]]), ("reject", [[1, 2, 3], [0, 2]]), ("reject", [[5], [1, 1]]),
    ("magnitude", [[3, 4]]), ("unit", [[3, 4]]), ("scale", [[1, -2, 3]]),
]


def main() -> None:
    import sympy
    from symplyphysics.core.vectors import arithmetics as ar
    from symplyphysics.core.vectors.vectors import Vector
    fns = {"add": ar.add_cartesian_vectors, "sub": ar.subtract_cartesian_vectors, "dot": ar.dot_vectors,
        "cross": ar.cross_cartesian_vectors, "equal": ar.equal_vectors, "project": ar.project_vector,
        "reject": ar.reject_cartesian_vector, "magnitude": ar.vector_magnitude, "unit": ar.vector_unit,
        "scale": lambda v: ar.scale_vector(-3, v)}
    out = []
    for op, operands in CASES:
        try:
            r = fns[op](*[Vector(list(o)) for o in operands])
            if isinstance(r, Vector):
                res = {"vector": [sympy.srepr(c) for c in r.components]}
            elif isinstance(r, bool):
                res = {"bool": r}
            else:
                res = {"scalar": sympy.srepr(sympy.sympify(r))}
        except Exception as e:  # pylint: disable=broad-except
            res = {"error": type(e).__name__, "message": str(e)[:160]}
        out.append({"op": op, "operands": operands, "result": res})
    json.dump({"debug": __debug__, "optimize": sys.flags.optimize, "cases": out}, sys.stdout)


if __name__ == "__main__":
    main()
