"""C14 layer 1: fail-closed translator from the *source text* of
symplyphysics/core/experimental/vectors/__init__.py to Coq.

It reads the return expressions of the rewrite rules (VectorCross._eval_vector_dot / _eval_vector_cross),
the arms of the expansion loops of VectorDot / VectorCross / VectorMixedProduct.__new__, the scaling rule of
VectorNorm.__new__ and the _eval_derivative methods, together with the pattern guarding each, and emits

  * per rule a lemma over V3  `forall a b c d : V3, <pattern> = <body>`       (Rule.lemma())
  * the record `source_rules : ruleset` of Model/VecAlg.v                       (ruleset_text())

Anything outside the expected shape raises Unsupported (a broken tie, decided by the caller)."""
from __future__ import annotations

import ast
from dataclasses import dataclass, field
from pathlib import Path


class Unsupported(Exception):
    pass


# ---------------------------------------------------------------------------------------------
# typed IR
# ---------------------------------------------------------------------------------------------
# vectors : ("var", n) ("vscale", s, v) ("vadd", v, w) ("vsub", v, w) ("vneg", v) ("cross", v, w) ("vzero",)
# scalars : ("svar", n) ("const", k) ("mul", p, q) ("add", p, q) ("sub", p, q) ("neg", p) ("pow", p, k) ("abs", p)
#           ("div", p, q) ("dot", v, w) ("mixed", u, v, w) ("norm", v)

VTAGS = {"var", "vscale", "vadd", "vsub", "vneg", "cross", "vzero"}


def is_v(t) -> bool:
    return t[0] in VTAGS


def coq(t, vmap=None) -> str:
    """IR -> Coq text over Vec3.  vmap: how a vector variable is written (e.g. a -> (aval a))."""
    vmap = vmap or {}
    g = lambda x: coq(x, vmap)
    k = t[0]
    if k == "var":
        return vmap.get(t[1], t[1])
    if k == "vzero":
        return "vzero"
    if k == "vscale":
        return f"(vscale {g(t[1])} {g(t[2])})"
    if k == "vadd":
        return f"(vadd {g(t[1])} {g(t[2])})"
    if k == "vsub":
        return f"(vsub {g(t[1])} {g(t[2])})"
    if k == "vneg":
        return f"(vneg {g(t[1])})"
    if k == "cross":
        return f"(cross {g(t[1])} {g(t[2])})"
    if k == "svar":
        return vmap.get(t[1], t[1])
    if k == "const":
        return str(t[1]) if t[1] >= 0 else f"({t[1]})"
    if k == "mul":
        return f"({g(t[1])} * {g(t[2])})"
    if k == "add":
        return f"({g(t[1])} + {g(t[2])})"
    if k == "sub":
        return f"({g(t[1])} - {g(t[2])})"
    if k == "neg":
        return f"(- {g(t[1])})"
    if k == "div":
        return f"({g(t[1])} / {g(t[2])})"
    if k == "pow":
        return f"({g(t[1])} ^ {t[2]})"
    if k == "abs":
        return f"(Rabs {g(t[1])})"
    if k == "dot":
        return f"(dot {g(t[1])} {g(t[2])})"
    if k == "mixed":
        return f"(mixed {g(t[1])} {g(t[2])} {g(t[3])})"
    if k == "norm":
        return f"(norm {g(t[1])})"
    raise Unsupported(f"IR tag {k}")


def lincomb(t):
    """vector IR -> [(scalar IR, variable name)]; fails if the expression is not a combination of variables."""
    k = t[0]
    if k == "var":
        return [(("const", 1), t[1])]
    if k == "vzero":
        return []
    if k == "vscale":
        return [(("mul", t[1], s), n) for s, n in lincomb(t[2])]
    if k == "vadd":
        return lincomb(t[1]) + lincomb(t[2])
    if k == "vsub":
        return lincomb(t[1]) + [(("neg", s), n) for s, n in lincomb(t[2])]
    if k == "vneg":
        return [(("neg", s), n) for s, n in lincomb(t[1])]
    raise Unsupported(f"vector-valued rule body is not a combination of the matched vectors: {k}")


def deriv(t):
    """product rule over the IR; the derivative of a variable x is the variable dx, of a scalar variable 0."""
    k = t[0]
    if k == "var":
        return ("var", "d" + t[1])
    if k == "vzero":
        return ("vzero",)
    if k == "vscale":
        return ("vadd", ("vscale", deriv(t[1]), t[2]), ("vscale", t[1], deriv(t[2])))
    if k in ("vadd", "vsub"):
        return (k, deriv(t[1]), deriv(t[2]))
    if k == "vneg":
        return ("vneg", deriv(t[1]))
    if k == "cross":
        return ("vadd", ("cross", deriv(t[1]), t[2]), ("cross", t[1], deriv(t[2])))
    if k in ("svar", "const"):
        return ("const", 0)
    if k == "mul":
        return ("add", ("mul", deriv(t[1]), t[2]), ("mul", t[1], deriv(t[2])))
    if k in ("add", "sub"):
        return (k, deriv(t[1]), deriv(t[2]))
    if k == "neg":
        return ("neg", deriv(t[1]))
    if k == "dot":
        return ("add", ("dot", deriv(t[1]), t[2]), ("dot", t[1], deriv(t[2])))
    if k == "mixed":
        a, b, c = t[1:]
        return ("add", ("mixed", deriv(a), b, c), ("add", ("mixed", a, deriv(b), c), ("mixed", a, b, deriv(c))))
    raise Unsupported(f"derivative of {k} inside a rule body")


# ---------------------------------------------------------------------------------------------
# Python expression -> IR
# ---------------------------------------------------------------------------------------------

class ExprT:
    """env: python name -> IR term (a variable or a previously assigned local expression).
    cls_name: what `cls(...)` denotes in this method."""

    def __init__(self, env, cls_name=None, cls_hook=None):
        self.env = dict(env)
        self.cls_name = cls_name
        self.cls_hook = cls_hook     # optional: (args, keywords) -> IR  for cls(...) calls

    def tr(self, n):
        if isinstance(n, ast.Name):
            if n.id not in self.env:
                raise Unsupported(f"unknown name {n.id}")
            return self.env[n.id]
        if isinstance(n, ast.Constant) and isinstance(n.value, int) and not isinstance(n.value, bool):
            return ("const", n.value)
        if isinstance(n, ast.Attribute) and isinstance(n.value, ast.Name) and n.value.id == "S" and n.attr in ("Zero", "One"):
            return ("const", 0 if n.attr == "Zero" else 1)
        if isinstance(n, ast.UnaryOp) and isinstance(n.op, ast.USub):
            x = self.tr(n.operand)
            return ("vneg", x) if is_v(x) else ("neg", x)
        if isinstance(n, ast.BinOp):
            a, b = self.tr(n.left), self.tr(n.right)
            if isinstance(n.op, ast.Mult):
                if is_v(a) and is_v(b):
                    raise Unsupported("product of two vectors")
                if is_v(a):
                    return ("vscale", b, a)
                if is_v(b):
                    return ("vscale", a, b)
                return ("mul", a, b)
            if isinstance(n.op, (ast.Add, ast.Sub)):
                if is_v(a) != is_v(b):
                    raise Unsupported("sum of a vector and a scalar")
                if is_v(a):
                    return ("vadd" if isinstance(n.op, ast.Add) else "vsub", a, b)
                return ("add" if isinstance(n.op, ast.Add) else "sub", a, b)
            if isinstance(n.op, ast.Div):
                if is_v(b):
                    raise Unsupported("division by a vector")
                if is_v(a):
                    return ("vscale", ("div", ("const", 1), b), a)
                return ("div", a, b)
            if isinstance(n.op, ast.Pow):
                if is_v(a) or not (b[0] == "const" and 0 <= b[1] <= 8):
                    raise Unsupported("power")
                return ("pow", a, b[1])
            raise Unsupported(f"operator {type(n.op).__name__}")
        if isinstance(n, ast.Call):
            # x.diff(symbol)
            if isinstance(n.func, ast.Attribute) and n.func.attr == "diff":
                if len(n.args) != 1 or not (isinstance(n.args[0], ast.Name) and n.args[0].id == "symbol") or n.keywords:
                    raise Unsupported("diff with unexpected arguments")
                return deriv(self.tr(n.func.value))
            if not isinstance(n.func, ast.Name):
                raise Unsupported(f"call of {ast.unparse(n.func)}")
            f = n.func.id
            if f == "cls":
                if self.cls_hook is not None:
                    return self.cls_hook(n.args, n.keywords)
                f = self.cls_name
            for kw in n.keywords:
                # evaluate=<bool> only chooses between the unevaluated node and its evaluation: same value
                if not (kw.arg == "evaluate" and isinstance(kw.value, ast.Constant) and isinstance(kw.value.value, bool)
                        and f in ("VectorDot", "VectorCross", "VectorMixedProduct", "VectorNorm")):
                    raise Unsupported(f"keyword arguments in {ast.unparse(n)}")
            args = [self.tr(a) for a in n.args]
            if f == "VectorDot" and len(args) == 2 and all(is_v(a) for a in args):
                return ("dot", *args)
            if f == "VectorCross" and len(args) == 2 and all(is_v(a) for a in args):
                return ("cross", *args)
            if f == "VectorMixedProduct" and len(args) == 3 and all(is_v(a) for a in args):
                return ("mixed", *args)
            if f == "VectorNorm" and len(args) == 1 and is_v(args[0]):
                return ("norm", args[0])
            if f == "abs" and len(args) == 1 and not is_v(args[0]):
                return ("abs", args[0])
            raise Unsupported(f"call {ast.unparse(n)}")
        raise Unsupported(f"expression {ast.unparse(n)}")


# ---------------------------------------------------------------------------------------------
# rules
# ---------------------------------------------------------------------------------------------

@dataclass
class Rule:
    name: str
    where: str                   # class.method:line
    binder: str                  # "(a b c d : V3)"
    hyps: str                    # "" or "norm v <> 0 -> "
    pattern: str                 # Coq text of what the body must equal
    body: object                 # IR
    proof: str
    source: str                  # source text of the body
    note: str = ""
    exprs: tuple = ()            # source texts of the translated expressions (blanked in the method's skeleton)
    method: str = ""             # Class.method the rule was read from

    def statement(self) -> str:
        return f"forall {self.binder}, {self.hyps}{coq(self.body)} = {self.pattern}"


def _method(cls: ast.ClassDef, name: str) -> ast.FunctionDef:
    for n in cls.body:
        if isinstance(n, ast.FunctionDef) and n.name == name:
            return n
    raise Unsupported(f"{cls.name}.{name} not found")


def _strip_doc(body):
    if body and isinstance(body[0], ast.Expr) and isinstance(getattr(body[0], "value", None), ast.Constant) \
            and isinstance(body[0].value.value, str):
        return body[1:]
    return body


def _expect(cond, what):
    if not cond:
        raise Unsupported(what)


def _unpack_args(stmt, side):
    """`x, y = lhs.args` -> [x, y]"""
    _expect(isinstance(stmt, ast.Assign) and len(stmt.targets) == 1 and isinstance(stmt.targets[0], ast.Tuple)
        and ast.unparse(stmt.value) == f"{side}.args", f"expected `.., .. = {side}.args`, got `{ast.unparse(stmt)}`")
    names = [e.id for e in stmt.targets[0].elts]
    return names


V3_PROOF = "v3_ring."


def rules_of_eval(cls: ast.ClassDef, meth: str, kind: str, out: list, fields: dict):
    """VectorCross._eval_vector_dot / _eval_vector_cross"""
    fn = _method(cls, meth)
    body = _strip_doc(fn.body)
    _expect([a.arg for a in fn.args.args] == ["cls", "lhs", "rhs"], f"{meth}: parameters")
    _expect(len(body) == 6, f"{meth}: expected 2 assignments, 3 guarded rules and `return None` ({len(body)} statements)")
    _expect(ast.unparse(body[0]) == "lhs_is_cross = isinstance(lhs, VectorCross)", f"{meth}: first statement")
    _expect(ast.unparse(body[1]) == "rhs_is_cross = isinstance(rhs, VectorCross)", f"{meth}: second statement")
    _expect(ast.unparse(body[5]) == "return None", f"{meth}: last statement")
    guards = ["lhs_is_cross and rhs_is_cross", "lhs_is_cross and (not rhs_is_cross)", "(not lhs_is_cross) and rhs_is_cross"]
    want = {"dot": ("dot", "R"), "cross": ("cross", "V3")}[kind]
    for i, guard in enumerate(guards):
        st = body[2 + i]
        _expect(isinstance(st, ast.If) and not st.orelse, f"{meth}: statement {3 + i} is not a plain `if`")
        g = ast.unparse(st.test)
        _expect(g.replace("(", "").replace(")", "") == guard.replace("(", "").replace(")", ""),
            f"{meth}: guard {i + 1} is `{g}`, expected `{guard}`")
        stmts = list(st.body)
        env = {}
        if i in (0, 1):
            x, y = _unpack_args(stmts.pop(0), "lhs")
            env[x], env[y] = ("var", "a"), ("var", "b")
        else:
            env["lhs"] = ("var", "l")
        if i in (0, 2):
            x, y = _unpack_args(stmts.pop(0), "rhs")
            env[x], env[y] = ("var", "c"), ("var", "d")
        else:
            env["rhs"] = ("var", "r")
        _expect(len(stmts) == 1 and isinstance(stmts[0], ast.Return), f"{meth}: rule {i + 1} body is not `return <expr>`")
        ir = ExprT(env).tr(stmts[0].value)
        _expect(is_v(ir) == (kind == "cross"), f"{meth}: rule {i + 1} returns the wrong kind of value")
        lhs_pat = "(cross a b)" if i in (0, 1) else "l"
        rhs_pat = "(cross c d)" if i in (0, 2) else "r"
        binder = {0: "(a b c d : V3)", 1: "(a b r : V3)", 2: "(l c d : V3)"}[i]
        suffix = {0: "cross_cross", 1: "cross_any", 2: "any_cross"}[i]
        name = f"{kind}_{suffix}"
        out.append(Rule(name, f"{cls.name}.{meth}:{stmts[0].lineno}", binder, "", f"{want[0]} {lhs_pat} {rhs_pat}", ir,
            V3_PROOF, ast.unparse(stmts[0].value)))
        # record field
        vmap = {n: f"(aval {n})" for n in "abcd"}
        fld = {("dot", 0): "r_dot_cc", ("dot", 1): "r_dot_cx", ("dot", 2): "r_dot_xc",
               ("cross", 0): "r_cross_cc", ("cross", 1): "r_cross_cx", ("cross", 2): "r_cross_xc"}[(kind, i)]
        params = {0: "a b c d", 1: "r a b", 2: "l c d"}[i]
        if kind == "dot":
            fields[fld] = f"fun {params} => {coq(ir, vmap)}"
        else:
            try:
                terms = lincomb(ir)
                for _s, n in terms:
                    _expect(n in "abcd", f"{name}: the result contains the unmatched operand `{n}` as a vector")
                fields[fld] = f"fun {params} => [" + "; ".join(f"({coq(s, vmap)}, BAtom {n})" for s, n in terms) + "]"
            except Unsupported as e:
                fields[fld] = e


def _loop(fn: ast.FunctionDef, what: str):
    """the `for sign, tuple_to_factor in sign_to_mapping.items():` loop of a __new__"""
    for n in fn.body:
        if isinstance(n, ast.For) and ast.unparse(n.target) == "(sign, tuple_to_factor)" \
                and ast.unparse(n.iter) == "sign_to_mapping.items()":
            return n
    raise Unsupported(f"{what}: expansion loop not found")


def _check_ordered_mul(fn, nargs, what):
    calls = [ast.unparse(n.value) for n in ast.walk(fn) if isinstance(n, ast.Assign)
        and ast.unparse(n.targets[0]) == "sign_to_mapping"]
    want = "_ordered_mul(lhs, rhs)" if nargs == 2 else "_ordered_mul(a, b, c)"
    _expect(calls == [want], f"{what}: sign_to_mapping = {calls}, expected {want}")
    rets = [ast.unparse(n) for n in fn.body if isinstance(n, ast.Return)]
    _expect(rets and rets[-1] == "return result", f"{what}: does not end with `return result`")
    inits = [ast.unparse(n) for n in fn.body if isinstance(n, ast.Assign) and ast.unparse(n.targets[0]) == "result"]
    _expect(inits == ["result = S.Zero"], f"{what}: result initialised as {inits}")


def _acc(stmt, var):
    _expect(isinstance(stmt, ast.AugAssign) and isinstance(stmt.op, ast.Add) and ast.unparse(stmt.target) == "result",
        f"expected `result += ...`, got `{ast.unparse(stmt)}`")
    return stmt.value


def _atomic_branch(st, var, cls_call_args, what):
    """if <atomic test>: var = cls(args, evaluate=False)  else: var = <composite>   -> the composite expr node"""
    _expect(isinstance(st, ast.If) and len(st.body) == 1 and len(st.orelse) >= 1, f"{what}: atomic/composite `if`")
    a = st.body[0]
    _expect(ast.unparse(a) == f"{var} = cls({cls_call_args}, evaluate=False)", f"{what}: atomic arm is `{ast.unparse(a)}`")
    return st.orelse


def arms_of_dot(cls: ast.ClassDef, out: list, fields: dict):
    fn = _method(cls, "__new__")
    what = "VectorDot.__new__"
    _check_ordered_mul(fn, 2, what)
    loop = _loop(fn, what)
    _expect(len(loop.body) == 2, f"{what}: loop body has {len(loop.body)} statements, expected 2")
    z, main = loop.body
    _expect(isinstance(z, ast.If) and ast.unparse(z.test) == "sign == 0" and not z.orelse and len(z.body) == 2
        and isinstance(z.body[1], ast.Continue) and isinstance(z.body[0], ast.For), f"{what}: `if sign == 0` arm")
    zf = z.body[0]
    _expect(ast.unparse(zf.target) == "((v, _), factor)" and ast.unparse(zf.iter) == "tuple_to_factor.items()"
        and len(zf.body) == 2, f"{what}: zero-sign inner loop")
    _expect(isinstance(zf.body[0], ast.Assign) and ast.unparse(zf.body[0].targets[0]) == "dot", f"{what}: zero arm assignment")
    tr = ExprT({"v": ("var", "v"), "factor": ("svar", "f")})
    tr.env["dot"] = tr.tr(zf.body[0].value)
    ir = tr.tr(_acc(zf.body[1], "dot"))
    out.append(Rule("dot_arm_repeated", f"{what}:{zf.lineno}", "(v : V3) (f : R)", "", "dot v v * f", ir,
        "intros. rewrite <- ?norm_sq. ring.", ast.unparse(zf.body[0].value) + " ; " + ast.unparse(zf.body[1])))
    fields["z_dot"] = f"fun v f => {coq(ir)}"
    _expect(isinstance(main, ast.For) and ast.unparse(main.target) == "((v, w), factor)"
        and ast.unparse(main.iter) == "tuple_to_factor.items()" and len(main.body) == 2, f"{what}: main inner loop")
    comp = _atomic_branch(main.body[0], "dot", "v, w", what)
    _expect(len(comp) == 1 and ast.unparse(comp[0]) == "dot = cls(v, w)", f"{what}: composite arm is `{ast.unparse(comp[0])}`")
    _expect(ast.unparse(main.body[0].test) == "is_atomic_vector(v) and is_atomic_vector(w)", f"{what}: atomic test")
    ir = ExprT({"dot": ("svar", "p"), "factor": ("svar", "f"), "sign": ("svar", "s")}).tr(_acc(main.body[1], "dot"))
    out.append(Rule("dot_arm_term", f"{what}:{main.body[1].lineno}", "(p f s : R)", "", "p * f", ir, "intros. ring.",
        ast.unparse(main.body[1]), "the dot product is symmetric: the sign of the sorting permutation must not enter"))
    fields["a_dot"] = f"fun p f s => {coq(ir)}"


def arms_of_cross(cls: ast.ClassDef, out: list, fields: dict):
    fn = _method(cls, "__new__")
    what = "VectorCross.__new__"
    _check_ordered_mul(fn, 2, what)
    loop = _loop(fn, what)
    _expect(len(loop.body) == 2, f"{what}: loop body has {len(loop.body)} statements, expected 2")
    z, main = loop.body
    _expect(isinstance(z, ast.If) and ast.unparse(z.test) == "sign == 0" and not z.orelse and len(z.body) == 1
        and isinstance(z.body[0], ast.Continue), f"{what}: `if sign == 0: continue` arm")
    fields["z_cross"] = "[]"
    _expect(isinstance(main, ast.For) and ast.unparse(main.target) == "(vectors, factor)"
        and ast.unparse(main.iter) == "tuple_to_factor.items()" and len(main.body) == 3, f"{what}: main inner loop")
    _expect(ast.unparse(main.body[0]) == "v, w = vectors", f"{what}: `v, w = vectors`")
    comp = _atomic_branch(main.body[1], "cross", "v, w", what)
    _expect(len(comp) == 1 and ast.unparse(comp[0]) == "cross = cls(v, w)", f"{what}: composite arm")
    _expect(ast.unparse(main.body[1].test) == "is_atomic_vector(v) and is_atomic_vector(w)", f"{what}: atomic test")
    ir = ExprT({"cross": ("var", "c"), "factor": ("svar", "f"), "sign": ("svar", "s")}).tr(_acc(main.body[2], "cross"))
    _expect(is_v(ir), f"{what}: accumulated value is not a vector")
    out.append(Rule("cross_arm_term", f"{what}:{main.body[2].lineno}", "(c : V3) (f s : R)", "", "vscale (f * s) c", ir, V3_PROOF,
        ast.unparse(main.body[2]), "the cross product is alternating: each term carries the sign of the sorting permutation"))
    terms = lincomb(ir)
    _expect(len(terms) == 1 and terms[0][1] == "c", f"{what}: accumulated value is not a multiple of the term's cross product")
    fields["a_cross"] = f"fun c f s => lc_scale {coq(terms[0][0])} c"


def arms_of_mixed(cls: ast.ClassDef, out: list, fields: dict):
    fn = _method(cls, "__new__")
    what = "VectorMixedProduct.__new__"
    _check_ordered_mul(fn, 3, what)
    loop = _loop(fn, what)
    _expect(len(loop.body) == 2, f"{what}: loop body has {len(loop.body)} statements, expected 2")
    z, main = loop.body
    _expect(isinstance(z, ast.If) and ast.unparse(z.test) == "sign == 0" and not z.orelse and len(z.body) == 1
        and isinstance(z.body[0], ast.Continue), f"{what}: `if sign == 0: continue` arm")
    fields["z_mixed"] = "0"
    _expect(isinstance(main, ast.For) and ast.unparse(main.target) == "(vectors, factor)"
        and ast.unparse(main.iter) == "tuple_to_factor.items()" and len(main.body) == 2, f"{what}: main inner loop")
    br = main.body[0]
    _expect(isinstance(br, ast.If) and ast.unparse(br.test) == "all((is_atomic_vector(vector) for vector in vectors))",
        f"{what}: atomic test is `{ast.unparse(br.test)}`")
    _expect(len(br.body) == 1 and ast.unparse(br.body[0]) == "mixed = cls(*vectors, evaluate=False)", f"{what}: atomic arm")
    _expect(len(br.orelse) == 2 and ast.unparse(br.orelse[0]) == "u, v, w = vectors" and isinstance(br.orelse[1], ast.Assign)
        and ast.unparse(br.orelse[1].targets[0]) == "mixed", f"{what}: composite arm")
    comp = br.orelse[1].value
    ir = ExprT({"u": ("var", "u"), "v": ("var", "v"), "w": ("var", "w")}).tr(comp)
    out.append(Rule("mixed_arm_composite", f"{what}:{br.orelse[1].lineno}", "(u v w : V3)", "", "mixed u v w", ir, V3_PROOF,
        ast.unparse(comp)))
    # the record field calls back into the engine: only VectorDot(x, VectorCross(y, z)) is expressible
    if ir[0] == "dot" and ir[1][0] == "var" and ir[2][0] == "cross" and ir[2][1][0] == "var" and ir[2][2][0] == "var":
        x, y, zz = ir[1][1], ir[2][1][1], ir[2][2][1]
        fields["r_mixed_comp"] = f"fun D C u v w => D (single {x}) (C (single {y}) (single {zz}))"
        fields["_mixed_comp_args"] = (x, y, zz)
    else:
        fields["r_mixed_comp"] = Unsupported(f"composite arm `{ast.unparse(comp)}` is not VectorDot(x, VectorCross(y, z))")
    ir = ExprT({"mixed": ("svar", "m"), "factor": ("svar", "f"), "sign": ("svar", "s")}).tr(_acc(main.body[1], "mixed"))
    out.append(Rule("mixed_arm_term", f"{what}:{main.body[1].lineno}", "(m f s : R)", "", "m * f * s", ir, "intros. ring.",
        ast.unparse(main.body[1]), "the mixed product is alternating"))
    fields["a_mixed"] = f"fun m f s => {coq(ir)}"


def rules_of_norm(cls: ast.ClassDef, out: list, fields: dict):
    fn = _method(cls, "__new__")
    what = "VectorNorm.__new__"
    src = [ast.unparse(s) for s in fn.body]
    _expect("if vector == 0:\n    return S.Zero" in src, f"{what}: `if vector == 0: return S.Zero` not found")
    fields["r_norm_zero"] = "0"
    _expect("(vector, factor) = split_factor(vector)" in src or "vector, factor = split_factor(vector)" in src,
        f"{what}: `vector, factor = split_factor(vector)` not found")
    last = fn.body[-1]
    _expect(isinstance(last, ast.Return), f"{what}: last statement is not a return")

    def cls_hook(args, keywords):
        _expect(len(args) == 1 and ast.unparse(args[0]) == "vector" and len(keywords) == 1
            and keywords[0].arg == "evaluate" and ast.unparse(keywords[0].value) == "False", f"{what}: cls(...) call")
        return ("svar", "n")
    ir = ExprT({"factor": ("svar", "k")}, cls_hook=cls_hook).tr(last.value)
    body_coq = coq(ir)
    out.append(Rule("norm_scale", f"{what}:{last.lineno}", "(v : V3) (k : R)", "", "norm (vscale k v)",
        _subst_svar(ir, "n", ("norm", ("var", "v"))), "intros. rewrite norm_scale. ring.", ast.unparse(last.value),
        "absolute homogeneity"))
    fields["r_norm_scale"] = f"fun n k => {body_coq}"


def _subst_svar(t, name, repl):
    if t[0] == "svar" and t[1] == name:
        return repl
    return tuple(_subst_svar(x, name, repl) if isinstance(x, tuple) else x for x in t)


def rules_of_derivatives(classes: dict, out: list):
    # VectorDot
    fn = _method(classes["VectorDot"], "_eval_derivative")
    body = _strip_doc(fn.body)
    _expect(isinstance(body[0], ast.If) and ast.unparse(body[0].test) == "is_vector_expr(symbol)", "VectorDot._eval_derivative: guard")
    tr = ExprT({}, cls_name="VectorDot")
    for st in body[1:-1]:
        _expect(isinstance(st, ast.Assign) and len(st.targets) == 1 and isinstance(st.targets[0], ast.Name),
            f"VectorDot._eval_derivative: `{ast.unparse(st)}`")
        src = ast.unparse(st.value)
        if src == "self.lhs":
            tr.env[st.targets[0].id] = ("var", "l")
        elif src == "self.rhs":
            tr.env[st.targets[0].id] = ("var", "r")
        else:
            tr.env[st.targets[0].id] = tr.tr(st.value)
    _expect(isinstance(body[-1], ast.Return), "VectorDot._eval_derivative: return")
    ir = tr.tr(body[-1].value)
    out.append(Rule("diff_dot", f"VectorDot._eval_derivative:{body[-1].lineno}", "(l dl r dr : V3)", "",
        "dot dl r + dot l dr", ir, V3_PROOF, ast.unparse(body[-1].value), "product rule"))
    # VectorCross
    fn = _method(classes["VectorCross"], "_eval_derivative")
    body = _strip_doc(fn.body)
    _expect(isinstance(body[0], ast.If) and ast.unparse(body[0].test) == "is_vector_expr(symbol)", "VectorCross._eval_derivative: guard")
    tr = ExprT({}, cls_name="VectorCross")
    for st in body[1:-1]:
        if ast.unparse(st) in ("lhs, rhs = self.args", "(lhs, rhs) = self.args"):
            tr.env["lhs"], tr.env["rhs"] = ("var", "l"), ("var", "r")
            continue
        _expect(isinstance(st, ast.Assign) and len(st.targets) == 1 and isinstance(st.targets[0], ast.Name),
            f"VectorCross._eval_derivative: `{ast.unparse(st)}`")
        tr.env[st.targets[0].id] = tr.tr(st.value)
    ir = tr.tr(body[-1].value)
    out.append(Rule("diff_cross", f"VectorCross._eval_derivative:{body[-1].lineno}", "(l dl r dr : V3)", "",
        "vadd (cross dl r) (cross l dr)", ir, V3_PROOF, ast.unparse(body[-1].value), "product rule"))
    # VectorMixedProduct
    fn = _method(classes["VectorMixedProduct"], "_eval_derivative")
    body = _strip_doc(fn.body)
    _expect(isinstance(body[0], ast.If) and ast.unparse(body[0].test) == "is_vector_expr(symbol)", "VectorMixedProduct._eval_derivative: guard")
    _expect(len(body) == 3 and ast.unparse(body[1]) in ("a, b, c = self.args", "(a, b, c) = self.args"),
        "VectorMixedProduct._eval_derivative: `a, b, c = self.args`")
    tr = ExprT({"a": ("var", "a"), "b": ("var", "b"), "c": ("var", "c")})
    ir = tr.tr(body[2].value)
    out.append(Rule("diff_mixed", f"VectorMixedProduct._eval_derivative:{body[2].lineno}", "(a da b db c dc : V3)", "",
        "mixed da b c + mixed a db c + mixed a b dc", ir, V3_PROOF, ast.unparse(body[2].value), "product rule"))
    # VectorNorm
    fn = _method(classes["VectorNorm"], "_eval_derivative")
    body = _strip_doc(fn.body)
    srcs = [ast.unparse(s) for s in body]
    _expect("done = self.doit()" in srcs and "vector: Expr = done.args[0]" in srcs, "VectorNorm._eval_derivative: locals")
    _expect("if not isinstance(done, VectorNorm):\n    return done.diff(symbol)" in srcs, "VectorNorm._eval_derivative: non-norm branch")
    tr = ExprT({"vector": ("var", "v"), "done": ("norm", ("var", "v"))})
    ir = tr.tr(body[-1].value)
    out.append(Rule("diff_norm", f"VectorNorm._eval_derivative:{body[-1].lineno}", "(v dv : V3)", "norm v <> 0 -> ",
        "dot dv v + dot v dv", ("mul", ("mul", ("const", 2), ("norm", ("var", "v"))), ir),
        "intros v dv Hn. rewrite (dot_comm dv v). field. exact Hn.", ast.unparse(body[-1].value),
        "n = |v| satisfies n*n = v.v, hence 2 n n' = (v.v)' ; the lemma is stated as 2*|v|*body = v'.v + v.v'"))


FIELD_ORDER = ["r_dot_cc", "r_dot_cx", "r_dot_xc", "r_cross_cc", "r_cross_cx", "r_cross_xc", "z_dot", "a_dot", "z_cross",
    "a_cross", "z_mixed", "a_mixed", "r_mixed_comp", "r_norm_zero", "r_norm_scale"]


@dataclass
class Translation:
    rules: list = field(default_factory=list)
    fields: dict = field(default_factory=dict)
    broken: list = field(default_factory=list)          # (stage, message)

    def ruleset_text(self):
        """None if some field could not be expressed."""
        for f in FIELD_ORDER:
            if f not in self.fields or isinstance(self.fields[f], Exception):
                return None
        body = ";\n  ".join(f"{f} := {self.fields[f]}" for f in FIELD_ORDER)
        return f"Definition source_rules : ruleset := {{|\n  {body} |}}."

    def rules_ok_proof(self):
        x, y, z = self.fields.get("_mixed_comp_args", ("u", "v", "w"))
        return f"""constructor; cbn [source_rules r_dot_cc r_dot_cx r_dot_xc r_cross_cc r_cross_cx r_cross_xc z_dot a_dot
   z_cross a_cross z_mixed a_mixed r_mixed_comp r_norm_zero r_norm_scale].
  - rule_scalar.
  - rule_scalar.
  - rule_scalar.
  - rule_vector.
  - rule_vector.
  - rule_vector.
  - rule_elements.
  - rule_elements.
  - rule_elements.
  - rule_scalar.
  - rule_scalar.
  - reflexivity.
  - intros. rewrite lc_val_scale. apply v3_eq; cbn [vx vy vz vscale]; ring.
  - intros c f s. rewrite lc_scale_els. apply incl_refl.
  - reflexivity.
  - rule_scalar.
  - intros Pv D C u v w Hu Hv Hw HD HC. rewrite (mixed_comp_dot_cross Pv D C {x} {y} {z}) by assumption.
    generalize (vb_val u) (vb_val v) (vb_val w). v3_ring.
  - reflexivity.
  - rule_scalar."""


def translate(path: Path) -> Translation:
    tree = ast.parse(path.read_text())
    classes = {n.name: n for n in tree.body if isinstance(n, ast.ClassDef)}
    t = Translation()
    for need in ("VectorDot", "VectorCross", "VectorMixedProduct", "VectorNorm"):
        if need not in classes:
            t.broken.append(("classes", f"class {need} not found"))
            return t
    stages = [
        ("VectorCross._eval_vector_dot", lambda: rules_of_eval(classes["VectorCross"], "_eval_vector_dot", "dot", t.rules, t.fields)),
        ("VectorCross._eval_vector_cross", lambda: rules_of_eval(classes["VectorCross"], "_eval_vector_cross", "cross", t.rules, t.fields)),
        ("VectorDot.__new__", lambda: arms_of_dot(classes["VectorDot"], t.rules, t.fields)),
        ("VectorCross.__new__", lambda: arms_of_cross(classes["VectorCross"], t.rules, t.fields)),
        ("VectorMixedProduct.__new__", lambda: arms_of_mixed(classes["VectorMixedProduct"], t.rules, t.fields)),
        ("VectorNorm.__new__", lambda: rules_of_norm(classes["VectorNorm"], t.rules, t.fields)),
        ("_eval_derivative", lambda: rules_of_derivatives(classes, t.rules)),
    ]
    for name, fn in stages:
        try:
            fn()
        except Unsupported as e:
            t.broken.append((name, str(e)))
    for f, v in t.fields.items():
        if isinstance(v, Exception):
            t.broken.append((f"ruleset field {f}", str(v)))
    check_skeletons(classes, t, tree)
    return t


def write_skeletons(path: Path):
    """(development) record the shape of the pinned tree"""
    import json  # pylint: disable=import-outside-toplevel
    tree = ast.parse(path.read_text())
    classes = {n.name: n for n in tree.body if isinstance(n, ast.ClassDef)}
    t = Translation()
    for fn in (lambda: rules_of_eval(classes["VectorCross"], "_eval_vector_dot", "dot", t.rules, t.fields),
               lambda: rules_of_eval(classes["VectorCross"], "_eval_vector_cross", "cross", t.rules, t.fields),
               lambda: arms_of_dot(classes["VectorDot"], t.rules, t.fields), lambda: arms_of_cross(classes["VectorCross"], t.rules, t.fields),
               lambda: arms_of_mixed(classes["VectorMixedProduct"], t.rules, t.fields), lambda: rules_of_norm(classes["VectorNorm"], t.rules, t.fields),
               lambda: rules_of_derivatives(classes, t.rules)):
        fn()
    data = current_skeletons(classes, t.rules)
    data.update(static_inventory(tree))
    SKELETON_FILE.write_text(json.dumps(data, indent=1))


# ---------------------------------------------------------------------------------------------
# everything in the translated methods that is NOT a translated expression must stay as it was read when the translator
# was written (new early returns, changed guards, extra statements are a broken tie, not silently ignored)
# ---------------------------------------------------------------------------------------------

SKELETON_FILE = Path(__file__).with_name("vrules_skeletons.json")
LOCKED = [("VectorNorm", "__new__", "VectorNorm.__new__"), ("VectorNorm", "_eval_derivative", "_eval_derivative"),
    ("VectorDot", "__new__", "VectorDot.__new__"), ("VectorDot", "_eval_derivative", "_eval_derivative"),
    ("VectorCross", "__new__", "VectorCross.__new__"), ("VectorCross", "_eval_vector_dot", "VectorCross._eval_vector_dot"),
    ("VectorCross", "_eval_vector_cross", "VectorCross._eval_vector_cross"), ("VectorCross", "_eval_derivative", "_eval_derivative"),
    ("VectorMixedProduct", "__new__", "VectorMixedProduct.__new__"), ("VectorMixedProduct", "_eval_derivative", "_eval_derivative")]


def skeleton(classes, cname, mname, rules):
    import copy  # pylint: disable=import-outside-toplevel
    fn = copy.deepcopy(_method(classes[cname], mname))
    fn.body = _strip_doc(fn.body)
    fn.decorator_list = []
    text = ast.unparse(fn)
    for r in rules:
        if r.where.startswith(f"{cname}.{mname}:"):
            for e in (r.exprs or _source_exprs(r)):
                text = text.replace(e, "<E>", 1)
    return text


def _source_exprs(r):
    out = []
    for part in r.source.split(" ; "):
        part = part.strip()
        for prefix in ("result += ",):
            if part.startswith(prefix):
                part = part[len(prefix):]
        out.append(part)
    return out


def current_skeletons(classes, rules):
    out = {}
    for cname, mname, _stage in LOCKED:
        try:
            out[f"{cname}.{mname}"] = skeleton(classes, cname, mname, rules)
        except Unsupported as e:
            out[f"{cname}.{mname}"] = f"<missing: {e}>"
    return out


MUTABLE_CALLS = {"dict", "list", "set", "defaultdict", "OrderedDict", "deque", "Counter", "WeakValueDictionary", "WeakKeyDictionary",
    "lru_cache", "cache"}


def _dec_name(d):
    d = d.func if isinstance(d, ast.Call) else d
    return ast.unparse(d)


def static_inventory(tree):
    """members of the translated classes, module-level mutable state, decorators of every function: a new method (e.g.
    `_eval_derivative_n_times`), a new module-level dict / list / cache or a new caching decorator is a change of the engine the
    translator knows nothing about"""
    members, state, decos = {}, [], {}
    for n in tree.body:
        if isinstance(n, ast.ClassDef):
            names = []
            for m in n.body:
                if isinstance(m, (ast.FunctionDef, ast.AsyncFunctionDef)):
                    names.append(m.name)
                    decos[f"{n.name}.{m.name}"] = sorted(_dec_name(d) for d in m.decorator_list)
                elif isinstance(m, ast.Assign):
                    names += [ast.unparse(t_) for t_ in m.targets]
                elif isinstance(m, ast.AnnAssign):
                    names.append(ast.unparse(m.target))
            members[n.name] = sorted(names)
        elif isinstance(n, (ast.FunctionDef, ast.AsyncFunctionDef)):
            decos[n.name] = sorted(_dec_name(d) for d in n.decorator_list)
        elif isinstance(n, (ast.Assign, ast.AnnAssign)):
            value = n.value
            targets = n.targets if isinstance(n, ast.Assign) else [n.target]
            mutable = isinstance(value, (ast.Dict, ast.List, ast.Set, ast.ListComp, ast.DictComp, ast.SetComp)) or (
                isinstance(value, ast.Call) and ast.unparse(value.func).split(".")[-1] in MUTABLE_CALLS)
            if mutable:
                state += [ast.unparse(t_) for t_ in targets if ast.unparse(t_) != "__all__"]
    return {"__members__": {k: v for k, v in members.items() if k in {c for c, _m, _s in LOCKED}}, "__module_state__": sorted(state),
        "__decorators__": {k: v for k, v in decos.items() if v}}


def check_skeletons(classes, t, tree=None):
    import json  # pylint: disable=import-outside-toplevel
    if not SKELETON_FILE.exists():
        t.broken.append(("skeletons", f"{SKELETON_FILE} missing"))
        return
    want = json.loads(SKELETON_FILE.read_text())
    if tree is not None:
        inv = static_inventory(tree)
        for cname, names in inv["__members__"].items():
            new = sorted(set(names) - set(want.get("__members__", {}).get(cname, [])))
            gone = sorted(set(want.get("__members__", {}).get(cname, [])) - set(names))
            if new or gone:
                stage = "_eval_derivative" if any("deriv" in x for x in new + gone) else f"{cname}.__new__"
                t.broken.append((stage, f"class {cname}: members added {new}, removed {gone} -- not known to the translator"))
        if inv["__module_state__"] != want.get("__module_state__", []):
            t.broken.append(("module state", f"module-level mutable objects are {inv['__module_state__']}, recorded "
                f"{want.get('__module_state__', [])}: the engine must be a function of its arguments"))
        if inv["__decorators__"] != want.get("__decorators__", {}):
            diff = {k: v for k, v in inv["__decorators__"].items() if want.get("__decorators__", {}).get(k) != v}
            diff.update({k: [] for k in want.get("__decorators__", {}) if k not in inv["__decorators__"]})
            t.broken.append(("module state", f"decorators changed: {diff}"))
    got = current_skeletons(classes, t.rules)
    already = {st for st, _ in t.broken}
    for cname, mname, stage in LOCKED:
        k = f"{cname}.{mname}"
        if got.get(k) != want.get(k) and stage not in already:
            t.broken.append((stage, f"{k}: statements outside the translated rule bodies differ from the recorded shape"))
            already.add(stage)
