"""Seeded generators of units / quantities for C07 and C08.

Every generated object is described by a *source string* that is evaluated in `namespace()`; replay files
store the strings, so a failing input can be rebuilt exactly (`build(src)`)."""
from __future__ import annotations

from fractions import Fraction

import sympy
from sympy import Float
from sympy.physics.units import Quantity as SymQuantity

from . import qx

# dimension class -> spellings of a unit of that dimension (base, derived, prefixed, non-decimal)
CLASSES = {
    "length": ["u.meter", "u.kilometer", "u.centimeter", "u.millimeter", "u.inch", "u.foot", "u.mile",
        "u.kilo*u.meter", "u.micro*u.meter", "prefixes.kilo*u.meter", "prefixes.milli*u.meter",
        "prefixes.centi*u.meter", "prefixes.nano*u.meter", "u.nautical_mile"],
    "mass": ["u.kilogram", "u.gram", "u.milligram", "u.pound", "u.tonne", "u.kilo*u.gram", "prefixes.milli*u.gram",
        "prefixes.mega*u.gram"],
    "time": ["u.second", "u.minute", "u.hour", "u.day", "u.millisecond", "prefixes.micro*u.second", "u.nano*u.second"],
    "current": ["u.ampere", "u.milli*u.ampere", "prefixes.kilo*u.ampere", "u.coulomb/u.second"],
    "temperature": ["u.kelvin", "u.milli*u.kelvin", "prefixes.kilo*u.kelvin"],
    "amount": ["u.mole", "u.milli*u.mole", "prefixes.kilo*u.mole"],
    "luminous": ["u.candela", "u.milli*u.candela"],
    "energy": ["u.joule", "u.kilo*u.joule", "u.kilogram*u.meter**2/u.second**2", "u.newton*u.meter", "u.watt*u.second",
        "u.watt*u.hour", "prefixes.mega*u.joule", "u.gram*u.centimeter**2/u.second**2", "u.volt*u.coulomb"],
    "force": ["u.newton", "u.kilogram*u.meter/u.second**2", "u.kilo*u.newton", "u.gram*u.centimeter/u.second**2",
        "u.joule/u.meter", "prefixes.milli*u.newton"],
    "power": ["u.watt", "u.joule/u.second", "u.kilo*u.watt", "u.volt*u.ampere", "prefixes.giga*u.watt"],
    "pressure": ["u.pascal", "u.bar", "u.atmosphere", "u.newton/u.meter**2", "u.kilo*u.pascal", "prefixes.hecto*u.pascal"],
    "frequency": ["u.hertz", "1/u.second", "u.kilo*u.hertz", "u.radian/u.second", "1/u.minute", "u.becquerel"],
    "velocity": ["u.meter/u.second", "u.kilometer/u.hour", "u.mile/u.hour", "u.speed_of_light", "u.centimeter/u.millisecond"],
    "acceleration": ["u.meter/u.second**2", "u.kilometer/u.hour**2", "u.newton/u.kilogram"],
    "charge": ["u.coulomb", "u.ampere*u.second", "u.milli*u.coulomb", "u.ampere*u.hour"],
    "voltage": ["u.volt", "u.watt/u.ampere", "u.joule/u.coulomb", "u.kilo*u.volt", "prefixes.micro*u.volt"],
    "resistance": ["u.ohm", "u.volt/u.ampere", "u.kilo*u.ohm", "1/u.siemens"],
    "area": ["u.meter**2", "u.hectare", "u.centimeter**2", "u.kilometer**2", "u.inch**2"],
    "volume": ["u.meter**3", "u.liter", "u.centimeter**3", "u.milli*u.liter"],
    "density": ["u.kilogram/u.meter**3", "u.gram/u.centimeter**3", "u.gram/u.liter"],
    "dimensionless": ["S.One", "u.percent", "u.radian", "u.meter/u.kilometer", "u.radian**2"],
    "sqrt_length": ["u.meter**Rational(1,2)", "u.centimeter**Rational(1,2)", "(u.meter*u.centimeter)**Rational(1,2)"],
    "inv_length": ["1/u.meter", "u.dioptre", "1/u.centimeter"],
}

# irrational scale factors: outside the exact model (results are compared numerically as a side test)
IRRATIONAL = {
    "dimensionless": ["u.degree"],
    "length": ["sqrt(2)*u.meter", "pi*u.centimeter"],
    "frequency": ["u.degree/u.second"],
}

EXACT_MAGS = ["1", "2", "-3", "7", "Rational(1,3)", "Rational(-7,5)", "Rational(22,7)", "10**30", "Rational(1,10**30)",
    "1000", "Rational(1,1000)", "12345678901234567890", "Rational(5,2)"]
DYADIC_MAGS = ["Float(0.5)", "Float(-2.25)", "Float(1024.0)", "Float(2.0**-20)", "Float(3.0)", "1.5", "0.25"]
FLOAT_MAGS = ["Float(1e-3)", "3.14", "2.5e7", "-1e-9", "6.02214076e23", "1.1"]
SPECIAL_MAGS = ["S.Zero", "oo", "-oo", "nan"]


def namespace():
    from sympy import S, I, oo, nan, zoo, pi, sqrt, Rational, Symbol as SymSymbol  # pylint: disable=import-outside-toplevel
    from sympy.physics import units as u  # pylint: disable=import-outside-toplevel
    from sympy.physics.units import Dimension  # pylint: disable=import-outside-toplevel
    import symplyphysics  # pylint: disable=import-outside-toplevel
    from symplyphysics import Quantity, prefixes, angle_type, QuantityVector  # pylint: disable=import-outside-toplevel
    from symplyphysics.core.dimensions import dimension_to_si_unit, any_dimension  # pylint: disable=import-outside-toplevel
    return {"S": S, "I": I, "oo": oo, "nan": nan, "zoo": zoo, "pi": pi, "sqrt": sqrt, "Rational": Rational,
        "Float": Float, "u": u, "Dimension": Dimension, "Quantity": Quantity, "prefixes": prefixes,
        "angle_type": angle_type, "QuantityVector": QuantityVector, "CoordinateSystem": symplyphysics.CoordinateSystem, "Max": sympy.Max, "Min": sympy.Min, "Abs": sympy.Abs, "dimension_to_si_unit": dimension_to_si_unit,
        "any_dimension": any_dimension, "SymSymbol": SymSymbol, "sympy": sympy, "symplyphysics": symplyphysics}


_NS = None


def build(src: str):
    global _NS  # pylint: disable=global-statement
    if _NS is None:
        _NS = namespace()
    return eval(src, dict(_NS))  # pylint: disable=eval-used


def has_float(obj) -> bool:
    """Does a Float take part in the arithmetic on this object (expression atoms, registered scale factors)?"""
    if isinstance(obj, (int, Fraction)):
        return False
    if isinstance(obj, float):
        return True
    obj = sympy.sympify(obj)
    if obj.atoms(Float):
        return True
    for q in obj.atoms(SymQuantity):
        if sympy.sympify(q.scale_factor).atoms(Float):
            return True
    return False


def carg_lit(obj) -> str:
    """Model/Convert.v `carg`: the isinstance(value, SymQuantity) split of convert_to."""
    if isinstance(obj, SymQuantity):
        return f"(CQ {qx.val_lit(qx.val_class(obj.scale_factor))} {qx.dim_lit(qx.dim_vec(obj.dimension))})"
    return f"(CE {qx.qexpr_lit(obj)})"


def rval_lit(obs) -> str:
    """('ok', valclass) | ('err', class, msg) -> Gallina `result val`"""
    if obs[0] == "err":
        return f"(Err {obs[1]}%N)"
    return f"(Ok {qx.val_lit(obs[1])})"


def run_val(fn, *a, **k):
    try:
        r = fn(*a, **k)
    except Exception as e:  # pylint: disable=broad-except
        return ("err", qx.err_class(e), f"{type(e).__name__}: {e}"[:200])
    return ("ok", qx.val_class(r), r)


def pick_mag(rng, allow_special=True):
    """(source, kind) kind in exact / dyadic / float / special"""
    r = rng.random()
    if allow_special and r < 0.07:
        return rng.choice(SPECIAL_MAGS), "special"
    if r < 0.55:
        return rng.choice(EXACT_MAGS), "exact"
    if r < 0.75:
        return rng.choice(DYADIC_MAGS), "dyadic"
    if r < 0.85:
        k = rng.randrange(-40, 41)
        m = rng.randrange(1, 2**20) * rng.choice([1, -1])
        return (f"Rational({m},{2**-k})" if k < 0 else f"Rational({m * 2**k},1)"), "exact"
    if r < 0.93:
        return f"Rational({rng.randrange(-10**6, 10**6)},{rng.randrange(1, 10**4)})", "exact"
    return rng.choice(FLOAT_MAGS), "float"


def pick_unit(rng, cls):
    return rng.choice(CLASSES[cls])


def pick_class(rng):
    return rng.choice(sorted(CLASSES))


def quantity_src(rng, cls, allow_special=True, wrap=None):
    """A value of dimension class `cls`: (source, description kind).  wrap: None = random choice between a
    constructed Quantity, a raw expression, a bare sympy unit."""
    mag, kind = pick_mag(rng, allow_special)
    unit = pick_unit(rng, cls)
    r = rng.random() if wrap is None else wrap
    if unit == "S.One":
        body = f"S({mag})" if not mag.startswith(("S.", "oo", "-oo", "nan")) else mag
    else:
        body = f"({mag})*{unit}"
    if r < 0.6:
        return f"Quantity({body})", kind
    return body, kind
