"""SymPy objects -> Gallina literals for the dimension models (Dim.v, Val.v, CollectQ.v, Gate.v),
and canonicalisation of the implementation's observations (values, dimensions, exception classes).

The serialiser reads the tree exactly as `collect_quantity_factor_and_dimension` receives it
(`sympify(expr)`, then `.args` in order).  It is fail-closed: an object it cannot express raises
`Unsupported`."""
from __future__ import annotations

from fractions import Fraction

import sympy
from sympy import S, Abs, Add, Derivative, Mul, Pow
from sympy import Function as SymFunction
from sympy.functions.elementary.miscellaneous import MinMaxBase, Min
from sympy.physics import units
from sympy.physics.units import Dimension, Quantity as SymQuantity
from sympy.physics.units.prefixes import Prefix
from sympy.physics.units.systems.si import dimsys_SI
from sympy.physics.units.definitions.dimension_definitions import angle as angle_type

BASES = ["length", "mass", "time", "current", "temperature", "amount_of_substance", "luminous_intensity",
    "angle", "any_dimension"]
NB = len(BASES)

E_TYPE, E_UNITS, E_VALUE, E_OTHER, E_ASSERT = 1, 2, 3, 4, 5


class Unsupported(Exception):
    pass


def err_class(exc: BaseException) -> int:
    from symplyphysics.core.errors import UnitsError  # pylint: disable=import-outside-toplevel
    if isinstance(exc, UnitsError):
        return E_UNITS
    if isinstance(exc, TypeError):
        return E_TYPE
    if isinstance(exc, ValueError):
        return E_VALUE
    if isinstance(exc, AssertionError):
        return E_ASSERT
    return E_OTHER


# ---- dimensions ---------------------------------------------------------------------------------

def dim_vec(d: Dimension) -> tuple[Fraction, ...]:
    deps = dimsys_SI.get_dimensional_dependencies(d)
    vec = [Fraction(0)] * NB
    for k, v in deps.items():
        name = str(k.name)
        if name not in BASES:
            raise Unsupported(f"base dimension {name}")
        v = sympy.nsimplify(v) if isinstance(v, sympy.Float) else sympy.sympify(v)
        if not v.is_Rational:
            raise Unsupported(f"dimension exponent {v}")
        vec[BASES.index(name)] = Fraction(int(v.p), int(v.q))
    return tuple(vec)


def q_lit(fr: Fraction) -> str:
    n, d = fr.numerator, fr.denominator
    return f"({n} # {d})" if n >= 0 else f"(({n}) # {d})"


def dim_lit(vec) -> str:
    return "[" + "; ".join(q_lit(x) for x in vec) + "]"


# ---- values -------------------------------------------------------------------------------------

def frac_of(v) -> Fraction:
    v = sympy.sympify(v)
    if v.is_Float:
        r = sympy.Rational(v)
        return Fraction(int(r.p), int(r.q))
    return Fraction(int(v.p), int(v.q))


def val_class(v):
    """('Q', Fraction) | ('F0',) | ('PInf',) | ('NInf',) | ('NaN',) | ('Zoo',) | ('Other',) | ('Sym',)"""
    try:
        v = sympy.sympify(v)
    except Exception:  # pylint: disable=broad-except
        return ("Sym",)
    if v is S.NaN:
        return ("NaN",)
    if v is S.Infinity:
        return ("PInf",)
    if v is S.NegativeInfinity:
        return ("NInf",)
    if v is S.ComplexInfinity:
        return ("Zoo",)
    if getattr(v, "is_Float", False):
        if v.is_zero:
            return ("F0",)
        return ("Q", frac_of(v))
    if getattr(v, "is_Rational", False):
        return ("Q", frac_of(v))
    try:
        complex(v)
    except (TypeError, ValueError):
        return ("Sym",)
    return ("Other",)


def val_lit(vc) -> str:
    k = vc[0]
    if k == "Q":
        return f"(VQ {q_lit(vc[1])})"
    return {"F0": "VFloat0", "PInf": "VPInf", "NInf": "VNInf", "NaN": "VNaN", "Zoo": "VZoo",
        "Other": "VOther", "Sym": "VSym"}[k]


# ---- expressions --------------------------------------------------------------------------------

def pyvalue(expr):
    """Arithmetic value of an expression of numbers, prefixes and quantities, computed by plain SymPy
    arithmetic on the registered scale factors (independent of the collectors)."""
    expr = sympy.sympify(expr)
    if isinstance(expr, SymQuantity):
        return expr.scale_factor
    if isinstance(expr, Prefix):
        return expr.scale_factor
    if not expr.args:
        return expr
    return expr.func(*[pyvalue(a) for a in expr.args])


def qexpr_lit(expr) -> str:
    expr = sympy.sympify(expr)
    if isinstance(expr, SymQuantity):
        return f"(QQty {val_lit(val_class(expr.scale_factor))} {dim_lit(dim_vec(expr.dimension))})"
    if isinstance(expr, Prefix):
        return f"(QPrefix {val_lit(val_class(expr.scale_factor))})"
    if isinstance(expr, Mul):
        return "(QMul [" + "; ".join(qexpr_lit(a) for a in expr.args) + "])"
    if isinstance(expr, Pow):
        return f"(QPow {qexpr_lit(expr.base)} {qexpr_lit(expr.exp)})"
    if isinstance(expr, Add):
        return "(QAdd [" + "; ".join(qexpr_lit(a) for a in expr.args) + "])"
    if isinstance(expr, Abs):
        return f"(QAbs {qexpr_lit(expr.args[0])})"
    if isinstance(expr, MinMaxBase):
        k = "QMin" if isinstance(expr, Min) else "QMax"
        return f"({k} [" + "; ".join(qexpr_lit(a) for a in expr.args) + "])"
    if isinstance(expr, Derivative):
        return "QDeriv"
    if isinstance(expr, SymFunction):
        try:
            ov = val_class(expr.func(*[pyvalue(a) for a in expr.args]))
        except Exception:  # pylint: disable=broad-except
            ov = ("Sym",)
        return f"(QFun {val_lit(ov)} [" + "; ".join(qexpr_lit(a) for a in expr.args) + "])"
    if isinstance(expr, Dimension):
        raise Unsupported("Dimension inside an expression")
    return f"(QNum {val_lit(val_class(expr))})"


def cres_of_impl(fn, *a, **k):
    """Run the implementation and canonicalise: ('ok', valclass, dimvec) | ('err', class)."""
    try:
        scale, dim = fn(*a, **k)
    except Exception as e:  # pylint: disable=broad-except
        return ("err", err_class(e), f"{type(e).__name__}: {e}"[:200])
    return ("ok", val_class(scale), dim_vec(dim))


def cres_lit(obs) -> str:
    if obs[0] == "err":
        return f"(Err {obs[1]}%N)"
    return f"(Ok ({val_lit(obs[1])}, {dim_lit(obs[2])}))"


PREAMBLE_COLLECT = """From Coq Require Import List QArith ZArith NArith Bool.
From VP Require Import Base.Util Base.Dim Base.Val Model.CollectQ.
Import ListNotations.
Local Open Scope Q_scope.
"""

PREAMBLE = """From Coq Require Import List QArith ZArith NArith Bool.
From VP Require Import Base.Util Base.Dim Base.Val Model.CollectQ Model.Gate.
Import ListNotations.
Local Open Scope Q_scope.
"""

# ---- pools used by several generators -----------------------------------------------------------

def unit_pool():
    u = units
    return [u.meter, u.kilogram, u.gram, u.second, u.ampere, u.kelvin, u.mole, u.candela, u.newton, u.joule,
        u.watt, u.pascal, u.hertz, u.coulomb, u.volt, u.ohm, u.radian, u.kilometer, u.centimeter, u.minute,
        u.hour, u.liter, u.tesla, u.farad, u.steradian, u.degree]


def dimension_pool():
    u = units
    return [u.length, u.mass, u.time, u.current, u.temperature, u.amount_of_substance, u.luminous_intensity,
        u.energy, u.force, u.power, u.pressure, u.frequency, u.velocity, u.acceleration, u.charge, u.voltage,
        u.area, u.volume, u.momentum, angle_type, Dimension(1)]
