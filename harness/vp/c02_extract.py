"""C02 extractor: closed form F(args) of a `calculate_*` function, obtained by RUNNING the function's own
code object on symbolic stand-ins.

    items = catalogue()                       # every calculate_* of laws/definitions/conditions
    ex    = extract(item)                     # Extraction (status "ok" | "unextracted", with reason)

What is replaced (in a COPY of the function's globals, the source is untouched):
  Quantity(e, ...)            -> e                      (the SI value of a quantity *is* the expression)
  convert_to(e, u)            -> e / u'                 (u' = SI value of the target unit, 1 for S.One)
  convert_to_si / convert_to_float / scale_factor / float / int / complex / Fraction / Probability -> identity
  QuantityVector              -> SVec (list of component expressions, to_base_vector/from_base_vector)
  assert_equivalent_dimension -> no-op  (dimension checks are C04's business)
and, for the duration of the run only,
  Expr.scale_factor           -> the expression itself (so `x_.scale_factor <= y_.scale_factor` is symbolic)
  Relational.__bool__         -> *path oracle*: a comparison of symbolic values evaluated by the function's own
                                 frame is decided by the current path (list of booleans) and recorded as a path
                                 condition; the extractor enumerates paths until one returns a value.
  Basic.subs                  -> recorded (law symbol -> argument expression): this is sigma.
  solve (global name)         -> recorded (equation, unknown).
Nothing of this is used to *establish* the property: the closed form is validated against the real decorated
function numerically (tie) and the law is instantiated on the Coq side."""
from __future__ import annotations

import importlib
import inspect
import pkgutil
import types
import typing
from dataclasses import dataclass, field

import sympy
import sympy.core.evalf
from sympy import S
from sympy.core.relational import Relational
from sympy.physics.units import Dimension, Quantity as SymQuantity

PACKAGES = ("laws", "definitions", "conditions")


# ---------------------------------------------------------------------------------------------
# catalogue
# ---------------------------------------------------------------------------------------------

@dataclass
class Item:
    module: types.ModuleType
    name: str
    fn: typing.Callable

    @property
    def key(self) -> str:
        return f"{self.module.__name__.removeprefix('symplyphysics.')}.{self.name}"


def iter_modules():
    """(module name, module | None, import error | None) for every catalogue module."""
    for sub in PACKAGES:
        pkg = importlib.import_module("symplyphysics." + sub)
        for m in pkgutil.walk_packages(pkg.__path__, pkg.__name__ + "."):
            if m.ispkg:
                continue
            try:
                yield m.name, importlib.import_module(m.name), None
            except Exception as e:  # pylint: disable=broad-except
                yield m.name, None, f"{type(e).__name__}: {e}"


def catalogue():
    items, nmods, import_errors = [], 0, {}
    for name, mod, err in iter_modules():
        if mod is None:
            import_errors[name] = err
            continue
        nmods += 1
        for n, f in vars(mod).items():
            if n.startswith("calculate_") and callable(f) and getattr(f, "__module__", None) == mod.__name__:
                items.append(Item(mod, n, f))
    items.sort(key=lambda it: it.key)
    return items, nmods, import_errors


def decorator_specs(fn):
    """Walk the __wrapped__ chain and read the closures of the validate_* wrappers
    (same reading as props/c04.py::decorator_specs)."""
    specs = {"input": {}, "output": [], "same": []}
    f = fn
    while f is not None:
        try:
            nl = inspect.getclosurevars(f).nonlocals
        except TypeError:
            nl = {}
        if "decorator_kwargs" in nl:
            specs["input"].update(nl["decorator_kwargs"])
        if "expected_unit" in nl:
            specs["output"].append(nl["expected_unit"])
        if "param_name" in nl and "decorator_kwargs" not in nl:
            specs["same"].append(nl["param_name"])
        f = getattr(f, "__wrapped__", None)
    return specs


# ---------------------------------------------------------------------------------------------
# stand-ins
# ---------------------------------------------------------------------------------------------

class Unextractable(Exception):
    pass


class SVec:
    """Stand-in for QuantityVector: a Cartesian vector of component expressions."""

    def __init__(self, components, coordinate_system=None, *, dimension=None):
        self._cs = coordinate_system if coordinate_system is not None else default_coordinate_system()
        self._components = [sympy.sympify(c) for c in components]
        self.dimension = dimension

    @property
    def components(self):
        return list(self._components)

    @property
    def coordinate_system(self):
        return self._cs

    def to_base_vector(self):
        from symplyphysics import Vector  # pylint: disable=import-outside-toplevel
        return Vector(self.components, self._cs)

    @staticmethod
    def from_base_vector(vector, *, dimension=None, subs=None):
        comps = vector.components
        if subs is not None:
            comps = [sympy.sympify(c).subs(subs) for c in comps]
        return SVec(comps, vector.coordinate_system, dimension=dimension)


def default_coordinate_system():
    """The very object the real QuantityVector uses by default (coordinate systems are compared by identity)."""
    from symplyphysics.core.vectors.vectors import QuantityVector  # pylint: disable=import-outside-toplevel
    return inspect.signature(QuantityVector.__init__).parameters["coordinate_system"].default


_DIMS: dict = {}
_LEAF: dict = {}     # symbol name -> leaf annotation ("int" | "float" | "Quantity" | "Quantity|float" | ...)


class ASym(sympy.Symbol):
    """Argument stand-in: a real symbol that also answers `.dimension` (and, while patched, `.scale_factor`)."""
    __slots__ = ()

    @property
    def dimension(self):
        return _DIMS.get(self.name)


def asym(name, dim=None, **asm):
    _DIMS[name] = dim
    return ASym(name, real=True, **asm)


def _dim_of(spec):
    d = getattr(spec, "dimension", spec)
    return d if isinstance(d, Dimension) else None


ASSUMPTION_KEYS = ("positive", "nonnegative", "negative", "nonpositive", "nonzero", "integer")


def _assumptions_of(spec) -> dict:
    out = {}
    if isinstance(spec, sympy.Symbol):
        for k in ASSUMPTION_KEYS:
            v = getattr(spec, "is_" + k)
            if v is True:
                out[k] = True
    return out


@dataclass
class Arg:
    param: str
    kind: str                      # scalar | vector | seq | opaque
    syms: list                     # the fresh symbols (1 for scalar, 3 for vector, n for seq)
    value: typing.Any              # what is passed to the code object
    spec: typing.Any = None
    dim: typing.Any = None
    annotation: str = ""


@dataclass
class Extraction:
    key: str
    status: str = "unextracted"
    reason: str = ""
    args: list = field(default_factory=list)
    branches: list = field(default_factory=list)    # one per returning path
    refused: list = field(default_factory=list)     # [(path, error text)] paths on which the function raises
    laws: list = field(default_factory=list)        # [(attr name, Relational)] referenced by the code object
    wrappers: list = field(default_factory=list)    # outermost numeric wrappers seen: "ceiling", "abs", "int"
    specs: dict = field(default_factory=dict)
    n_paths: int = 0
    module: typing.Any = None
    laws_by_default: bool = False


SEQ_LEN = 3
_FAMILY = [False]


def _is_class(a, name):
    return inspect.isclass(a) and a.__name__ == name


def _build(ann, base, spec, syms, depth=0):
    """Stand-in value for a parameter of annotation `ann`; fresh symbols are appended to `syms`."""
    origin = typing.get_origin(ann)
    targs = typing.get_args(ann)
    if _is_class(ann, "QuantityVector"):
        ss = [asym(f"a_{base}_{c}", _dim_of(spec)) for c in "xyz"]
        for x in ss:
            _LEAF[x.name] = "Quantity"
        syms += ss
        return SVec(ss, dimension=_dim_of(spec))
    if _is_class(ann, "VectorField") or _is_class(ann, "ScalarField") or origin is typing.get_origin(typing.Callable[[int], int]):
        raise Unextractable(f"parameter {base} is a function/field")
    if origin is tuple and targs and targs[-1] is not Ellipsis:
        specs = list(spec) if isinstance(spec, (tuple, list)) else [spec] * len(targs)
        return tuple(_build(t, f"{base}_{i}", specs[min(i, len(specs) - 1)], syms, depth + 1) for i, t in enumerate(targs))
    if origin is not None and origin is not typing.Union and origin is not types.UnionType and targs:
        # Sequence[X] / list[X] / Iterable[X]: a list of SEQ_LEN elements
        specs = list(spec) if isinstance(spec, (tuple, list)) else [spec] * SEQ_LEN
        return [_build(targs[0], f"{base}_{i}", specs[min(i, len(specs) - 1)], syms, depth + 1) for i in range(SEQ_LEN)]
    asm = _assumptions_of(spec)
    if ann is int:
        asm.setdefault("integer", True)
    s = asym(f"a_{base}", _dim_of(spec), **asm)
    _LEAF[s.name] = _leaf_ann(ann)
    syms.append(s)
    return s


def _leaf_ann(ann) -> str:
    parts = typing.get_args(ann) if (typing.get_origin(ann) in (typing.Union, types.UnionType)) else (ann,)
    names = []
    for a in parts:
        n = getattr(a, "__name__", str(a))
        names.append(n)
    return "|".join(names)


def make_args(raw, specs) -> list:
    out = []
    sig = inspect.signature(raw)
    hints = {}
    try:
        hints = typing.get_type_hints(raw)
    except Exception:  # pylint: disable=broad-except
        pass
    for p in sig.parameters.values():
        if p.kind in (p.VAR_POSITIONAL, p.VAR_KEYWORD):
            raise Unextractable(f"variadic parameter {p.name}")
        spec = specs["input"].get(p.name)
        ann = hints.get(p.name, p.annotation)
        base = p.name.rstrip("_") or p.name
        syms: list = []
        outs = [o for o in specs.get("output", []) if isinstance(o, sympy.Symbol)]
        if _FAMILY[0] and ann is sympy.Expr and spec is None and outs:
            # an expression-valued parameter (a function of the unknown, e.g. the filter function F(N)): the power
            # family  b ** unknown  with a fresh positive b stands for it (what the repository's own test passes)
            b = asym(f"a_{base}_base", None, positive=True)
            _LEAF[b.name] = "float"
            out.append(Arg(p.name, "exprfam", [b], b**outs[0], spec, None, str(ann)))
            continue
        val = _build(ann, base, spec, syms)
        kind = "scalar" if isinstance(val, sympy.Symbol) else "vector" if isinstance(val, SVec) else "seq"
        out.append(Arg(p.name, kind, syms, val, spec, _dim_of(spec), str(ann)))
    return out


# ---------------------------------------------------------------------------------------------
# run-time patches (active only inside `patched()`)
# ---------------------------------------------------------------------------------------------

class _Run:
    """State of one symbolic run."""

    def __init__(self, code_file, first_line, last_line, decisions):
        self.code_file = code_file
        self.first_line = first_line
        self.last_line = last_line
        self.decisions = list(decisions)
        self.taken = []          # [(relational, bool)]
        self.subs_log = []
        self.solve_log = []
        self.lawfn_log = []      # [(function name, args, kwargs, result)] calls of the module's own law functions
        self.more = False        # a decision beyond the prescribed prefix was needed

    def own_frame(self, depth=2) -> bool:
        import sys  # pylint: disable=import-outside-toplevel
        f = sys._getframe(depth)  # pylint: disable=protected-access
        for _ in range(3):       # the function itself or a lambda/comprehension defined inside it
            if f is None:
                return False
            co = f.f_code
            if co.co_filename == self.code_file and self.first_line <= f.f_lineno <= self.last_line:
                return True
            if co.co_filename.startswith(str(sympy.__path__[0])):
                return False
            f = f.f_back
        return False


_CURRENT: list = []


def _rel_bool(self):
    if _CURRENT:
        run = _CURRENT[-1]
        if run.own_frame():
            k = len(run.taken)
            if k < len(run.decisions):
                v = run.decisions[k]
            else:
                v = False
                run.more = True
            run.taken.append((self, v))
            return v
    raise TypeError("cannot determine truth value of Relational")


def _record_subs(self, *args, **kwargs):
    if _CURRENT:
        run = _CURRENT[-1]
        if run.own_frame():
            try:
                if len(args) == 1 and isinstance(args[0], dict):
                    pairs = list(args[0].items())
                elif len(args) == 2:
                    pairs = [(args[0], args[1])]
                elif len(args) == 1:
                    pairs = list(args[0])
                else:
                    pairs = []
                for k, v in pairs:
                    run.subs_log.append((k, v))
            except Exception:  # pylint: disable=broad-except
                pass
    return _ORIG["subs"](self, *args, **kwargs)


def _evalf_own(self, *args, **kwargs):
    """`expr.evalf()` / `expr.n()` called by the function itself keeps the expression exact."""
    if _CURRENT and _CURRENT[-1].own_frame():
        return self
    return _ORIG["evalf"](self, *args, **kwargs)


_ORIG: dict = {}


class vp_abs(sympy.Function):  # pylint: disable=invalid-name
    """Marker for `abs(...)` applied by the function body (never auto-evaluated, so the documented
    'returns the magnitude' exception stays visible in the closed form)."""
    is_real = True
    is_nonnegative = True

    def _eval_evalf(self, prec):
        return sympy.Abs(self.args[0])._eval_evalf(prec)  # pylint: disable=protected-access


class vp_trunc(sympy.Function):  # pylint: disable=invalid-name
    """Marker for `int(...)` applied by the function body to a symbolic value (truncation toward zero)."""
    is_real = True

    @classmethod
    def eval(cls, x):
        if x.is_integer or isinstance(x, (sympy.ceiling, sympy.floor, vp_trunc)):
            return x
        if x.is_Number:
            return sympy.Integer(int(x))
        return None

    def _eval_evalf(self, prec):
        v = self.args[0]._eval_evalf(prec)  # pylint: disable=protected-access
        if v is None or not v.is_Number:
            return None
        r = round(v)
        if abs(v - r) <= 1e-9 * max(1, abs(r)):      # an integer up to evaluation round-off
            return sympy.Float(int(r), prec)
        return sympy.Float(int(v), prec)


def rationalise(e, mode="decimal"):
    """Float atoms -> exact rationals (decimal reading of the literal's repr)."""
    if not isinstance(e, sympy.Basic) or not e.has(sympy.Float):
        return e
    rep = {}
    for f in e.atoms(sympy.Float):
        rep[f] = sympy.Rational(str(f)) if mode == "decimal" else sympy.Rational(f)
    return e.xreplace(rep)


class patched:
    def __init__(self, run):
        self.run = run

    def __enter__(self):
        _ORIG["subs"] = sympy.Basic.subs
        _ORIG["bool"] = Relational.__bool__
        _ORIG["had_sf"] = "scale_factor" in sympy.Expr.__dict__
        _ORIG["evalf"] = sympy.core.evalf.EvalfMixin.evalf
        sympy.core.evalf.EvalfMixin.evalf = _evalf_own
        sympy.core.evalf.EvalfMixin.n = _evalf_own
        sympy.Basic.subs = _record_subs
        Relational.__bool__ = _rel_bool
        sympy.Expr.scale_factor = property(lambda s: s)
        _CURRENT.append(self.run)
        return self.run

    def __exit__(self, *exc):
        _CURRENT.pop()
        sympy.Basic.subs = _ORIG["subs"]
        Relational.__bool__ = _ORIG["bool"]
        sympy.core.evalf.EvalfMixin.evalf = _ORIG["evalf"]
        sympy.core.evalf.EvalfMixin.n = _ORIG["evalf"]
        if not _ORIG["had_sf"]:
            del sympy.Expr.scale_factor
        return False


def _si_value_of_unit(u):
    """SI value of a target unit expression of convert_to (1 for S.One / SI units, 1000 for kilo..., symbolic args stay)."""
    from symplyphysics import convert_to_si  # pylint: disable=import-outside-toplevel
    u = sympy.sympify(u)
    if u == 1:
        return S.One
    if not u.atoms(SymQuantity):
        return u
    return sympy.sympify(convert_to_si(u))


def stub_globals(g: dict, run: _Run) -> dict:
    g = dict(g)
    ident = lambda x, *a, **k: sympy.sympify(x)  # noqa: E731

    quantity_stub = _QuantityStub

    def convert_to_stub(value, target):
        return sympy.sympify(value) / _si_value_of_unit(target)

    def solve_stub(f, *symbols, **flags):
        run.solve_log.append((f, symbols))
        return sympy.solve(f, *symbols, **flags)

    def noop(*_a, **_k):
        return None

    names = {
        "Quantity": quantity_stub, "convert_to": convert_to_stub, "convert_to_si": ident, "convert_to_float": ident,
        "scale_factor": ident, "float": ident, "complex": ident, "Probability": ident, "Fraction": ident,
        "QuantityVector": SVec, "assert_equivalent_dimension": noop, "solve": solve_stub,
        "evaluate_quantity": ident,
    }
    for k, v in names.items():
        if k in g or k in ("float", "complex"):
            g[k] = v

    modname = g.get("__name__")
    for k, v in list(g.items()):
        if (inspect.isfunction(v) and v.__module__ == modname and not k.startswith("calculate_") and not k.startswith("_")):
            g[k] = _recording(v, k, run)
    g["int"] = _IntStub
    g["abs"] = lambda x: vp_abs(sympy.sympify(x))
    # Float literals of the module's published expressions are read as the decimal numbers written in the source,
    # so that SymPy's solve() keeps pi, sqrt(2), ... exact instead of nfloat-ing the whole solution.
    for k, v in list(g.items()):
        if isinstance(v, sympy.Basic) and v.has(sympy.Float):
            g[k] = rationalise(v)
    return g


def _recording(fn, name, run):
    def wrapper(*a, **k):
        r = fn(*a, **k)
        run.lawfn_log.append((name, a, k, r))
        return r
    wrapper.__wrapped_law__ = fn
    return wrapper


class _StubMeta(type):
    def __instancecheck__(cls, obj):
        return cls._inst(obj)

    def __call__(cls, *a, **k):
        return cls._make(*a, **k)


class _QuantityStub(metaclass=_StubMeta):
    @staticmethod
    def _inst(obj):
        return isinstance(obj, (sympy.Expr, SymQuantity))

    @staticmethod
    def _make(expr=S.One, **_kw):
        return sympy.sympify(expr)


class _IntStub(metaclass=_StubMeta):
    @staticmethod
    def _inst(obj):
        return isinstance(obj, int) or (isinstance(obj, sympy.Expr) and obj.is_integer is True)

    @staticmethod
    def _make(x=0, *a):
        if a:
            return int(x, *a)
        y = sympy.sympify(x)
        return vp_trunc(y) if y.free_symbols else int(y)


# ---------------------------------------------------------------------------------------------
# extraction
# ---------------------------------------------------------------------------------------------

MAX_PATHS = 12


def referenced_laws(raw, module):
    out = []
    names = set(raw.__code__.co_names)
    for const in raw.__code__.co_consts:
        if isinstance(const, types.CodeType):
            names |= set(const.co_names)
    for n in sorted(names):
        v = module.__dict__.get(n)
        if isinstance(v, Relational):
            out.append((n, v))
    return out


def _normalise_result(res, argsyms):
    """-> (kind, value).  Scalars become sympy expressions; SVec -> list of components."""
    if isinstance(res, SVec):
        return "vector", [sympy.sympify(c) for c in res.components]
    if isinstance(res, (tuple, list)):
        vals = []
        for r in res:
            k, v = _normalise_result(r, argsyms)
            vals.append((k, v))
        return "tuple", vals
    if isinstance(res, bool):
        raise Unextractable("returns a bool")
    try:
        e = sympy.sympify(res)
    except Exception as ex:  # pylint: disable=broad-except
        raise Unextractable(f"result not sympifiable: {type(res).__name__}") from ex
    if not isinstance(e, sympy.Expr):
        raise Unextractable(f"result is {type(e).__name__}")
    return "scalar", e


def _free(kind, value):
    if kind == "scalar":
        return set(value.free_symbols)
    out = set()
    for v in value:
        if isinstance(v, tuple):
            out |= _free(*v)
        else:
            out |= set(v.free_symbols)
    return out


def run_symbolic(raw, module, args, decisions):
    """One run of the function's own code object on the stand-ins.  -> (run, result | None, error text | None)"""
    src_lines, first = inspect.getsourcelines(raw)
    run = _Run(raw.__code__.co_filename, first, first + len(src_lines), decisions)
    g = stub_globals(raw.__globals__, run)
    f = types.FunctionType(raw.__code__, g, raw.__name__, raw.__defaults__, raw.__closure__)
    if raw.__kwdefaults__:
        f.__kwdefaults__ = dict(raw.__kwdefaults__)
    try:
        with patched(run):
            res = f(**{a.param: a.value for a in args})
    except Exception as e:  # pylint: disable=broad-except
        return run, None, f"{type(e).__name__}: {str(e)[:200]}"
    return run, res, None


@dataclass
class Branch:
    path: list                 # [(relational, taken: bool)]
    result: typing.Any
    result_kind: str
    subs_log: list
    solve_log: list
    lawfn_log: list = field(default_factory=list)


def extract(item: Item) -> Extraction:
    ex = _extract_once(item)
    if ex.status != "ok":
        try:
            hints = typing.get_type_hints(inspect.unwrap(item.fn))
        except Exception:  # pylint: disable=broad-except
            hints = {}
        if any(h is sympy.Expr for h in hints.values()):
            _FAMILY[0] = True
            try:
                ex2 = _extract_once(item)
            finally:
                _FAMILY[0] = False
            fam = [a.value for a in ex2.args if a.kind == "exprfam"]
            # accepted only if the body substitutes the stand-in for a symbol of its law and solves for the unknown
            if ex2.status == "ok" and fam and all(any(v == f for _k, v in b.subs_log) and b.solve_log for b in ex2.branches for f in fam):
                return ex2
    return ex


def _extract_once(item: Item) -> Extraction:
    ex = Extraction(item.key)
    ex.module = item.module
    fn = item.fn
    raw = inspect.unwrap(fn)
    ex.specs = decorator_specs(fn)
    ex.laws = referenced_laws(raw, item.module)
    if not ex.laws:
        # a body that does not mention the module's equation is still held against it (argument <-> symbol
        # correspondence then comes from the decorators / parameter names only)
        for n in ("law", "definition", "condition"):
            v = item.module.__dict__.get(n)
            if isinstance(v, Relational):
                ex.laws = [(n, v)]
                ex.laws_by_default = True
                break
    try:
        ex.args = make_args(raw, ex.specs)
    except Unextractable as e:
        ex.reason = str(e)
        return ex
    argsyms = {s for a in ex.args for s in a.syms}
    # enumerate paths: decisions are booleans for the successive symbolic comparisons made by the function itself
    pending = [[]]
    errors = []
    while pending and ex.n_paths < MAX_PATHS:
        dec = pending.pop(0)
        ex.n_paths += 1
        run, res, err = run_symbolic(raw, item.module, ex.args, dec)
        taken = [v for _, v in run.taken]
        for i in range(len(dec), len(taken)):
            pending.append(taken[:i] + [True])
        if err is not None:
            errors.append((run.taken, err))
            continue
        try:
            kind, val = _normalise_result(res, argsyms)
        except Unextractable as e:
            errors.append((run.taken, str(e)))
            continue
        extra = {s for s in _free(kind, val) - argsyms if not isinstance(s, SymQuantity)}
        if extra:
            errors.append((run.taken, f"result has free symbols that are not arguments: {sorted(map(str, extra))[:4]}"))
            continue
        ex.branches.append(Branch(list(run.taken), val, kind, run.subs_log, run.solve_log, run.lawfn_log))
    ex.refused = errors
    if ex.branches:
        ex.status = "ok"
        if pending:
            ex.reason = "path budget exhausted"
    else:
        ex.reason = errors[-1][1] if errors else "no path"
        # prefer the error of the all-default path when it is not a domain refusal
        for _p, e in errors:
            if not e.startswith("ValueError"):
                ex.reason = e
                break
    return ex
