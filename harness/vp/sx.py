"""SymPy expression -> Coq term over R (shallow embedding), fail-closed.

    rc = RCtx()
    t  = rc.term(expr)          # Coq text using variables rc.vars (name allocation is deterministic)
    rc.binder()                 # "(x0 x1 ... : R)"
    rc.side                     # side conditions met on the way: ("nonzero", t) ("nonneg", t) ("pos", t)

Vocabulary: Integer Rational Float(exact dyadic value) Symbol Add Mul Pow(int | +-1/2 | rational | symbolic -> Rpower)
exp log sin cos tan asin acos atan sinh cosh tanh Abs sqrt pi E Min Max atan2(needs VP.Base.Atan2).
Anything else becomes an *atom* (one universally quantified real per distinct sub-tree, keyed by srepr) when
`atoms=True`, so the proved statement is stronger; with atoms=False it raises Unsupported.

A second emitter `qterm` produces a Q-valued Gallina term for the rational fragment (+ - * / integer powers);
evaluating it inside Coq at rational points and comparing with SymPy's exact value is the serialiser self-check."""
from __future__ import annotations

from fractions import Fraction

import sympy
from sympy import S


class Unsupported(Exception):
    pass


FUNCS = {
    "exp": "exp", "log": "ln", "sin": "sin", "cos": "cos", "tan": "tan", "asin": "asin", "acos": "acos",
    "atan": "atan", "sinh": "sinh", "cosh": "cosh", "tanh": "tanh", "Abs": "Rabs",
}


def zlit(n: int) -> str:
    return str(n) if n >= 0 else f"({n})"


def qfrac(fr: Fraction) -> str:
    if fr.denominator == 1:
        return zlit(fr.numerator)
    return f"({zlit(fr.numerator)} / {fr.denominator})"


def float_fraction(f, mode="exact") -> Fraction:
    if mode == "decimal":
        return Fraction(str(f))
    r = sympy.Rational(f)   # exact value of the binary float
    return Fraction(int(r.p), int(r.q))


class RCtx:
    def __init__(self, atoms=True, float_mode="exact", prefix="x", sym_name=None, atom_hook=None):
        self.vars: list[str] = []
        self.table: dict = {}          # key -> coq name
        self.origin: dict = {}         # coq name -> sympy object (symbol or abstracted sub-tree)
        self.atoms = atoms
        self.float_mode = float_mode
        self.prefix = prefix
        self.side: list[tuple[str, str]] = []
        self.sym_name = sym_name       # optional: Symbol -> key (identify symbols e.g. by display name)
        self.atom_hook = atom_hook     # optional: expr -> coq text | None (custom handling before atom abstraction)

    # -- variables ---------------------------------------------------------------------------
    def var(self, key, origin=None) -> str:
        if key not in self.table:
            name = f"{self.prefix}{len(self.vars)}"
            self.table[key] = name
            self.vars.append(name)
            self.origin[name] = origin
        return self.table[key]

    def binder(self) -> str:
        return f"({' '.join(self.vars)} : R)" if self.vars else ""

    def need(self, kind: str, t: str) -> None:
        if (kind, t) not in self.side:
            self.side.append((kind, t))

    # -- terms -------------------------------------------------------------------------------
    def term(self, e) -> str:
        e = sympy.sympify(e)
        if self.atom_hook is not None:
            r = self.atom_hook(e, self)
            if r is not None:
                return r
        if e.is_Integer:
            return zlit(int(e))
        if e.is_Rational:
            return qfrac(Fraction(int(e.p), int(e.q)))
        if e.is_Float:
            return qfrac(float_fraction(e, self.float_mode))
        if e is S.Pi:
            return "PI"
        if e is S.Exp1:
            return "(exp 1)"
        if e is S.ImaginaryUnit or e in (S.Infinity, S.NegativeInfinity, S.NaN, S.ComplexInfinity):
            raise Unsupported(f"non-real constant {e}")
        if e.is_Symbol:
            key = self.sym_name(e) if self.sym_name else ("sym", e)
            return self.var(key, e)
        if e.is_Add:
            return "(" + " + ".join(self.term(a) for a in e.args) + ")"
        if e.is_Mul:
            return "(" + " * ".join(self.term(a) for a in e.args) + ")"
        if e.is_Pow:
            return self.pow(e.base, e.exp)
        if isinstance(e, sympy.exp):
            return f"(exp {self.term(e.args[0])})"
        if isinstance(e, sympy.log):
            if len(e.args) == 2:
                a, b = self.term(e.args[0]), self.term(e.args[1])
                self.need("pos", a)
                self.need("pos", b)
                return f"(ln {a} / ln {b})"
            a = self.term(e.args[0])
            self.need("pos", a)
            return f"(ln {a})"
        if isinstance(e, sympy.atan2):
            return f"(atan2 {self.term(e.args[0])} {self.term(e.args[1])})"
        if isinstance(e, (sympy.Min, sympy.Max)):
            op = "Rmin" if isinstance(e, sympy.Min) else "Rmax"
            ts = [self.term(a) for a in e.args]
            out = ts[0]
            for t in ts[1:]:
                out = f"({op} {out} {t})"
            return out
        fn = type(e).__name__
        if fn in FUNCS and len(e.args) == 1:
            a = self.term(e.args[0])
            if fn in ("asin", "acos"):
                self.need("unit_interval", a)
            return f"({FUNCS[fn]} {a})"
        if self.atoms:
            return self.var(("atom", sympy.srepr(e)), e)
        raise Unsupported(f"{type(e).__name__}: {e}")

    def pow(self, b, x) -> str:
        if x.is_Integer:
            n = int(x)
            bt = self.term(b)
            if n >= 0:
                return f"({bt} ^ {n})"
            self.need("nonzero", bt)
            return f"(/ {bt})" if n == -1 else f"(/ ({bt} ^ {-n}))"
        if x.is_Rational and int(x.q) == 2:
            bt = self.term(b)
            self.need("nonneg", bt)
            p = int(x.p)
            core = f"(sqrt {bt})"
            if p == 1:
                return core
            if p == -1:
                self.need("pos", bt)
                return f"(/ {core})"
            if p > 0:
                return f"({core} ^ {p})"
            self.need("pos", bt)
            return f"(/ ({core} ^ {-p}))"
        # general real power:  b ** x = exp (x * ln b),  meaningful for 0 < b
        bt = self.term(b)
        self.need("pos", bt)
        return f"(Rpower {bt} {self.term(x)})"

    def hyps(self, kinds=("nonzero", "nonneg", "pos", "unit_interval")) -> list[str]:
        out = []
        for k, t in self.side:
            if k not in kinds:
                continue
            if k == "nonzero":
                out.append(f"{t} <> 0")
            elif k == "nonneg":
                out.append(f"0 <= {t}")
            elif k == "pos":
                out.append(f"0 < {t}")
            elif k == "unit_interval":
                out.append(f"-1 <= {t} <= 1")
        return out


# ---- Q emitter for the self-check ----------------------------------------------------------------

def qterm(e, env: dict) -> str:
    """Rational fragment only; `env` maps Symbol -> Fraction.  Raises Unsupported otherwise."""
    e = sympy.sympify(e)
    def ql(fr):
        n, d = fr.numerator, fr.denominator
        return f"({n} # {d})" if n >= 0 else f"(({n}) # {d})"
    if e.is_Integer:
        return ql(Fraction(int(e)))
    if e.is_Rational:
        return ql(Fraction(int(e.p), int(e.q)))
    if e.is_Float:
        return ql(float_fraction(e))
    if e.is_Symbol:
        if e not in env:
            raise Unsupported(f"free symbol {e}")
        return ql(env[e])
    if e.is_Add:
        return "(" + " + ".join(qterm(a, env) for a in e.args) + ")"
    if e.is_Mul:
        return "(" + " * ".join(qterm(a, env) for a in e.args) + ")"
    if e.is_Pow and e.exp.is_Integer:
        n = int(e.exp)
        return f"(Qpower {qterm(e.base, env)} {zlit(n)})"
    raise Unsupported(f"not in the rational fragment: {type(e).__name__}")


R_PREAMBLE = """From Coq Require Import Reals Lra Lia Psatz Field List ZArith.
From VP Require Import Base.RTac.
Local Open Scope R_scope.
"""
