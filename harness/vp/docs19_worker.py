"""Worker process of the C19 check: runs the REAL documentation generator of the repository under test.

    python docs19_worker.py <mode> <spec.json> <out.json>

The working directory is a scratch directory that contains a symlink `symplyphysics` -> <repo>/symplyphysics, so the
generator's relative paths work and nothing can be written inside the repository.  Modes:

  full       docs/build.py main() with -R (rST only) into <scratch>/gen (the pages as they are just before the role
             step are copied to <scratch>/raw1 by wrapping the script's process_generated_files), then
             generate_laws_docs again into <scratch>/raw2 (same process, second time); records the evaluation flag and
             small computations before / after.
  order      pages generated one by one, in the order given by the spec, through build._process_law /
             build._process_law_package; the flag is read after every page.
  reference  independent reference values: every documented module is executed statement by statement (evaluation
             switched off exactly around the statements the SPECIFICATION marks), members rendered with the real
             printers; plus the live objects of the normally imported module for the symbol tables.
  rebuild    docs/build.py main() twice into a PRE-FILLED output directory (stale longer / shorter / empty / foreign pages)
  roles      symbols_role / quantity_notation_role.process_string on given strings (used to probe hash-seed dependence)
"""
from __future__ import annotations

import ast
import importlib
import importlib.util
import json
import os
import sys
import time
import traceback
from pathlib import Path


def _probes():
    """small computations whose result depends on SymPy's global evaluation mode"""
    import sympy  # pylint: disable=import-outside-toplevel
    from sympy.core.parameters import global_parameters  # pylint: disable=import-outside-toplevel
    out = {"flag": bool(global_parameters.evaluate)}
    x, y = sympy.Symbol("x"), sympy.Symbol("y")
    out["x_plus_x"] = str(x + x)
    out["two_times_three"] = str(sympy.Integer(2) * sympy.Integer(3))
    # every switch of SymPy's global parameters, and computations that depend on each of them
    for k, v in sorted(vars(global_parameters).items()):
        out["global_parameters." + k] = repr(v)
    out["two_times_sum"] = str(2 * (x + y))
    out["half_times_sum"] = str(sympy.Rational(1, 2) * (x + y))
    out["exp_pow"] = sympy.srepr(sympy.exp(x))
    try:
        from symplyphysics import Quantity, units  # pylint: disable=import-outside-toplevel
        from symplyphysics.definitions import density_from_mass_volume as law  # pylint: disable=import-outside-toplevel
        q = law.calculate_density(Quantity(3 * units.kilogram), Quantity(2 * units.meter**3))
        out["calculate_density"] = str(q.scale_factor)
        from symplyphysics.core import processors  # pylint: disable=import-outside-toplevel
        out["old_evaluation"] = repr(getattr(processors, "_old_evaluation", None))
    except Exception as e:  # pylint: disable=broad-except
        out["calculate_density"] = f"EXC {type(e).__name__}: {e}"
    # other process-wide state the generator has no business changing
    import hashlib  # pylint: disable=import-outside-toplevel
    import warnings  # pylint: disable=import-outside-toplevel
    from sympy.printing.str import StrPrinter  # pylint: disable=import-outside-toplevel
    from sympy.printing.latex import LatexPrinter  # pylint: disable=import-outside-toplevel
    out["cwd"] = os.getcwd()
    out["environ"] = hashlib.sha1(repr(sorted(os.environ.items())).encode()).hexdigest()
    out["sys_path"] = hashlib.sha1(repr(sys.path).encode()).hexdigest()
    out["warnings_filters"] = len(warnings.filters)
    out["StrPrinter_defaults"] = repr(sorted(StrPrinter._default_settings.items(), key=str))  # pylint: disable=protected-access
    out["LatexPrinter_defaults"] = repr(sorted(LatexPrinter._default_settings.items(), key=str))  # pylint: disable=protected-access
    out["Basic_str"] = f"{sympy.Basic.__str__.__module__}.{sympy.Basic.__str__.__qualname__}"
    out["Basic_repr"] = f"{sympy.Basic.__repr__.__module__}.{sympy.Basic.__repr__.__qualname__}"
    out["recursion_limit"] = sys.getrecursionlimit()
    return out


def _load_build_script(repo: Path):
    spec = importlib.util.spec_from_file_location("vp_c19_docs_build", repo / "docs" / "build.py")
    mod = importlib.util.module_from_spec(spec)
    spec.loader.exec_module(mod)
    return mod


def mode_full(spec, out):
    repo = Path(spec["repo"])
    try:
        script = _load_build_script(repo)          # imports sphinx etc. -- before the first snapshot
    except BaseException as e:  # pylint: disable=broad-except
        script = None
        out["script_error"] = f"{type(e).__name__}: {e}"
    _probes()                                      # warm-up: the probes' own imports happen here
    out["before"] = _probes()
    t = time.time()
    try:
        if script is None:
            raise RuntimeError("docs/build.py could not be loaded: " + out["script_error"])
        import shutil  # pylint: disable=import-outside-toplevel
        real_roles = script.process_generated_files

        def snapshot_then_roles(generated_dir):
            # keep a copy of the pages of THIS generation as they are before role processing, then run the real step
            shutil.copytree(generated_dir, "raw1")
            return real_roles(generated_dir)

        script.process_generated_files = snapshot_then_roles
        script.main(["-R", "-q", "-l", "symplyphysics", "-g", "gen", "-c", str(repo / "docs")])
        out["main_ok"] = True
    except BaseException as e:  # pylint: disable=broad-except
        out["main_ok"] = False
        out["main_error"] = f"{type(e).__name__}: {e}"
        out["main_traceback"] = traceback.format_exc()[-3000:]
        c = e.__cause__
        if c is not None:
            out["main_cause"] = f"{type(c).__name__}: {c}"
    out["main_s"] = round(time.time() - t, 2)
    out["after_main"] = _probes()
    t = time.time()
    try:
        from symplyphysics.docs.build import generate_laws_docs  # pylint: disable=import-outside-toplevel
        generate_laws_docs("symplyphysics", "raw2", ["core"], True)
        out["raw_ok"] = True
    except BaseException as e:  # pylint: disable=broad-except
        out["raw_ok"] = False
        out["raw_error"] = f"{type(e).__name__}: {e}"
        out["raw_traceback"] = traceback.format_exc()[-3000:]
    out["raw_s"] = round(time.time() - t, 2)
    out["after_raw"] = _probes()
    # law modules imported for the FIRST time after generation: must be built exactly as in a clean process
    fresh = {}
    try:
        from symplyphysics.docs.printer_code import code_str  # pylint: disable=import-outside-toplevel
        for dotted in spec.get("fresh_import", []):
            if dotted in sys.modules or len(fresh) >= spec.get("fresh_cap", 40):
                continue
            try:
                mod = importlib.import_module(dotted)
                fresh[dotted] = {a: code_str(getattr(mod, a)) for a in ("law", "definition", "condition") if hasattr(mod, a)}
            except Exception as e:  # pylint: disable=broad-except
                fresh[dotted] = {"__error__": f"{type(e).__name__}: {e}"[:200]}
    except Exception as e:  # pylint: disable=broad-except
        out["fresh_error"] = f"{type(e).__name__}: {e}"
    out["fresh_imports"] = fresh


def mode_order(spec, out):
    from sympy.core.parameters import global_parameters  # pylint: disable=import-outside-toplevel
    from symplyphysics.docs import build  # pylint: disable=import-outside-toplevel
    _probes()
    out["before"] = _probes()
    Path("ord").mkdir(exist_ok=True)
    leaks = []
    errors = []
    done = 0
    for item in spec["items"]:
        try:
            if item["kind"] == "law":
                build._process_law(item["dir"], item["file"], "ord", True)  # pylint: disable=protected-access
            else:
                build._process_law_package(item["dir"], item["laws"], item["packages"], "ord", True)  # pylint: disable=protected-access
        except BaseException as e:  # pylint: disable=broad-except
            errors.append({"item": item["id"], "error": f"{type(e).__name__}: {e}",
                "cause": repr(e.__cause__)[:300] if e.__cause__ is not None else None})
        done += 1
        if global_parameters.evaluate is not True:
            leaks.append({"item": item["id"], "position": done - 1, "flag": repr(global_parameters.evaluate)})
            global_parameters.evaluate = True        # restore so that every later page is judged on its own
    out["done"] = done
    out["leaks"] = leaks
    out["errors"] = errors
    out["after"] = _probes()


def _has_public(targets):
    return any(n is not None and not n.startswith("_") for n in targets)


def independent_row(obj):
    """Expected code / LaTeX name of a listed member computed WITHOUT docs/printer_* and docs/miscellaneous: from the live
    object's display_name / display_latex, for an IndexedSymbol its own `.index`, for a Function its declared arguments.
    Returns None where no independent formula is known (operator objects, nested function arguments)."""
    from symplyphysics.core.symbols.symbols import DimensionSymbol, Function, IndexedSymbol  # pylint: disable=import-outside-toplevel
    if isinstance(obj, IndexedSymbol):
        idx = str(obj.index)
        return {"kind": "indexed", "base": obj.display_name, "index": idx, "code": f"{obj.display_name}[{idx}]",
            "latex": f"{obj.display_latex}_{idx}"}
    if isinstance(obj, Function):
        args = list(obj.arguments or [])
        if not args or any(isinstance(a, IndexedSymbol) or not isinstance(a, DimensionSymbol) or isinstance(a, Function) for a in args):
            return {"kind": "function-prefix", "code_prefix": obj.display_name + "(", "latex_prefix": obj.display_latex}
        return {"kind": "function", "code": f"{obj.display_name}({', '.join(a.display_name for a in args)})",
            "latex": obj.display_latex + "\\left(" + ",".join(a.display_latex for a in args) + "\\right)"}
    if isinstance(obj, DimensionSymbol):
        return {"kind": "plain", "code": obj.display_name, "latex": obj.display_latex}
    return None


def mode_reference(spec, out):
    """Reference values computed WITHOUT docs/patch.py, docs/parse.py, docs/view.py, docs/build.py."""
    from sympy.core.parameters import global_parameters  # pylint: disable=import-outside-toplevel
    sys.path.insert(0, spec["harness"])
    from vp import docs19 as D  # pylint: disable=import-outside-toplevel
    from symplyphysics.docs.printer_code import code_str  # pylint: disable=import-outside-toplevel
    from symplyphysics.docs.printer_latex import latex_str  # pylint: disable=import-outside-toplevel
    from symplyphysics.core.symbols.symbols import DimensionSymbol  # pylint: disable=import-outside-toplevel
    from symplyphysics.core.operations.symbolic import Symbolic  # pylint: disable=import-outside-toplevel
    from symplyphysics.core.dimensions import print_dimension  # pylint: disable=import-outside-toplevel
    res = {}
    phase2 = []
    _probes()                                      # same number of probe calls as the generator worker (symbol counters)
    out["before"] = _probes()
    # phase 1: same order and same amount of symbol creation as the generator (its rendering of evaluated private
    # intermediates depends on the process-global symbol counter)
    for src in spec["sources"]:
        entry = {"members": [], "error": None}
        res[src["stem"] + "|" + src["kind"]] = entry
        try:
            text = Path(src["path"]).read_text(encoding="utf-8")
            tree = ast.parse(text)
            abs_body = D.classify_body(tree.body)
            disabled = D.spec_disabled(abs_body)
            keep = D.spec_keep(abs_body)
            ns: dict = {"__name__": "vp_c19_reference." + src["dotted"]}
            docs: dict = {}
            order: list = []
            current = None
            for i, (stmt, t) in enumerate(zip(tree.body, abs_body)):
                if i >= max(keep, 1):
                    break
                code = compile(ast.Module(body=[stmt], type_ignores=[]), src["path"], "exec")
                if i in disabled:
                    global_parameters.evaluate = False
                try:
                    exec(code, ns)  # pylint: disable=exec-used
                finally:
                    global_parameters.evaluate = True
                if t[0] == "assign":
                    current = next((n for n in t[1] if n is not None), None)
                    if current:
                        order.append(current)
                elif t[0] == "sconst" and current:
                    docs[current] = stmt.value.value
            seen = set()
            pend = []
            for name in order:
                if name in seen or name not in docs or name.startswith("_"):
                    continue
                seen.add(name)
                doc = docs[name]
                m = {"name": name, "doc": doc, "has_symbol": D.SYM_STR in doc, "has_latex": D.LTX_STR in doc,
                    "has_eval": D.EVAL_STR in doc}
                val = ns[name]
                try:
                    if m["has_symbol"]:
                        m["code"] = code_str(val)
                    if m["has_latex"]:
                        m["latex"] = latex_str(val)
                except Exception as e:  # pylint: disable=broad-except
                    m["print_error"] = f"{type(e).__name__}: {e}"[:300]
                entry["members"].append(m)
                pend.append((m, val))
            entry["functions"] = [t[1] for i, t in enumerate(abs_body) if t[0] == "fn" and t[2] and i < max(keep, 1) and not t[1].startswith("_")]
            phase2.append((src, entry, pend))
        except Exception as e:  # pylint: disable=broad-except
            entry["error"] = f"{type(e).__name__}: {e}"[:500]
            entry["traceback"] = traceback.format_exc()[-1500:]
            global_parameters.evaluate = True
    # phase 2: the live objects of the normally imported modules, for the symbol tables
    for src, entry, pend in phase2:
        try:
            live = importlib.import_module(src["dotted"])
        except Exception as e:  # pylint: disable=broad-except
            live = None
            entry["live_error"] = f"{type(e).__name__}: {e}"[:300]
        for m, val in pend:
            obj = getattr(live, m["name"], None) if live is not None else None
            m["live"] = obj is not None
            if obj is not None and m["name"] in ("law", "definition", "condition"):
                try:
                    m["live_code"] = code_str(obj)
                except Exception:  # pylint: disable=broad-except
                    pass
            if obj is None:
                obj = val
            try:
                if isinstance(obj, (DimensionSymbol, Symbolic)):
                    m["row"] = {"code": code_str(obj), "latex": latex_str(obj), "dimension": print_dimension(obj.dimension)}
                    m["row"]["independent"] = independent_row(obj)
            except Exception as e:  # pylint: disable=broad-except
                m["print_error"] = f"{type(e).__name__}: {e}"[:300]
    out["reference"] = res
    out["after"] = _probes()


def mode_rebuild(spec, out):
    """The output directory is NOT empty: every page name is pre-filled with a seeded variant (much longer junk, shorter
    text, empty file, non-ASCII text, an unrelated valid page), then docs/build.py main() runs into it (pages + role step),
    the result is copied, and main() runs a SECOND time into the same directory (now holding the longer role-resolved pages)."""
    import random  # pylint: disable=import-outside-toplevel
    import shutil  # pylint: disable=import-outside-toplevel
    repo = Path(spec["repo"])
    script = _load_build_script(repo)
    _probes()
    _probes()
    rng = random.Random(spec["seed"])
    gen = Path("gen")
    gen.mkdir()
    kinds = {}
    for name in spec["pages"]:
        k = rng.choice(["longer", "longer", "shorter", "empty", "nonascii", "other-page", "absent"])
        kinds[name] = k
        if k == "absent":
            continue
        text = {"longer": "STALE LINE OF A PREVIOUS BUILD\n" * rng.randrange(400, 900), "shorter": "x\n", "empty": "",
            "nonascii": "\u00e9\u00e8 \u2192 stale \u03b1\u03b2\n" * rng.randrange(1, 500),
            "other-page": "Other page\n==========\n\n.. py:currentmodule:: nothing\n" + "filler\n" * rng.randrange(0, 300)}[k]
        (gen / name).write_text(text, encoding="utf-8")
    out["prefill"] = {k: sum(1 for v in kinds.values() if v == k) for k in set(kinds.values())}
    args = ["-R", "-q", "-l", "symplyphysics", "-g", "gen", "-c", str(repo / "docs")]
    for run in (1, 2):
        try:
            script.main(args)
            out[f"main{run}_ok"] = True
        except BaseException as e:  # pylint: disable=broad-except
            out[f"main{run}_ok"] = False
            out[f"main{run}_error"] = f"{type(e).__name__}: {e}"
            out[f"main{run}_traceback"] = traceback.format_exc()[-2000:]
            break
        if run == 1:
            shutil.copytree("gen", "gen_after1")
    out["kinds"] = kinds
    out["after"] = _probes()


def mode_roles(spec, out):
    from symplyphysics.docs import symbols_role, quantity_notation_role  # pylint: disable=import-outside-toplevel
    res = []
    for s in spec["strings"]:
        try:
            r = quantity_notation_role.process_string(symbols_role.process_string(s, Path("probe")), Path("probe"))
        except Exception as e:  # pylint: disable=broad-except
            r = f"EXC {type(e).__name__}: {e}"
        res.append(r)
    out["results"] = res
    out["hashseed"] = os.environ.get("PYTHONHASHSEED")


def main():
    mode, spec_path, out_path = sys.argv[1:4]
    spec = json.loads(Path(spec_path).read_text())
    sys.dont_write_bytecode = True
    out = {"mode": mode, "cwd": os.getcwd()}
    t_start = time.time()
    try:
        import symplyphysics  # pylint: disable=import-outside-toplevel
        out["implementation"] = str(Path(symplyphysics.__file__).resolve())
        {"full": mode_full, "order": mode_order, "reference": mode_reference, "roles": mode_roles, "rebuild": mode_rebuild}[mode](spec, out)
        out["ok"] = True
    except BaseException as e:  # pylint: disable=broad-except
        out["ok"] = False
        out["error"] = f"{type(e).__name__}: {e}"
        out["traceback"] = traceback.format_exc()[-3000:]
    out["elapsed_s"] = round(time.time() - t_start, 2)
    Path(out_path).write_text(json.dumps(out))


if __name__ == "__main__":
    main()
