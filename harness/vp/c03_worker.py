"""C03 exploration worker.  Runs in a FRESH interpreter (own PYTHONHASHSEED), imports /repo's catalogue under one
prescribed history and writes what it observed as JSON.

    python c03_worker.py <spec.json> <out.json>

spec = {"mode": "perm" | "fork",
        "modules": [...],                 # perm: import order
        "dummies": n,                     # perm: create n dummy objects of every kind first
        "counters": {"SYM": 999, ...},    # perm: raise the counters before importing (never lowers)
        "tasks": [[module, {prefix: value}], ...],      # fork: each in a forked child of the warm parent
        "calc": true,                     # also run calculate_* on fixed arguments
        "argseed": 123}

Observation of a module = {"import": "ok" | error text, "eqs": {attr: canonical text}, "srepr": {attr: text},
"calc": {fn: result}, "ids": counters consumed}.  Canonical text: leaves replaced by stable keys (attribute name in the
defining module, else dotted path of the first catalogue/library module attribute holding the object, else display name),
arguments of commutative nodes sorted -- so it does not depend on generated names or on SymPy's argument order."""
from __future__ import annotations

import hashlib
import importlib
import inspect
import json
import os
import re
import sys
import time
import traceback

GEN = re.compile(r"\b(SYM|FUN|QTY|SYS|VEC|C)\d+\b")


def mask(s: str) -> str:
    return GEN.sub(lambda m: f"<{m.group(1)}#>", s)


def stable_hash(*parts) -> int:
    return int(hashlib.sha256("|".join(map(str, parts)).encode()).hexdigest()[:12], 16)


# ---------------------------------------------------------------------------------------------------
# pre-histories
# ---------------------------------------------------------------------------------------------------

def raise_counters(counters):
    from symplyphysics.core.symbols import id_generator as g
    for p, v in (counters or {}).items():
        if g._ids.get(p, 0) < v:  # pylint: disable=protected-access
            g._ids[p] = v  # pylint: disable=protected-access


def create_dummies(n, seed):
    """hundreds of symbols / functions / quantities / vectors / coordinate systems before the catalogue"""
    import random
    import sympy
    from sympy.physics import units as u
    from symplyphysics import Symbol, Function, Quantity, QuantityVector, CoordinateSystem
    from symplyphysics.core.symbols.symbols import IndexedSymbol, clone_as_symbol, clone_as_function
    from symplyphysics.core.coordinate_systems.coordinate_systems import coordinates_transform
    from symplyphysics.core.experimental.vectors import VectorSymbol
    rng = random.Random(seed)
    keep = []
    t = sympy.Symbol("t")
    for i in range(n):
        k = rng.randrange(9)
        if k == 0:
            keep.append(Symbol(rng.choice(["x", "m", None]), u.length, positive=rng.random() < 0.5))
        elif k == 1:
            keep.append(Function(rng.choice(["f", None]), [t], u.time))
        elif k == 2:
            keep.append(Quantity(rng.randrange(1, 9) * u.meter))
        elif k == 3:
            keep.append(IndexedSymbol("a", None, u.mass))
        elif k == 4 and i % 7 == 0:
            keep.append(CoordinateSystem(rng.choice(list(CoordinateSystem.System))))
        elif k == 5:
            keep.append(VectorSymbol(rng.choice(["F", None]), u.force))
        elif k == 6 and i % 5 == 0:
            keep.append(QuantityVector([1 * u.meter, 2 * u.meter]))
        elif k == 7 and keep and isinstance(keep[0], Symbol):
            keep.append(clone_as_symbol(keep[0], subscript=str(i)))
        else:
            keep.append(Symbol("y", u.mass))
        # exercise SymPy's cache a little as well
        if i % 50 == 0 and isinstance(keep[-1], sympy.Symbol):
            sympy.simplify((keep[-1] + 1)**2 - keep[-1]**2 - 2 * keep[-1] - 1)
    cs = [c for c in keep if isinstance(c, CoordinateSystem)]
    if cs:
        keep.append(coordinates_transform(cs[0], CoordinateSystem.System.CARTESIAN))
    return keep


def core_warmup():
    """Pre-history that exercises the library's CORE HELPERS (not only object creation): every public function of
    symplyphysics.core.{geometry,fields,vectors,coordinate_systems,points} is called on fresh instances of each kind of
    coordinate system, with arguments chosen from its annotations / parameter names; methods of Vector / ScalarField /
    VectorField as well.  Process-wide state a helper keeps (memo tables keyed by kind, registries, defaults) is thereby
    populated by SOMEBODY ELSE before the catalogue module under observation is imported.  Returns (calls made, calls that returned)."""
    import pkgutil
    import sympy
    from sympy import cos, sin, pi
    from sympy.geometry import Point2D
    from symplyphysics import CoordinateSystem, Vector
    from symplyphysics.core.fields.scalar_field import ScalarField
    from symplyphysics.core.fields.vector_field import VectorField
    t, u, v = sympy.symbols("t u v")
    made = ok = 0

    def values(cs):
        sc = list(cs.coord_system.base_scalars())
        vec = Vector([sc[0], sc[0] * sc[1], sc[2]], cs)
        return {
            "coordinate_system": cs, "from_system": cs, "self": cs, "coord_system_type": cs.coord_system_type,
            "trajectory": [cos(t), sin(t), t], "surface": [u, v, u + v],
            "parameter": t, "parameter1": u, "parameter2": v, "x": t,
            "parameter_limits": (t, 0, 1), "parameter_and_limits1": (u, 0, 1), "parameter_and_limits2": (v, 0, 1),
            "x_limits": (0, 1), "y_limits": (0, 1), "z_limits": (0, 1),
            "p1": Point2D(0, 1), "p2": Point2D(1, 3), "scalar_value": 2, "angle": pi / 3, "axis": cs.coord_system.k,
            "vector_": vec, "vector": vec, "vector_left": vec, "vector_right": Vector([sc[2], 1, sc[0]], cs),
            "original_vector_": vec, "target_vector_": Vector([1, sc[1], 0], cs), "vectors": None, "args": None,
            "field": None,
        }

    def call(f, kw, star=()):
        nonlocal made, ok
        made += 1
        try:
            with _time_limit(2):
                f(*star, **kw)
            ok += 1
        except BaseException:  # pylint: disable=broad-except
            pass

    import symplyphysics.core as core_pkg
    mods = []
    for pk in ("geometry", "fields", "vectors", "coordinate_systems", "points"):
        try:
            pkg = importlib.import_module(f"symplyphysics.core.{pk}")
            for info in pkgutil.iter_modules(pkg.__path__, pkg.__name__ + "."):
                mods.append(importlib.import_module(info.name))
        except Exception:  # pylint: disable=broad-except
            continue
    _ = core_pkg
    for kind in list(CoordinateSystem.System):
        for _round in range(2):                   # two instances per kind: the second caller is the one stale state hurts
            cs = CoordinateSystem(kind)
            val = values(cs)
            sfield = ScalarField(lambda p: p.coordinate(0) * p.coordinate(1) + p.coordinate(2), cs)
            vfield = VectorField(lambda p: [p.coordinate(0), p.coordinate(0) * p.coordinate(1), p.coordinate(2)], cs)
            for m in mods:
                for name, f in list(vars(m).items()):
                    if name.startswith("_") or not inspect.isfunction(f) or f.__module__ != m.__name__:
                        continue
                    try:
                        sig = inspect.signature(f)
                    except (TypeError, ValueError):
                        continue
                    kw, star, usable = {}, (), True
                    for pn, par in sig.parameters.items():
                        ann = str(par.annotation)
                        if par.kind == par.VAR_POSITIONAL:
                            star = (val["vector_"], val["vector_right"]) if "Vector" in ann and pn == "vectors" else ()
                            continue
                        if par.kind == par.VAR_KEYWORD:
                            continue
                        if pn == "field":
                            kw[pn] = sfield if "ScalarField" in ann else vfield
                        elif pn in val and val[pn] is not None:
                            kw[pn] = val[pn]
                        elif "trajectory" in pn or "surface" in pn:
                            kw[pn] = Vector(val["trajectory" if "trajectory" in pn else "surface"], cs)
                        elif par.default is not par.empty:
                            continue
                        else:
                            usable = False
                    if "Vector" in str(sig.parameters.get("trajectory", sig.parameters.get("surface", None)).annotation
                            if ("trajectory" in sig.parameters or "surface" in sig.parameters) else ""):
                        for pn in ("trajectory", "surface"):
                            if pn in kw:
                                kw[pn] = Vector(val[pn], cs)
                    if usable:
                        call(f, kw, star)
            # methods of the wrapper classes
            other = CoordinateSystem(CoordinateSystem.System.CARTESIAN)
            vec = val["vector_"]
            for f, kw in ((vec.rebase, {"coordinate_system": other}), (vec.to_sympy_vector, {}), (vec.simplify, {}),
                          (sfield.apply_to_basis, {}), (vfield.apply_to_basis, {}), (vfield.to_sympy_vector, {}),
                          (lambda: ScalarField.from_expression(val["vector_"].components[1], cs), {}),
                          (lambda: VectorField.from_vector(vec), {}),
                          (lambda: cs.transformation_to_system(CoordinateSystem.System.CARTESIAN), {})):
                call(f, kw)
    return made, ok


# ---------------------------------------------------------------------------------------------------
# canonical text
# ---------------------------------------------------------------------------------------------------

class Keys:
    """object -> stable key"""

    def __init__(self):
        self.global_map = None

    def build_global(self):
        """registry objects only (symplyphysics.symbols.*, quantities, core ...): these modules are loaded by
        `import symplyphysics` in every history, so the key of an object does not depend on what else was imported"""
        from symplyphysics.core.symbols.symbols import DimensionSymbol
        import sympy
        gm = {}
        reg = [n for n in sys.modules if n.startswith("symplyphysics") and not n.startswith(("symplyphysics.laws",
            "symplyphysics.definitions", "symplyphysics.conditions"))]
        reg.sort(key=lambda n: (not n.startswith("symplyphysics.symbols"), not n.startswith("symplyphysics.quantities"), n))
        for name in reg:
            mod = sys.modules[name]
            if mod is None:
                continue
            for attr, val in sorted(vars(mod).items(), key=lambda kv: kv[0]):
                if isinstance(val, DimensionSymbol) or (isinstance(val, type) and isinstance(val, sympy.core.function.UndefinedFunction)):
                    try:
                        gm.setdefault(_hkey(val), f"{name.removeprefix('symplyphysics.')}.{attr}")
                    except TypeError:
                        pass
        self.global_map = gm

    def for_module(self, mod):
        from symplyphysics.core.symbols.symbols import DimensionSymbol
        import sympy
        local = {}
        for attr, val in list(vars(mod).items()):
            if isinstance(val, DimensionSymbol) or (isinstance(val, type) and isinstance(val, sympy.core.function.UndefinedFunction)):
                try:
                    local.setdefault(_hkey(val), attr)
                except TypeError:
                    pass
        return local


def _hkey(obj):
    """hashable identity of a leaf object inside ONE process"""
    import sympy
    if isinstance(obj, sympy.Basic) or isinstance(obj, type):
        return obj
    return ("py", id(obj))


COMMUTATIVE_NODES = ("Add", "Mul", "And", "Or", "Min", "Max", "Union", "Intersection", "FiniteSet", "MatAdd", "VectorAdd",
    "VectorMixedProduct_")


def canonical(expr, local, keys: Keys, stats):
    import sympy
    from sympy.core.function import AppliedUndef, UndefinedFunction
    from sympy.physics.units import Quantity as SymQuantity
    from symplyphysics.core.symbols.symbols import DimensionSymbol

    def leaf_key(obj):
        hk = _hkey(obj)
        if hk in local:
            return local[hk]
        if keys.global_map is None:
            keys.build_global()
        if hk in keys.global_map:
            return "@" + keys.global_map[hk]
        stats["fallback_keys"] = stats.get("fallback_keys", 0) + 1
        d = getattr(obj, "display_name", None) or getattr(obj, "name", None) or str(obj)
        return "?" + mask(str(d)) + ":" + mask(str(getattr(obj, "dimension", "")))

    def go(e):
        if isinstance(e, (tuple, list)):
            return "[" + ", ".join(go(x) for x in e) + "]"
        if isinstance(e, type) and isinstance(e, UndefinedFunction):
            return leaf_key(e)
        if not isinstance(e, sympy.Basic):
            if isinstance(e, DimensionSymbol):
                return leaf_key(e)
            return "py:" + mask(repr(e))
        if isinstance(e, DimensionSymbol):
            return leaf_key(e)
        if isinstance(e, AppliedUndef):
            f = e.func
            fk = leaf_key(f) if isinstance(f, DimensionSymbol) else "fn:" + mask(str(getattr(f, "name", f)))
            return fk + "(" + ", ".join(go(a) for a in e.args) + ")"
        if isinstance(e, sympy.Float):
            return "F" + repr(float(e))
        if isinstance(e, sympy.Number) or isinstance(e, sympy.NumberSymbol):
            return str(e)
        if isinstance(e, sympy.Dummy):
            return "dummy"
        if isinstance(e, SymQuantity):
            return "unit:" + mask(str(e.name))
        if isinstance(e, sympy.Symbol):
            return "sym:" + mask(e.name)
        if isinstance(e, sympy.Indexed):
            return go(e.base) + "[" + ", ".join(go(a) for a in e.indices) + "]"
        if isinstance(e, sympy.IndexedBase):
            return "base:" + mask(str(e.label))
        if not e.args:
            return type(e).__name__ + ":" + mask(str(e))
        parts = [go(a) for a in e.args]
        nm = type(e).__name__
        # a >= b is b <= a: SymPy flips relationals depending on the (name) order of their sides
        if nm in ("GreaterThan", "StrictGreaterThan") and len(parts) == 2:
            nm = {"GreaterThan": "LessThan", "StrictGreaterThan": "StrictLessThan"}[nm]
            parts.reverse()
        if nm in COMMUTATIVE_NODES or (isinstance(e, (sympy.Add, sympy.Mul)) and e.is_commutative is not False):
            parts.sort()
        return nm + "(" + ", ".join(parts) + ")"

    return go(expr)


def reconstructable(expr, local, keys, stats):
    """srepr of the expression with library atoms replaced by plain Symbol('<key>') / Function('<key>') -- lets the driver
    rebuild both variants in one process when their canonical texts differ"""
    import sympy
    from sympy.core.function import AppliedUndef
    from symplyphysics.core.symbols.symbols import DimensionSymbol
    try:
        rep = {}
        for a in expr.atoms(sympy.Symbol, sympy.physics.units.Quantity):
            if isinstance(a, DimensionSymbol):
                rep[a] = sympy.Symbol("k_" + re.sub(r"\W", "_", canonical(a, local, keys, {})), real=True)
        out = expr.xreplace(rep)
        frep = {}
        for a in out.atoms(AppliedUndef):
            if isinstance(a.func, DimensionSymbol):
                frep[a] = sympy.Function("k_" + re.sub(r"\W", "_", canonical(a.func, local, keys, {})))(*a.args)
        out = out.xreplace(frep)
        s = sympy.srepr(out)
        return s if not GEN.search(s) and len(s) < 20000 else None
    except Exception:  # pylint: disable=broad-except
        return None


# ---------------------------------------------------------------------------------------------------
# calculate_* on fixed arguments
# ---------------------------------------------------------------------------------------------------

def decorator_specs(fn):
    specs = {}
    f = fn
    while f is not None:
        try:
            nl = inspect.getclosurevars(f).nonlocals
        except (TypeError, ValueError):
            nl = {}
        if "decorator_kwargs" in nl:
            specs.update(nl["decorator_kwargs"])
        f = getattr(f, "__wrapped__", None)
    return specs


def make_arg(spec, fq, pname, argseed, idx=0):
    from sympy.physics.units import Dimension
    from symplyphysics import Quantity
    from symplyphysics.core.dimensions import dimension_to_si_unit
    h = stable_hash(fq, pname, argseed, idx)
    mag = 1 + (h % 80) / 16          # dyadic: exact in binary floating point
    d = getattr(spec, "dimension", spec)
    if isinstance(d, Dimension):
        return Quantity(mag * dimension_to_si_unit(d), dimension=d)
    return Quantity(mag * spec)


def fixed_arguments(fn, fq, argseed):
    specs = decorator_specs(fn)
    kwargs = {}
    for pname, par in inspect.signature(fn).parameters.items():
        if par.kind in (par.VAR_POSITIONAL, par.VAR_KEYWORD):
            continue
        if pname in specs:
            s = specs[pname]
            if isinstance(s, (tuple, list)):
                kwargs[pname] = [make_arg(x, fq, pname, argseed, i) for i, x in enumerate(s)]
            else:
                kwargs[pname] = make_arg(s, fq, pname, argseed)
        elif par.default is not par.empty:
            continue
        else:
            kwargs[pname] = 1 + stable_hash(fq, pname, argseed) % 4
    return kwargs


def number(v):
    import sympy
    try:
        c = complex(sympy.N(v, 17))
        if c != c or abs(c) == float("inf"):
            return ["nonfinite", str(c)]
        return [c.real, c.imag]
    except Exception:  # pylint: disable=broad-except
        return None


def result_fingerprint(r, depth=0):
    import sympy
    from sympy.physics.units import Quantity as SymQuantity
    from sympy.physics.units.systems.si import dimsys_SI
    if isinstance(r, SymQuantity):
        try:
            deps = dimsys_SI.get_dimensional_dependencies(r.dimension)
            dim = sorted((str(getattr(k, "name", k)), str(v)) for k, v in deps.items())
        except Exception:  # pylint: disable=broad-except
            dim = mask(str(r.dimension))
        return {"q": number(r.scale_factor), "dim": dim}
    if isinstance(r, (list, tuple)) and depth < 3:
        return [result_fingerprint(x, depth + 1) for x in r]
    comps = getattr(r, "components", None)
    if comps is not None and depth < 3 and not isinstance(r, sympy.Basic):
        try:
            return {"vector": [result_fingerprint(x, depth + 1) for x in comps]}
        except Exception:  # pylint: disable=broad-except
            pass
    if isinstance(r, (int, float, complex)) or (isinstance(r, sympy.Basic) and r.is_number):
        return {"n": number(r)}
    return {"text": mask(str(r))[:300]}


class _Captured(Exception):
    pass


class _Anything:
    """stand-in for pytest inside a test module that is only executed to harvest argument values"""

    def __init__(self, name="pytest"):
        self._name = name

    def __getattr__(self, item):
        if item.startswith("__"):
            raise AttributeError(item)
        return _Anything(f"{self._name}.{item}")

    def __call__(self, *a, **k):
        if self._name.endswith(".fixture") or ".mark." in self._name or self._name.endswith(".mark"):
            if len(a) == 1 and callable(a[0]) and not k:
                return a[0]                      # @fixture without parentheses
            return lambda f: f                   # @fixture(name=...), @mark.parametrize(...)
        return self

    def __enter__(self):
        return self

    def __exit__(self, et, ev, tb):
        return et is not None and not issubclass(et, _Captured)      # `with raises(...)`: swallow, but let the capture through

    def __iter__(self):
        return iter(())


def test_file_of(mod):
    import symplyphysics
    root = os.path.dirname(os.path.dirname(os.path.abspath(symplyphysics.__file__)))
    parts = mod.__name__.split(".")[1:]
    if parts[0] == "laws":
        parts = parts[1:]
    return os.path.join(root, "test", *parts[:-1], parts[-1] + "_test.py")


def harvest_test_arguments(mod, names):
    """The arguments /repo's own test-suite passes to each calculate_* function (first call found, test functions in source order):
    the test module's source is executed with pytest replaced by a stand-in and the calculate_* functions replaced by recorders that
    stop the test at the call.  Gives realistic sequence / matrix / vector / callable arguments that cannot be synthesised from the
    validate_input specification alone."""
    import ast
    import types
    path = test_file_of(mod)
    if not os.path.exists(path):
        return {}
    src = open(path, encoding="utf-8").read()
    tree = ast.parse(src)
    fixtures = {}          # fixture name -> function name
    tests = []
    for node in tree.body:
        if not isinstance(node, ast.FunctionDef):
            continue
        fx = None
        for dec in node.decorator_list:
            d = dec.func if isinstance(dec, ast.Call) else dec
            dn = d.attr if isinstance(d, ast.Attribute) else getattr(d, "id", "")
            if dn == "fixture":
                fx = node.name
                if isinstance(dec, ast.Call):
                    for kw in dec.keywords:
                        if kw.arg == "name" and isinstance(kw.value, ast.Constant):
                            fx = kw.value.value
        if fx is not None:
            fixtures[fx] = node.name
        elif node.name.startswith("test_"):
            tests.append(node.name)
    captured = {}
    originals = {n: getattr(mod, n) for n in names}

    def recorder(n):
        def rec(*a, **k):
            if n not in captured:
                captured[n] = (a, k)
            raise _Captured()
        return rec
    saved_pytest = sys.modules.get("pytest")
    stub = types.ModuleType("pytest")
    stub.__getattr__ = lambda item: getattr(_Anything(), item)          # type: ignore[attr-defined]
    try:
        for n in names:
            setattr(mod, n, recorder(n))
        sys.modules["pytest"] = stub
        ns = {"__name__": "c03_harvest", "__file__": path}
        with _time_limit(20):
            exec(compile(tree, path, "exec"), ns)  # pylint: disable=exec-used

            def resolve(fname, depth=0):
                f = ns[fname]
                kw = {}
                for pn in inspect.signature(f).parameters:
                    if pn in fixtures and depth < 4:
                        kw[pn] = resolve(fixtures[pn], depth + 1)
                return f(**kw)
            for tn in tests:
                if len(captured) == len(names):
                    break
                try:
                    resolve(tn)
                except _Captured:
                    pass
                except BaseException:  # pylint: disable=broad-except
                    pass
    except BaseException:  # pylint: disable=broad-except
        pass
    finally:
        for n, f in originals.items():
            setattr(mod, n, f)
        if saved_pytest is not None:
            sys.modules["pytest"] = saved_pytest
        else:
            sys.modules.pop("pytest", None)
    return captured


def rescale(v, f):
    """the same argument with every quantity in it multiplied by f (dimensions, lengths, container types kept)"""
    from sympy.physics.units import Quantity as SymQuantity
    from symplyphysics import Quantity
    if isinstance(v, SymQuantity):
        try:
            return Quantity(f * v)
        except Exception:  # pylint: disable=broad-except
            return v
    if isinstance(v, tuple) and hasattr(v, "_fields"):
        return type(v)(*[rescale(x, f) for x in v])
    if isinstance(v, (list, tuple)):
        return type(v)(rescale(x, f) for x in v)
    return v


def call_once(fn, args, kwargs, budget_s):
    t0 = time.time()
    try:
        with _time_limit(budget_s):
            res = fn(*args, **kwargs)
        out = {"r": result_fingerprint(res)}
    except _Timeout:
        out = {"timeout": budget_s}
    except Exception as e:  # pylint: disable=broad-except
        out = {"exc": f"{type(e).__name__}: {mask(str(e))[:200]}"}
    out["s"] = round(time.time() - t0, 2)
    return out


def run_calcs(mod, argseed, budget_s, use=None):
    """calculate_* on argument set A (harvested from the test-suite, else synthesised).  With `use` (a dict that is filled in): the USE
    HISTORY stage -- argument set B (A with every quantity rescaled by a seeded factor per argument) is evaluated (i) in a forked child
    that has never called anything, and (ii) here after all A calls; the driver compares the two."""
    out = {}
    names = [name for name, fn in list(vars(mod).items())
        if name.startswith("calculate_") and callable(fn) and getattr(fn, "__module__", None) == mod.__name__]
    try:
        harvested = harvest_test_arguments(mod, names) if names else {}
    except BaseException:  # pylint: disable=broad-except
        harvested = {}
    plan = []
    for name in names:
        fq = f"{mod.__name__}.{name}"
        if name in harvested:
            args, kwargs = harvested[name]
            src = "test-suite"
        else:
            args, src = (), "synthesised"
            try:
                kwargs = fixed_arguments(getattr(mod, name), fq, argseed)
            except Exception as e:  # pylint: disable=broad-except
                out[name] = {"argerr": f"{type(e).__name__}: {mask(str(e))[:200]}"}
                continue
        plan.append((name, args, kwargs, src))
    plan_b, fresh = [], {}
    if use is not None and plan:
        for name, args, kwargs, _src in plan:
            fq = f"{mod.__name__}.{name}"
            fac = lambda i: 1 + (stable_hash(fq, i, argseed) % 6 + 1) / 4          # pylint: disable=cell-var-from-loop
            plan_b.append((name, tuple(rescale(a, fac(i)) for i, a in enumerate(args)),
                {k: rescale(v, fac(k)) for k, v in kwargs.items()}))
        r, w = os.pipe()
        pid = os.fork()
        if pid == 0:
            try:
                os.close(r)
                res = {name: call_once(getattr(mod, name), a, k, budget_s) for name, a, k in plan_b}
                with os.fdopen(w, "w") as f:
                    f.write(json.dumps(res, default=str))
            finally:
                os._exit(0)  # pylint: disable=protected-access
        os.close(w)
        with os.fdopen(r) as f:
            data = f.read()
        os.waitpid(pid, 0)
        try:
            fresh = json.loads(data)
        except ValueError:
            fresh = {}
    for name, args, kwargs, src in plan:
        out[name] = call_once(getattr(mod, name), args, kwargs, budget_s)
        out[name]["args"] = src
    if use is not None:
        calls = {}
        for (name, a, k), (_n, a0, k0, _s) in zip(plan_b, plan):
            after = call_once(getattr(mod, name), a, k, budget_s)
            calls[name] = {"B_after_A": after, "B_fresh": fresh.get(name), "A": out.get(name),
                "sequence": [f"{name}{mask(str(tuple(a0)))[:300]} {mask(str(k0))[:200] if k0 else ''}".strip(),
                             f"{name}{mask(str(tuple(a)))[:300]} {mask(str(k))[:200] if k else ''}".strip()]}
        use["calls"] = calls
    return out


class _Timeout(Exception):
    pass


class _time_limit:
    def __init__(self, s):
        self.s = s

    def __enter__(self):
        import signal

        def handler(_sig, _frm):
            raise _Timeout()
        self.old = signal.signal(signal.SIGALRM, handler)
        signal.setitimer(signal.ITIMER_REAL, self.s)

    def __exit__(self, *a):
        import signal
        signal.setitimer(signal.ITIMER_REAL, 0)
        signal.signal(signal.SIGALRM, self.old)
        return False


# ---------------------------------------------------------------------------------------------------

def observe_module(name, keys, spec):
    import sympy
    from symplyphysics.core.symbols import id_generator as g
    obs = {}
    before = dict(g._ids)  # pylint: disable=protected-access
    t0 = time.time()
    try:
        mod = importlib.import_module(name)
        obs["import"] = "ok"
    except BaseException as e:  # pylint: disable=broad-except
        tb = traceback.extract_tb(e.__traceback__)
        where = ""
        for fr in reversed(tb):
            if "symplyphysics" in fr.filename:
                where = f"{fr.filename.split('symplyphysics/', 1)[-1]}:{fr.lineno}"
                break
        obs["import"] = f"{type(e).__name__}: {mask(str(e))[:300]} @ {where}"
        obs["ids"] = _delta(before, dict(g._ids))  # pylint: disable=protected-access
        return obs
    obs["import_s"] = round(time.time() - t0, 2)
    obs["ids"] = _delta(before, dict(g._ids))  # pylint: disable=protected-access
    local = keys.for_module(mod)
    stats = {}
    eqs, sre = published(mod, local, keys, stats, spec.get("srepr", True))
    obs["eqs"] = eqs
    obs["srepr"] = sre
    obs["uses"] = earlier_names_used(mod, before)
    obs["fallback_keys"] = stats.get("fallback_keys", 0)
    if spec.get("calc"):
        use = {} if spec.get("use") else None
        obs["calc"] = run_calcs(mod, spec.get("argseed", 0), spec.get("calc_budget_s", 20), use)
        if use is not None:
            # use history: has calling the module's functions changed what the module publishes?
            after, _ = published(mod, local, keys, {}, False)
            use["published_changed"] = {a: [eqs.get(a), after.get(a)] for a in sorted(set(eqs) | set(after)) if eqs.get(a) != after.get(a)}
            obs["use"] = use
    return obs


def published(mod, local, keys, stats, want_srepr):
    """canonical text of every public attribute that is a non-atomic SymPy object, or a list / tuple of such (a law given as a system)"""
    import sympy
    eqs, sre = {}, {}
    for attr, val in list(vars(mod).items()):
        if attr.startswith("_"):
            continue
        is_seq = isinstance(val, (list, tuple)) and len(val) > 0 and all(isinstance(x, sympy.Basic) and x.args for x in val)
        if not is_seq and (not isinstance(val, sympy.Basic) or not val.args):
            continue
        if isinstance(val, (sympy.Symbol, sympy.physics.units.Quantity, sympy.IndexedBase)):
            continue
        try:
            eqs[attr] = canonical(val, local, keys, stats)
        except Exception as e:  # pylint: disable=broad-except
            eqs[attr] = f"!canonical failed: {type(e).__name__}: {mask(str(e))[:200]}"
        if want_srepr and not is_seq:
            r = reconstructable(val, local, keys, stats)
            if r is not None:
                sre[attr] = r
    return eqs, sre


GEN_FULL = re.compile(r"^(SYM|FUN|QTY|SYS|VEC|C)(\d+)$")


def earlier_names_used(mod, before):
    """numbers of the generated names minted BEFORE this module's import (registry symbols, constants, other modules' symbols)
    that occur in the module's namespace: the names the module's own new names can be compared with"""
    import sympy
    from sympy.core.function import AppliedUndef
    found = {}

    def note(nm):
        m = GEN_FULL.match(str(nm))
        if m and int(m.group(2)) <= before.get(m.group(1), 0):
            found.setdefault(m.group(1), set()).add(int(m.group(2)))
    for val in list(vars(mod).values()):
        try:
            if isinstance(val, sympy.Basic):
                for a in val.atoms(sympy.Symbol, sympy.physics.units.Quantity):
                    note(getattr(a, "name", ""))
                for a in val.atoms(AppliedUndef):
                    note(getattr(a.func, "name", ""))
                for a in val.atoms(sympy.Indexed):
                    note(getattr(a.base, "name", ""))
            elif isinstance(val, type) and hasattr(val, "name"):
                note(val.name)
        except Exception:  # pylint: disable=broad-except
            continue
    return {p: sorted(v) for p, v in found.items()}


def _delta(a, b):
    return {k: b[k] - a.get(k, 0) for k in b if b[k] != a.get(k, 0)}


def main():
    spec = json.loads(open(sys.argv[1]).read())
    t0 = time.time()
    import symplyphysics  # noqa: F401  pylint: disable=unused-import
    from symplyphysics.core.symbols import id_generator as g
    out = {"hashseed": os.environ.get("PYTHONHASHSEED"), "impl": symplyphysics.__file__,
        "ids_after_base_import": dict(g._ids), "modules": {}}  # pylint: disable=protected-access
    keys = Keys()
    if spec["mode"] == "perm":
        if spec.get("dummies"):
            create_dummies(spec["dummies"], spec.get("argseed", 0))
        if spec.get("warmup"):
            out["core_warmup_calls"] = core_warmup()
        raise_counters(spec.get("counters"))
        out["ids_before_catalogue"] = dict(g._ids)  # pylint: disable=protected-access
        for name in spec["modules"]:
            out["modules"][name] = observe_module(name, keys, spec)
    else:
        if spec.get("warmup"):
            out["core_warmup_calls"] = core_warmup()          # in the warm parent: every forked child inherits the exercised helpers
        for task in spec["tasks"]:
            name, counters = task
            r, w = os.pipe()
            pid = os.fork()
            if pid == 0:
                try:
                    os.close(r)
                    raise_counters(counters)
                    o = observe_module(name, Keys(), spec)
                    o["counters"] = counters
                    with os.fdopen(w, "w") as f:
                        f.write(json.dumps(o, default=str))
                finally:
                    os._exit(0)  # pylint: disable=protected-access
            os.close(w)
            with os.fdopen(r) as f:
                data = f.read()
            os.waitpid(pid, 0)
            try:
                o = json.loads(data)
            except ValueError:
                o = {"import": "!child died without a report", "counters": counters}
            out["modules"].setdefault(name, []).append(o)
    out["wall_s"] = round(time.time() - t0, 2)
    out["ids_final"] = dict(g._ids)  # pylint: disable=protected-access
    with open(sys.argv[2], "w") as f:
        f.write(json.dumps(out, default=str))


if __name__ == "__main__":
    main()
