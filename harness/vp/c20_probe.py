"""Reads the constants catalogue in a child interpreter (props/c20.py starts it as `python` and `python -O`) and prints it
as JSON: per public Quantity of symplyphysics.quantities the scale factor and dimension through the object's attributes and
through the SI unit-system registry.  The parent compares every mode with its own first reading and the reference table."""
import json
import sys
from pathlib import Path

sys.path.insert(0, str(Path(__file__).resolve().parents[1]))


def main() -> None:
    import sympy
    from sympy.physics.units.systems.si import SI
    from symplyphysics import quantities as mod
    from symplyphysics.core.symbols.quantities import Quantity
    from vp import qx

    def grab(fn):
        try:
            return fn()
        except Exception as e:  # pylint: disable=broad-except
            return f"ERROR {type(e).__name__}: {e}"[:160]

    def dv(d):
        return [str(x) for x in qx.dim_vec(d)]

    table = {}
    for name, q in vars(mod).items():
        if name.startswith("_") or not isinstance(q, Quantity):
            continue
        table[name] = {
            "scale_factor": grab(lambda: sympy.srepr(q.scale_factor)),
            "dimension": grab(lambda: dv(q.dimension)),
            "registry_scale_factor": grab(lambda: sympy.srepr(SI.get_quantity_scale_factor(q))),
            "registry_dimension": grab(lambda: dv(SI.get_quantity_dimension(q))),
            "display_name": grab(lambda: str(q.display_name)),
        }
    json.dump({"debug": __debug__, "optimize": sys.flags.optimize, "all": list(getattr(mod, "__all__", [])), "table": table},
        sys.stdout)


if __name__ == "__main__":
    main()
