"""Fixed constructions whose value and dimension the property fixes; run by props/c05.py in child interpreters started as
python and python -O: what Quantity(...) registers in the SI unit-system tables must not depend on the interpreter mode.
Prints JSON: [name, scale factor (object), scale factor (SI table), dimension exponents (object), (SI table)] or the error."""
import json
import sys


def main() -> None:
    from sympy import Rational, Max, Abs, sin
    from sympy.physics import units
    from sympy.physics.units.systems.si import SI, dimsys_SI
    from symplyphysics import Quantity

    def deps(d):
        return sorted((str(k.name), str(v)) for k, v in dimsys_SI.get_dimensional_dependencies(d).items())

    cases = [
        ("3 km", lambda: Quantity(3 * units.kilo * units.meter)),
        ("5 J / 2 s", lambda: Quantity(5 * units.joule / (2 * units.second))),
        ("(1 m + 20 cm) * 2 kg", lambda: Quantity((Quantity(1 * units.meter) + Quantity(20 * units.centimeter)) * 2 * units.kilogram)),
        ("sqrt(4 m**2)", lambda: Quantity(Quantity(4 * units.meter**2)**Rational(1, 2))),
        ("Max(3 s, 5 s)", lambda: Quantity(Max(Quantity(3 * units.second), Quantity(5 * units.second), evaluate=False))),
        ("Abs(-5 V)", lambda: Quantity(Abs(Quantity(-5 * units.volt)))),
        ("0 m + 2 s", lambda: Quantity(Quantity(0 * units.meter) + Quantity(2 * units.second))),
        ("1 m + 1 s (refused)", lambda: Quantity(Quantity(1 * units.meter) + Quantity(1 * units.second))),
        ("sin(3 m) (refused)", lambda: Quantity(sin(Quantity(3 * units.meter)))),
        ("7 with dimension=length", lambda: Quantity(7, dimension=units.length)),
    ]
    out = []
    for name, fn in cases:
        try:
            q = fn()
            out.append([name, str(q.scale_factor), str(SI.get_quantity_scale_factor(q)), deps(q.dimension), deps(SI.get_quantity_dimension(q))])
        except Exception as e:  # pylint: disable=broad-except
            out.append([name, type(e).__name__])
    json.dump({"debug": __debug__, "optimize": sys.flags.optimize, "results": out}, sys.stdout)


# gram-based scale factors (kilogram = 1000)
EXPECTED = {
    "3 km": ["3000", [["length", "1"]]],
    "5 J / 2 s": ["2500", [["length", "2"], ["mass", "1"], ["time", "-3"]]],
    "(1 m + 20 cm) * 2 kg": ["2400", [["length", "1"], ["mass", "1"]]],
    "sqrt(4 m**2)": ["2", [["length", "1"]]],
    "Max(3 s, 5 s)": ["5", [["time", "1"]]],
    "Abs(-5 V)": ["5000", [["current", "-1"], ["length", "2"], ["mass", "1"], ["time", "-3"]]],
    "0 m + 2 s": ["2", [["time", "1"]]],
    "1 m + 1 s (refused)": "ValueError",
    "sin(3 m) (refused)": "ValueError",
    "7 with dimension=length": ["7", [["length", "1"]]],
}

if __name__ == "__main__":
    main()
