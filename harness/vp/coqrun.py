"""Running Coq: static theorem re-check, sharded evaluation of correspondence cases,
sharded proving of generated lemmas.  Every coqc runs under a shell-level timeout."""
from __future__ import annotations

import fcntl
import os
import re
import subprocess
import time
from concurrent.futures import ThreadPoolExecutor
from dataclasses import dataclass
from pathlib import Path

from .common import COQ, Ctx

COQFLAGS = ["-Q", str(COQ / "theories"), "VP"]
NPROC = int(os.environ.get("VERIF_JOBS", "16"))
FORBIDDEN = re.compile(
    r"\b(Admitted|admit|Axiom|Axioms|Parameter|Parameters|Conjecture|Hypothesis|Variable|"
    r"bypass_check|Unset\s+Guard|Unset\s+Positivity|Unset\s+Universe|type-in-type|Admit\s+Obligations)\b")


def coqc(path: Path, timeout: int = 300, out: Path | None = None, cwd: Path | None = None):
    cmd = ["timeout", str(timeout), "coqc", *COQFLAGS]
    if out is not None:
        cmd += ["-o", str(out)]
    cmd.append(str(path))
    t = time.time()
    p = subprocess.run(cmd, capture_output=True, text=True, cwd=str(cwd or path.parent), check=False)
    return p.returncode, p.stdout, p.stderr, time.time() - t


def ensure_static_build(ctx: Ctx | None = None, target: str | None = None) -> tuple[bool, str]:
    """`make` in coq/ (no-op when current) of the property file and what it depends on.
    Serialised with a file lock."""
    lock = COQ / ".build.lock"
    with open(lock, "w") as lf:
        fcntl.flock(lf, fcntl.LOCK_EX)
        cmd = ["bash", str(COQ / "build.sh")] + ([target] if target else [])
        p = subprocess.run(cmd, capture_output=True, text=True, check=False)
        fcntl.flock(lf, fcntl.LOCK_UN)
    return p.returncode == 0, (p.stdout[-3000:] + p.stderr[-3000:])


_PA = re.compile(r"Print\s+Assumptions\s+([A-Za-z0-9_'.]+)\s*\.")


def parse_print_assumptions(src: str, out: str) -> dict[str, list[str]]:
    """Coq prints, per `Print Assumptions t.`, either `Closed under the global context` or `Axioms:` followed by
    one entry per axiom: `name : type` or, when wrapped, `name` alone with the type on indented lines."""
    names = _PA.findall(src)
    blocks: list[list[str]] = []
    cur: list[str] | None = None
    for line in out.splitlines():
        if line.startswith("Closed under the global context"):
            blocks.append([])
            cur = None
        elif line.startswith("Axioms:"):
            cur = []
            blocks.append(cur)
        elif cur is not None:
            if not line.strip() or line[0] in " \t":
                continue   # continuation of a type
            m = re.match(r"^([A-Za-z_][A-Za-z0-9_'.]*)(\s*:.*)?$", line)
            if m:
                cur.append(m.group(1))
            else:
                cur = None
    res = {}
    for i, n in enumerate(names):
        res[n] = blocks[i] if i < len(blocks) else ["<unparsed>"]
    return res


def check_static(ctx: Ctx, names=None, file: str | None = None) -> dict[str, list[str]]:
    """Re-compile Properties/<prop>.v now (it contains only `exact` proofs and Print Assumptions).
    A failure is recorded as a broken static proof."""
    src_path = COQ / "theories" / "Properties" / f"{file or ctx.prop}.v"
    ok, log = ensure_static_build(ctx, f"theories/Properties/{src_path.stem}.vo")
    if not ok:
        ctx.violation(f"{ctx.prop}:static-build", "static Coq development does not build",
            {"kind": "broken-proof", "theorem_or_tie": "make in /verif/coq", "log": log[-2000:]}, found_input=False)
        return {}
    src = src_path.read_text()
    if FORBIDDEN.search(re.sub(r"\(\*.*?\*\)", "", src, flags=re.S)):
        ctx.violation(f"{ctx.prop}:static-forbidden", "forbidden vernacular in property file",
            {"kind": "broken-proof", "theorem_or_tie": str(src_path)}, found_input=False)
    local = ctx.build / "static" / src_path.name
    local.parent.mkdir(exist_ok=True)
    local.write_text(src)
    rc, out, err, dt = coqc(local, timeout=600)
    if rc != 0:
        ctx.violation(f"{ctx.prop}:static-proof", "static property theorems no longer check",
            {"kind": "broken-proof", "theorem_or_tie": str(src_path), "log": (out + err)[-2000:]},
            found_input=False)
        return {}
    res = parse_print_assumptions(src, out)
    thms = re.findall(r"^\s*(?:Theorem|Lemma|Corollary)\s+([A-Za-z0-9_']+)", src, flags=re.M)
    if names:
        missing = [n for n in names if n not in thms]
        if missing:
            ctx.violation(f"{ctx.prop}:static-missing", f"expected theorems missing: {missing}",
                {"kind": "broken-proof", "theorem_or_tie": missing}, found_input=False)
    ctx.obligations(len(thms), len(thms))
    ctx.coverage["static_theorems"] = thms
    axioms = sorted({a for v in res.values() for a in v})
    ctx.coverage["axioms"] = sorted(set(ctx.coverage["axioms"]) | set(axioms))
    ctx.coverage["static_check_s"] = round(dt, 2)
    ctx.coverage["assumptions_per_theorem"] = {k: (v or ["Closed under the global context"]) for k, v in res.items()}
    return res


# ----------------------------------------------------------------------------------------------
# correspondence cases
# ----------------------------------------------------------------------------------------------

def _run_parallel(jobs):
    with ThreadPoolExecutor(max_workers=NPROC) as ex:
        return list(ex.map(lambda j: j(), jobs))


def _flat(s: str) -> str:
    return re.sub(r"\s+", " ", s)


def eval_cases(ctx: Ctx, name: str, preamble: str, cases: list[str], check_fn: str,
    case_type: str | None = None, per_file: int = 400, timeout: int = 600) -> list[int]:
    """Each element of `cases` is a Gallina term; `check_fn : T -> bool` is evaluated on every one
    with vm_compute inside Coq.  Returns the global indices where it is false.  A Coq failure
    (type error in generated text, timeout) is a broken tie and raises."""
    d = ctx.build / "cases"
    d.mkdir(exist_ok=True)
    shards = [cases[i:i + per_file] for i in range(0, len(cases), per_file)]
    files = []
    for k, sh in enumerate(shards):
        f = d / f"{name}_{k:03d}.v"
        ty = f" : list ({case_type})" if case_type else ""
        body = ";\n  ".join(sh)
        f.write_text(f"{preamble}\nDefinition vp_cases{ty} := [\n  {body}\n].\n"
            f"Eval vm_compute in (vp_failing ({check_fn}) vp_cases).\n")
        files.append(f)
    results = _run_parallel([(lambda f=f: coqc(f, timeout)) for f in files])
    bad: list[int] = []
    for k, (f, (rc, out, err, _dt)) in enumerate(zip(files, results)):
        if rc != 0:
            raise CoqError(f"case file {f} failed (rc={rc}): {(out + err)[-1500:]}")
        m = re.search(r"= \[(.*?)\]\s*: list N", _flat(out))
        if not m:
            m2 = re.search(r"= (nil|\[\s*\])", _flat(out))
            if not m2:
                raise CoqError(f"cannot parse output of {f}: {out[-500:]}")
            continue
        for tok in m.group(1).split(";"):
            tok = tok.strip().replace("%N", "")
            if tok:
                bad.append(k * per_file + int(tok))
    return bad


def eval_terms(ctx: Ctx, name: str, preamble: str, terms: list[str], timeout: int = 300) -> list[str]:
    """Evaluate terms with vm_compute and return Coq's printed normal forms (for diagnostics and for
    model outputs the harness wants to read back)."""
    d = ctx.build / "terms"
    d.mkdir(exist_ok=True)
    f = d / f"{name}.v"
    lines = [preamble]
    for i, t in enumerate(terms):
        lines.append(f'Goal True. idtac "VPBEGIN {i}". Abort.')
        lines.append(f"Eval vm_compute in ({t}).")
    lines.append('Goal True. idtac "VPEND". Abort.')
    f.write_text("\n".join(lines) + "\n")
    rc, out, err, _ = coqc(f, timeout)
    if rc != 0:
        raise CoqError(f"term file {f} failed: {(out + err)[-1500:]}")
    res = []
    parts = re.split(r"VPBEGIN \d+\n|VPEND\n", out)
    for p in parts[1:1 + len(terms)]:
        p = _flat(p).strip()
        m = re.match(r"= (.*) : [^:]*$", p)
        res.append(m.group(1).strip() if m else p)
    return res


class CoqError(RuntimeError):
    pass


# ----------------------------------------------------------------------------------------------
# generated lemmas
# ----------------------------------------------------------------------------------------------

@dataclass
class Lemma:
    name: str
    statement: str          # text after `Lemma name :` up to (not including) the final '.'
    proof: str              # tactic script between Proof. and Qed.
    item: str = ""          # what in the repo this obligation is about


def prove_lemmas(ctx: Ctx, name: str, preamble: str, lemmas: list[Lemma], per_file: int = 30,
    timeout: int = 900, max_retries: int = 12) -> dict[str, str]:
    """Compile generated lemmas in shards.  Returns name -> "ok" | error text.  A failing lemma is
    commented out and the shard recompiled, so every other lemma is still kernel-checked (Qed)."""
    d = ctx.build / "gen"
    d.mkdir(exist_ok=True)
    shards = [lemmas[i:i + per_file] for i in range(0, len(lemmas), per_file)]

    def job(k: int, sh: list[Lemma]):
        status: dict[str, str] = {}
        skip: set[str] = set()
        f = d / f"{name}_{k:03d}.v"
        for _ in range(max_retries + 1):
            text = [preamble]
            line_of: list[tuple[int, str]] = []
            n = preamble.count("\n") + 2
            for lm in sh:
                if lm.name in skip:
                    continue
                block = f"Lemma {lm.name} : {lm.statement}.\nProof.\n{lm.proof}\nQed.\n"
                line_of.append((n, lm.name))
                text.append(block)
                n += block.count("\n") + 1
            f.write_text("\n".join(text) + "\n")
            rc, out, err, _dt = coqc(f, timeout)
            if rc == 0:
                for lm in sh:
                    status.setdefault(lm.name, "ok")
                return status
            # the location that belongs to the Error (warnings also carry a location)
            m = None
            for mm in re.finditer(r'File "[^"]*", line (\d+), characters [^\n]*\n(\w+)', err):
                if mm.group(2) == "Error":
                    m = mm
            if m is None:
                m = re.search(r'line (\d+), characters[^\n]*\nError', err)
            if rc == 124 or not m:
                for lm in sh:
                    if lm.name not in status:
                        status[lm.name] = "shard timeout" if rc == 124 else f"coq error: {err[-400:]}"
                return status
            ln = int(m.group(1))
            culprit = None
            for start, nm in line_of:
                if start <= ln:
                    culprit = nm
            if culprit is None:
                # the error is in the preamble (or before the first lemma): nothing in this shard was checked
                for lm in sh:
                    status.setdefault(lm.name, f"coq error before the first lemma: {_flat(err)[-400:]}")
                return status
            status[culprit] = _flat(err)[-600:]
            skip.add(culprit)
        for lm in sh:
            status.setdefault(lm.name, "not reached (too many failures in shard)")
        return status

    results = _run_parallel([(lambda k=k, sh=sh: job(k, sh)) for k, sh in enumerate(shards)])
    merged: dict[str, str] = {}
    for r in results:
        merged.update(r)
    return merged
