"""C01: SymPy equation -> `dexpr` (coq/theories/Model/Homog.v), fail-closed; and, independently of it,
`spec_dim`: the property's specification predicate evaluated directly on the live SymPy object
(used for the serialiser self-check and for locating the offending sub-term after a failure), and
`rescale_witness`: numeric evaluation of the real equation under a change of one base unit.

Leaf dimensions are read from the live objects (`symbol.dimension` -> dimsys_SI dependencies -> 9 exact
rationals, qx.dim_vec).  A node type outside the vocabulary raises `Unsupported`."""
from __future__ import annotations

import random
from fractions import Fraction

import sympy
from sympy import S, Add, Mul, Pow, Derivative, Integral, Piecewise, Idx
from sympy import Function as SymFunction
from sympy.core.function import AppliedUndef
from sympy.core.relational import Relational
from sympy.functions.elementary.miscellaneous import MinMaxBase
from sympy.logic.boolalg import BooleanAtom, And, Or, Not
from sympy.matrices import MatrixBase
from sympy.matrices.expressions import MatrixExpr, MatMul, MatAdd
from sympy.physics.units import Quantity as SymQuantity
from sympy.series.order import Order
from sympy.tensor.indexed import Indexed, IndexedBase

from . import qx
from .qx import Unsupported, q_lit, NB

ANGLE, ANYD = 7, 8
LENGTH_VEC = tuple(Fraction(1 if i == 0 else 0) for i in range(NB))
ZERO_VEC = tuple(Fraction(0) for _ in range(NB))

# functions whose arguments must be dimensionless and whose value is dimensionless
DIMLESS_FUNCS = {
    "exp", "log", "sin", "cos", "tan", "cot", "sec", "csc", "sinc", "asin", "acos", "atan", "acot", "asec", "acsc",
    "sinh", "cosh", "tanh", "coth", "sech", "csch", "asinh", "acosh", "atanh", "acoth", "asech", "acsch",
    "factorial", "factorial2", "binomial", "gamma", "loggamma", "erf", "erfc", "erfi", "LambertW", "floor", "ceiling",
    "besselj", "bessely", "besseli", "besselk", "hankel1", "hankel2", "jn", "yn", "airyai", "airybi",
    "hermite", "legendre", "assoc_legendre", "laguerre", "assoc_laguerre", "chebyshevt", "chebyshevu", "Ynm", "zeta",
    "polylog", "Heaviside", "KroneckerDelta", "sign",
}
# functions that keep the dimension of their single argument
SAME_FUNCS = {"Abs", "conjugate", "re", "im"}


def _sym():
    # pylint: disable=import-outside-toplevel
    from symplyphysics.core.symbols.symbols import DimensionSymbol, Function as SpFunction
    from symplyphysics.core.operations.symbolic import Symbolic
    from symplyphysics.core.operations.sum_indexed import IndexedSum
    from symplyphysics.core.operations.product_indexed import IndexedProduct
    return DimensionSymbol, SpFunction, Symbolic, IndexedSum, IndexedProduct


_DIMCACHE: dict = {}


def dvec(d) -> tuple:
    try:
        return _DIMCACHE[d]
    except KeyError:
        v = qx.dim_vec(d)
        _DIMCACHE[d] = v
        return v
    except TypeError:
        return qx.dim_vec(d)


def is_wild_number(v) -> bool:
    """0, 0.0, +-oo, nan, zoo: a value that is compatible with every dimension."""
    if v in (S.Zero, S.Infinity, S.NegativeInfinity, S.NaN, S.ComplexInfinity):
        return True
    try:
        return bool(v == 0)
    except Exception:  # pylint: disable=broad-except
        return False


# Only for the *instantiated* re-check of equations with a symbolic exponent on a dimensional base (p V**gamma):
# {symbol: rational}; empty during the main check.
EXP_SUBST: dict = {}


def rational_const(e):
    """The exact rational an exponent denotes, or None.  A float is read as the decimal it prints as."""
    if e.is_Rational:
        return Fraction(int(e.p), int(e.q))
    if e.is_Float:
        return Fraction(str(e))
    if EXP_SUBST and e.free_symbols and e.free_symbols <= set(EXP_SUBST):
        v = e.subs(EXP_SUBST)
        if v.is_Rational:
            return Fraction(int(v.p), int(v.q))
    return None


def is_matrix(e) -> bool:
    return isinstance(e, (MatrixBase, MatrixExpr))


def leaf_kind(e):
    """Classify a node that carries a declared dimension.  Returns None for a compound node, otherwise
    ('wild', why) | ('dim', vec) | ('num',)"""
    DimensionSymbol, SpFunction, Symbolic, _, _ = _sym()
    if isinstance(e, Symbolic):
        return None
    if isinstance(e, SymQuantity):
        if is_wild_number(e.scale_factor):
            return ("wild", "zero/infinite quantity")
        v = dvec(e.dimension)
        return ("wild", "any_dimension") if v[ANYD] != 0 else ("dim", v)
    if isinstance(e, Indexed):
        b = e.base
        if isinstance(b, DimensionSymbol):
            v = dvec(b.dimension)
            return ("wild", "any_dimension") if v[ANYD] != 0 else ("dim", v)
        return ("wild", "undeclared indexed symbol")
    if isinstance(e, DimensionSymbol) and isinstance(e, (sympy.Symbol, IndexedBase)):
        v = dvec(e.dimension)
        return ("wild", "any_dimension") if v[ANYD] != 0 else ("dim", v)
    if isinstance(e, Idx):
        return ("num",)
    if type(e).__name__ == "BaseScalar" and type(e).__module__.startswith("sympy.vector"):
        # coordinate of a sympy.vector CoordSys3D: a pure number in the repository's reading (it multiplies them by a
        # unit-length quantity itself)
        return ("num",)
    if isinstance(e, sympy.Symbol):
        return ("wild", "undeclared symbol")
    if isinstance(e, (sympy.Number, sympy.NumberSymbol)) or e is S.ImaginaryUnit:
        return ("wild", "wild number") if is_wild_number(e) else ("num",)
    if e is S.ComplexInfinity:
        return ("wild", "wild number")
    return None


def var_adim(v):
    """Dimension of a differentiation / integration variable: ('wild',..) | ('dim', vec)."""
    _, SpFunction, Symbolic, _, _ = _sym()
    if isinstance(v, Symbolic):
        return ("dim", dvec(v.dimension))
    if isinstance(v, AppliedUndef):
        if isinstance(v.func, SpFunction):
            vec = dvec(v.func.dimension)
            return ("wild", "any_dimension") if vec[ANYD] != 0 else ("dim", vec)
        return ("wild", "undeclared function")
    k = leaf_kind(v)
    if k is None or k[0] == "num":
        raise Unsupported(f"variable {v!r} of type {type(v).__name__}")
    return k


# =================================================================================================
# serialiser
# =================================================================================================

class Serialiser:
    """One instance per run: keeps the table of distinct leaf dimensions (emitted once in the preamble)."""

    def __init__(self):
        self.dims: dict[tuple, str] = {}
        self.undeclared: list[str] = []
        self.node_hist: dict[str, int] = {}

    # ---- literals ---------------------------------------------------------------------------
    def dim_name(self, vec) -> str:
        n = self.dims.get(vec)
        if n is None:
            n = f"dm{len(self.dims)}"
            self.dims[vec] = n
        return n

    def adim(self, k) -> str:
        return "Any" if k[0] == "wild" else f"(D {self.dim_name(k[1])})"

    def preamble(self) -> str:
        lines = ["From Coq Require Import List QArith ZArith NArith Bool.",
            "From VP Require Import Base.Util Base.Dim Model.Homog.", "Import ListNotations.", "Local Open Scope Q_scope."]
        for vec, n in self.dims.items():
            lines.append(f"Definition {n} : dim := {qx.dim_lit(vec)}.")
        return "\n".join(lines) + "\n"

    def _count(self, k):
        self.node_hist[k] = self.node_hist.get(k, 0) + 1

    def lst(self, items) -> str:
        return "[" + "; ".join(items) + "]"

    # ---- expressions ------------------------------------------------------------------------
    def ser(self, e) -> str:
        DimensionSymbol, SpFunction, Symbolic, IndexedSum, IndexedProduct = _sym()
        e = sympy.sympify(e)
        if isinstance(e, BooleanAtom):
            self._count("bool")
            return "DTrue"
        if isinstance(e, Relational):
            return self.ser_rel(e)
        if isinstance(e, (And, Or, Not)):
            self._count("boolop")
            return "(DConj " + self.lst([self.ser(a) for a in e.args]) + ")"
        if is_matrix(e):
            raise Unsupported("matrix outside an entrywise relation")
        if isinstance(e, Symbolic):
            self._count("Symbolic")
            return f"(DSame {self.ser(e.factor)})"
        k = leaf_kind(e)
        if k is not None:
            if k[0] == "num":
                self._count("num")
                return "DNum"
            if k[0] == "wild":
                self._count("wild:" + k[1])
                if k[1].startswith("undeclared"):
                    self.undeclared.append(str(e))
                return "DWild"
            self._count("leaf")
            return f"(DLeaf {self.dim_name(k[1])})"
        if isinstance(e, Add):
            self._count("Add")
            return "(DAdd " + self.lst([self.ser(a) for a in e.args]) + ")"
        if isinstance(e, Mul):
            self._count("Mul")
            return "(DMul " + self.lst([self.ser(a) for a in e.args]) + ")"
        if isinstance(e, Pow):
            self._count("Pow")
            q = rational_const(e.exp)
            ql = "None" if q is None else f"(Some {q_lit(q)})"
            return f"(DPow {self.ser(e.base)} {self.ser(e.exp)} {ql})"
        if isinstance(e, MinMaxBase):
            self._count("MinMax")
            return "(DMinMax " + self.lst([self.ser(a) for a in e.args]) + ")"
        if isinstance(e, Derivative):
            self._count("Derivative")
            out = self.ser(e.expr)
            for v, n in e.variable_count:
                n = sympy.sympify(n)
                if not n.is_Integer:
                    raise Unsupported(f"derivative of symbolic order {n}")
                out = f"(DDeriv {out} {self.adim(var_adim(v))} {q_lit(Fraction(int(n)))})"
            return out
        if isinstance(e, Integral):
            self._count("Integral")
            out = self.ser(e.function)
            for lim in e.limits:
                v, *bounds = tuple(lim)
                out = f"(DIntegral {out} {self.adim(var_adim(v))} {self.lst([self.ser(b) for b in bounds])})"
            return out
        if isinstance(e, (sympy.Sum, IndexedSum)):
            self._count("SumIdx")
            return f"(DSumIdx {self.ser(e.args[0])})"
        if isinstance(e, (sympy.Product, IndexedProduct)):
            self._count("ProdIdx")
            return f"(DProdIdx {self.ser(e.args[0])})"
        if isinstance(e, Piecewise):
            self._count("Piecewise")
            return ("(DPiecewise " + self.lst([self.ser(v) for v, _ in e.args]) + " "
                + self.lst([self.ser(c) for _, c in e.args]) + ")")
        if isinstance(e, Order):
            self._count("Order")
            return f"(DApp Any [{self.ser(e.expr)}])"
        if type(e).__name__ == "Laplacian" and type(e).__module__.startswith("sympy.vector"):
            # second derivative over space coordinates (the repo's own comment: dimension / length**2)
            self._count("Laplacian")
            return f"(DDeriv {self.ser(e.args[0])} (D {self.dim_name(LENGTH_VEC)}) {q_lit(Fraction(2))})"
        if isinstance(e, AppliedUndef):
            f = e.func
            args = self.lst([self.ser(a) for a in e.args])
            if isinstance(f, SpFunction):
                self._count("App")
                vec = dvec(f.dimension)
                return f"(DApp {self.adim(('wild',) if vec[ANYD] != 0 else ('dim', vec))} {args})"
            self._count("App:undeclared")
            self.undeclared.append(str(f))
            return f"(DApp Any {args})"
        if isinstance(e, SymFunction):
            name = type(e).__name__
            if name in SAME_FUNCS and len(e.args) == 1:
                self._count("Same")
                return f"(DSame {self.ser(e.args[0])})"
            if name == "atan2" and len(e.args) == 2:
                self._count("atan2")
                y, x = e.args
                return f"(DFun [DMul [{self.ser(y)}; DPow {self.ser(x)} DNum (Some {q_lit(Fraction(-1))})]])"
            if name in DIMLESS_FUNCS:
                self._count("Fun")
                return "(DFun " + self.lst([self.ser(a) for a in e.args]) + ")"
            raise Unsupported(f"function {name}")
        raise Unsupported(f"node type {type(e).__module__}.{type(e).__name__}")

    # ---- relations and matrices ---------------------------------------------------------------
    def ser_rel(self, e) -> str:
        l, r = e.lhs, e.rhs
        if is_matrix(l) or is_matrix(r):
            self._count("MatrixRel")
            a, b = self.mat(l), self.mat(r)
            if len(a) != len(b) or any(len(x) != len(y) for x, y in zip(a, b)):
                raise Unsupported("matrix relation with different shapes")
            return "(DConj " + self.lst([f"(DRel {x} {y})" for ra, rb in zip(a, b) for x, y in zip(ra, rb)]) + ")"
        self._count("Rel")
        return f"(DRel {self.ser(l)} {self.ser(r)})"

    def mat(self, e) -> list[list[str]]:
        """Entries of a matrix-valued expression as dexpr text; products expanded into sums of products."""
        if isinstance(e, MatrixBase):
            return [[self.ser(e[i, j]) for j in range(e.cols)] for i in range(e.rows)]
        if isinstance(e, MatAdd):
            ms = [self.mat(a) for a in e.args]
            if any(len(m) != len(ms[0]) or len(m[0]) != len(ms[0][0]) for m in ms):
                raise Unsupported("MatAdd shapes")
            return [[f"(DAdd {self.lst([m[i][j] for m in ms])})" for j in range(len(ms[0][0]))] for i in range(len(ms[0]))]
        if isinstance(e, MatMul):
            scal = [a for a in e.args if not is_matrix(a)]
            mats = [self.mat(a) for a in e.args if is_matrix(a)]
            if not mats:
                raise Unsupported("MatMul without matrices")
            acc = mats[0]
            for m in mats[1:]:
                if len(acc[0]) != len(m):
                    raise Unsupported("MatMul shapes")
                acc = [[f"(DAdd {self.lst([f'(DMul [{acc[i][j]}; {m[j][k]}])' for j in range(len(m))])})"
                    for k in range(len(m[0]))] for i in range(len(acc))]
            if scal:
                s = [self.ser(x) for x in scal]
                acc = [[f"(DMul {self.lst(s + [x])})" for x in row] for row in acc]
            return acc
        raise Unsupported(f"matrix expression {type(e).__name__}")


# =================================================================================================
# specification predicate, written from the property text, evaluated on the SymPy object itself
# =================================================================================================

ANY = "any"


class Inhomogeneous(Exception):
    def __init__(self, kind, path, term, what, dims=()):
        super().__init__(what)
        self.kind, self.path, self.term, self.what, self.dims = kind, path, term, what, list(dims)


def _erase(vec):
    return vec[:ANGLE] + (Fraction(0),) + vec[ANGLE + 1:]


def show_dim(d) -> str:
    if d == ANY:
        return "any"
    names = ["L", "M", "T", "I", "Theta", "N", "J", "angle", "anyd"]
    s = " ".join(f"{n}^{x}" if x != 1 else n for n, x in zip(names, d) if x != 0)
    return s or "1"


# None: the first defect raises.  A list: defects are appended and evaluation continues with a recovery dimension
# (the first non-wild term of a sum; "dimensionless" for a function; wild for a symbolic power) -- `spec_defects`.
_COLLECT = None


def _defect(ex):
    if _COLLECT is None:
        raise ex
    _COLLECT.append(ex)


def _common(dims, path, term, what):
    """Every pair of terms that are added / compared has the same dimension (wild terms match anything)."""
    got = ANY
    first = None
    for i, d in enumerate(dims):
        if d == ANY:
            continue
        if got == ANY:
            got, first = d, i
        elif d != got:
            _defect(Inhomogeneous("mismatch", path, term,
                f"{what}: term #{first} has dimension [{show_dim(got)}], term #{i} has [{show_dim(d)}]", [got, d]))
    return got


def _need_dimless(d, path, term, what):
    if d != ANY and any(x != 0 for x in d):
        _defect(Inhomogeneous("not-dimensionless", path, term, f"{what} has dimension [{show_dim(d)}], must be dimensionless",
            [d, ZERO_VEC]))


def _vmul(a, b):
    if a == ANY or b == ANY:
        return ANY
    return tuple(x + y for x, y in zip(a, b))


def _vpow(a, q):
    return tuple(x * q for x in a)


def _kdim(k):
    return ANY if k[0] == "wild" else _erase(k[1])


def spec_dim(e, path=()):
    """Dimension of `e` (a 9-vector with the angle erased, or ANY) if `e` satisfies the property; raises
    `Inhomogeneous` naming the offending sub-term otherwise.  `Unsupported` for nodes outside the vocabulary."""
    DimensionSymbol, SpFunction, Symbolic, IndexedSum, IndexedProduct = _sym()
    e = sympy.sympify(e)
    sub = lambda a, i: spec_dim(a, path + (i,))
    if isinstance(e, BooleanAtom):
        return ANY
    if isinstance(e, Relational):
        if is_matrix(e.lhs) or is_matrix(e.rhs):
            a, b = spec_mat(e.lhs, path + (0,)), spec_mat(e.rhs, path + (1,))
            if len(a) != len(b) or any(len(x) != len(y) for x, y in zip(a, b)):
                raise Unsupported("matrix relation with different shapes")
            for i, (ra, rb) in enumerate(zip(a, b)):
                for j, (x, y) in enumerate(zip(ra, rb)):
                    _common([x, y], path + ((i, j),), e, f"matrix entry ({i},{j}) of the two sides")
            return ANY
        return _common([sub(e.lhs, 0), sub(e.rhs, 1)], path, e, "the two sides of the relation")
    if isinstance(e, (And, Or, Not)):
        for i, a in enumerate(e.args):
            sub(a, i)
        return ANY
    if is_matrix(e):
        raise Unsupported("matrix outside an entrywise relation")
    if isinstance(e, Symbolic):
        return spec_dim(e.factor, path + ("factor",))
    k = leaf_kind(e)
    if k is not None:
        return ZERO_VEC if k[0] == "num" else _kdim(k)
    if isinstance(e, (Add, MinMaxBase)):
        return _common([sub(a, i) for i, a in enumerate(e.args)], path, e, "terms of a sum" if isinstance(e, Add) else "arguments of Min/Max")
    if isinstance(e, Mul):
        d = ZERO_VEC
        for i, a in enumerate(e.args):
            d = _vmul(d, sub(a, i))
        return d
    if isinstance(e, Pow):
        de = sub(e.exp, 1)
        _need_dimless(de, path + (1,), e.exp, "exponent")
        db = sub(e.base, 0)
        if db == ANY:
            return ANY
        if all(x == 0 for x in db):
            return db
        q = rational_const(e.exp)
        if q is None:
            _defect(Inhomogeneous("symbolic-exponent", path, e,
                f"base of dimension [{show_dim(db)}] raised to the non-constant exponent {e.exp}", [db]))
            return ANY
        return _vpow(db, q)
    if isinstance(e, Derivative):
        d = sub(e.expr, 0)
        for v, n in e.variable_count:
            n = sympy.sympify(n)
            if not n.is_Integer:
                raise Unsupported(f"derivative of symbolic order {n}")
            dv = _kdim(var_adim(v))
            d = ANY if ANY in (d, dv) else _vmul(d, _vpow(dv, -Fraction(int(n))))
        return d
    if isinstance(e, Integral):
        d = sub(e.function, 0)
        for li, lim in enumerate(e.limits):
            v, *bounds = tuple(lim)
            dv = _kdim(var_adim(v))
            dv = _common([dv] + [spec_dim(b, path + (1 + li, 1 + bi)) for bi, b in enumerate(bounds)], path + (1 + li,), e,
                "integration variable and its bounds")
            d = _vmul(d, dv)
        return d
    if isinstance(e, (sympy.Sum, IndexedSum)):
        return sub(e.args[0], 0)
    if isinstance(e, (sympy.Product, IndexedProduct)):
        d = sub(e.args[0], 0)
        _need_dimless(d, path + (0,), e.args[0], "factor of a product over an index")
        return d
    if isinstance(e, Piecewise):
        for i, (_, c) in enumerate(e.args):
            spec_dim(c, path + (i, 1))
        return _common([spec_dim(v, path + (i, 0)) for i, (v, _) in enumerate(e.args)], path, e, "branches of a Piecewise")
    if isinstance(e, Order):
        sub(e.expr, 0)
        return ANY
    if type(e).__name__ == "Laplacian" and type(e).__module__.startswith("sympy.vector"):
        d = sub(e.args[0], 0)
        return ANY if d == ANY else _vmul(d, _vpow(LENGTH_VEC, Fraction(-2)))
    if isinstance(e, AppliedUndef):
        for i, a in enumerate(e.args):
            sub(a, i)
        if isinstance(e.func, SpFunction):
            vec = dvec(e.func.dimension)
            return ANY if vec[ANYD] != 0 else _erase(vec)
        return ANY
    if isinstance(e, SymFunction):
        name = type(e).__name__
        if name in SAME_FUNCS and len(e.args) == 1:
            return sub(e.args[0], 0)
        if name == "atan2" and len(e.args) == 2:
            _common([sub(e.args[0], 0), sub(e.args[1], 1)], path, e, "arguments of atan2")
            return ZERO_VEC
        if name in DIMLESS_FUNCS:
            for i, a in enumerate(e.args):
                _need_dimless(sub(a, i), path + (i,), a, f"argument of {name}")
            return ZERO_VEC
        raise Unsupported(f"function {name}")
    raise Unsupported(f"node type {type(e).__module__}.{type(e).__name__}")


def spec_mat(e, path):
    if isinstance(e, MatrixBase):
        return [[spec_dim(e[i, j], path + ((i, j),)) for j in range(e.cols)] for i in range(e.rows)]
    if isinstance(e, MatAdd):
        ms = [spec_mat(a, path + (i,)) for i, a in enumerate(e.args)]
        return [[_common([m[i][j] for m in ms], path, e, f"entries ({i},{j}) of a matrix sum") for j in range(len(ms[0][0]))]
            for i in range(len(ms[0]))]
    if isinstance(e, MatMul):
        scal = [spec_dim(a, path + (i,)) for i, a in enumerate(e.args) if not is_matrix(a)]
        mats = [spec_mat(a, path + (i,)) for i, a in enumerate(e.args) if is_matrix(a)]
        if not mats:
            raise Unsupported("MatMul without matrices")
        acc = mats[0]
        for m in mats[1:]:
            if len(acc[0]) != len(m):
                raise Unsupported("MatMul shapes")
            acc = [[_common([_vmul(acc[i][j], m[j][k]) for j in range(len(m))], path, e, f"summands of product entry ({i},{k})")
                for k in range(len(m[0]))] for i in range(len(acc))]
        for s in scal:
            acc = [[_vmul(s, x) for x in row] for row in acc]
        return acc
    raise Unsupported(f"matrix expression {type(e).__name__}")


def spec_verdict(e):
    """('ok', dim) | ('bad', Inhomogeneous) | ('symexp', Inhomogeneous)"""
    try:
        return ("ok", spec_dim(e))
    except Inhomogeneous as ex:
        return ("symexp" if ex.kind == "symbolic-exponent" else "bad", ex)


def spec_defects(e):
    """All defects of `e` (evaluation continues after each one with a recovery dimension)."""
    global _COLLECT  # pylint: disable=global-statement
    _COLLECT = []
    try:
        spec_dim(e)
        return list(_COLLECT)
    finally:
        _COLLECT = None


def locate(e, path):
    """The sub-term at `path` (best effort, for messages)."""
    cur = e
    for p in path:
        try:
            if isinstance(p, int):
                cur = cur.args[p]
            elif p == "factor":
                cur = cur.factor
            else:
                break
        except Exception:  # pylint: disable=broad-except
            break
    return cur


# =================================================================================================
# numeric rescaling witness on the real equation
# =================================================================================================

def _atomise(e, atoms, rng):
    """Replace every maximal dimension-carrying / unevaluable sub-term by a fresh positive symbol; `atoms` maps the
    symbol to (original text, dimension vector | ANY, positive base value)."""
    DimensionSymbol, SpFunction, Symbolic, IndexedSum, IndexedProduct = _sym()
    e = sympy.sympify(e)
    cache = atoms.setdefault("__cache__", {})

    def fresh(orig, d, value=None):
        key = orig
        try:
            if key in cache:
                return cache[key]
        except TypeError:
            key = None
        s = sympy.Dummy("a", positive=True)
        v = value if value is not None else rng.uniform(0.5, 3.0)
        atoms[s] = (str(orig), d, v)
        if key is not None:
            cache[key] = s
        return s

    if isinstance(e, Symbolic):
        return fresh(e, _erase(dvec(e.dimension)))
    k = leaf_kind(e)
    if k is not None:
        if k[0] == "num":
            return e if isinstance(e, (sympy.Number, sympy.NumberSymbol)) or e is S.ImaginaryUnit else fresh(e, ZERO_VEC)
        if isinstance(e, (sympy.Number, sympy.NumberSymbol)) or e in (S.ImaginaryUnit, S.ComplexInfinity):
            return e
        val = None
        if isinstance(e, SymQuantity):
            try:
                val = abs(complex(e.scale_factor))
                val = val if 0 < val < float("inf") else None
            except Exception:  # pylint: disable=broad-except
                val = None
        return fresh(e, _kdim(k), val)
    if isinstance(e, (Derivative, Integral, sympy.Sum, sympy.Product, IndexedSum, IndexedProduct, AppliedUndef, Order)) or (
            type(e).__name__ == "Laplacian"):
        if isinstance(e, Order):
            return S.Zero
        return fresh(e, spec_dim(e))
    if isinstance(e, (Relational, Piecewise)) or is_matrix(e):
        raise Unsupported("not evaluable numerically as a scalar")
    if not e.args:
        return e
    return e.func(*[_atomise(a, atoms, rng) for a in e.args])


def rescale_witness(eq, rng: random.Random, tries: int = 3, stats: dict | None = None):
    """Evaluate both sides of the real equation at a random positive valuation rho and at the valuations obtained by
    rescaling one base unit by 2 and by 4 (a leaf of dimension d is multiplied by 2**d_b, 4**d_b).  For a homogeneous
    equation both sides are multiplied by the same factor, the same at both steps.  Returns a dict describing the
    first base unit where that fails, or None (also when the equation cannot be evaluated)."""
    if not isinstance(eq, Relational) or is_matrix(eq.lhs) or is_matrix(eq.rhs):
        return None
    names = ["length", "mass", "time", "current", "temperature", "amount", "luminous_intensity"]
    for _ in range(tries):
        atoms: dict = {}
        try:
            sides = [_atomise(eq.lhs, atoms, rng), _atomise(eq.rhs, atoms, rng)]
        except (Unsupported, Inhomogeneous):
            return None
        atoms.pop("__cache__", None)
        syms = list(atoms)
        if any(atoms[s][1] == ANY for s in syms):
            return None  # a wildcard-dimension symbol has no definite behaviour under a change of units
        used = [b for b in range(7) if any(atoms[s][1] != ANY and atoms[s][1][b] != 0 for s in syms)]

        def evaluate(side, b, lam):
            # 40-digit floats throughout (a double-precision 2**(1/2) would be amplified by large exp() arguments)
            sub = {}
            for s in syms:
                _, d, v = atoms[s]
                val = sympy.Float(v, 40)
                if d != ANY and d[b] != 0:
                    val = val * sympy.Float(lam, 40)**(sympy.Float(d[b].numerator, 40) / d[b].denominator)
                sub[s] = val
            try:
                return complex(sympy.N(side.subs(sub), 30))
            except Exception:  # pylint: disable=broad-except
                return None

        for b in used:
            vals = [[evaluate(s, b, lam) for lam in (1, 2, 4)] for s in sides]
            ks = []
            for v in vals:
                if any(x is None or x != x or abs(x) in (0.0, float("inf")) for x in v):
                    ks.append(None)
                else:
                    ks.append((v[1] / v[0], v[2] / v[1]))
            close = lambda x, y: abs(x - y) <= 1e-9 * max(abs(x), abs(y), 1e-300)
            problem = None
            if stats is not None and any(k is not None for k in ks):
                stats["conclusive_base_units"] = stats.get("conclusive_base_units", 0) + 1
            for name, k in zip(("lhs", "rhs"), ks):
                if k is not None and not close(k[0], k[1]):
                    problem = f"{name} is not a homogeneous function of the {names[b]} unit: factor {k[0]:.6g} for 1->2 but {k[1]:.6g} for 2->4"
            if problem is None and ks[0] is not None and ks[1] is not None and not close(ks[0][0], ks[1][0]):
                problem = (f"doubling the {names[b]} unit multiplies the lhs by {ks[0][0]:.6g} but the rhs by {ks[1][0]:.6g}")
            if problem:
                return {"base_unit": names[b], "problem": problem,
                    "valuation": {atoms[s][0]: {"value": atoms[s][2], "dimension": show_dim(atoms[s][1])} for s in syms},
                    "lhs_at_1_2_4": [str(x) for x in vals[0]], "rhs_at_1_2_4": [str(x) for x in vals[1]]}
    return None
