"""known_findings.json: committed, read-only at run time.

Entries: {"property": "C05", "key": "...", "what": "...", "status": "known" | "fixed", "commit": "..."}
A `known` entry turns a violation with that exact key into a KNOWN-FINDING line; a `fixed` entry
suppresses nothing."""
from __future__ import annotations

import json

from .common import VERIF

PATH = VERIF / "known_findings.json"


def load(prop: str) -> dict[str, dict]:
    """known_findings.json is the committed list; known_findings.d/<ID>.json (same format) holds entries
    that have not been merged into it yet."""
    out: dict[str, dict] = {}
    extra = VERIF / "known_findings.d" / f"{prop}.json"
    for path in (PATH, extra):
        if not path.exists():
            continue
        data = json.loads(path.read_text())
        for e in data.get("findings", []):
            if e.get("property") == prop:
                out[e["key"]] = e
    return out
