"""Print Assumptions of the static property theorems, parsed completely.

`coqrun.parse_print_assumptions` recognises an axiom only when Coq prints `name : type` on one line; long types are
wrapped (`name` alone, the type indented on the following lines), so its list is incomplete for theorems over R.  This
helper re-reads the assumptions of every property theorem from the compiled `Properties/<prop>.vo` (built by
`ctx.static`), in parallel shards, and overwrites ctx.coverage["axioms"] / ["assumptions_per_theorem"]."""
from __future__ import annotations

import re

from . import coqrun

_NAME = re.compile(r"^([A-Za-z_][A-Za-z0-9_'.]*)\s*(:.*)?$")


def parse_axiom_names(text: str) -> list[str]:
    out = []
    for line in text.splitlines():
        if line.startswith(("Axioms:", "Closed under", "VPTHM ")):
            continue
        m = _NAME.match(line)
        if m:
            out.append(m.group(1))
    return out


def report(ctx, prop: str, names: list[str], shards: int = 4) -> dict[str, list[str]]:
    d = ctx.build / "static"
    d.mkdir(exist_ok=True)
    chunks = [c for c in (names[i::shards] for i in range(shards)) if c]
    files = []
    for k, ch in enumerate(chunks):
        f = d / f"assumptions_{k}.v"
        body = "".join(f'Goal True. idtac "VPTHM {n}". Abort.\nPrint Assumptions {n}.\n' for n in ch)
        f.write_text(f"From VP Require Import Properties.{prop}.\n{body}")
        files.append(f)
    outs = coqrun._run_parallel([(lambda f=f: coqrun.coqc(f, 600)) for f in files])  # pylint: disable=protected-access
    per: dict[str, list[str]] = {}
    for (rc, out, err, _dt), f in zip(outs, files):
        if rc != 0:
            ctx.violation(f"{prop}:static-assumptions", "Print Assumptions over the property theorems failed",
                {"kind": "broken-proof", "theorem_or_tie": str(f), "log": (out + err)[-1500:]}, found_input=False)
            continue
        # the `Require` replays the Print Assumptions of Properties/<prop>.v itself: keep only what follows our markers
        parts = re.split(r"^VPTHM (\S+)\n", out, flags=re.M)
        for i in range(1, len(parts) - 1, 2):
            per[parts[i]] = parse_axiom_names(parts[i + 1])
    ctx.coverage["assumptions_per_theorem"] = {k: (v or ["Closed under the global context"]) for k, v in sorted(per.items())}
    ctx.coverage["axioms"] = sorted(set(ctx.coverage.get("axioms", [])) | {a for v in per.values() for a in v})
    return per
