"""C01, history dimension: what a module publishes must be homogeneous at any time, not only right after import.

`exercise_modules` fingerprints (srepr) every published equation object of a module, calls each of its calculate_*
functions -- with the arguments /repo's own test-suite passes (harvester of vp/c03_worker.py, used read-only), with
variants where a plain-number / dimensionless argument is given as a Python float, a Python int or an exact Rational, and
with synthesised quantities where the test-suite has no call -- and re-reads the published objects after every call.  A
published object that changed is judged again by the normal specification predicate and serialised for the Coq checker.
Runs in forked children of the warm parent, so nothing the calls do leaks into the main check."""
from __future__ import annotations

import inspect
import multiprocessing
import sys
import time

import sympy
from sympy.core.relational import Relational
from sympy.physics.units import Quantity as SymQuantity

from . import dx, qx
from . import c03_worker as w3

CONTAINERS = (list, tuple, dict, set, frozenset)


class InlineSer(dx.Serialiser):
    """Serialiser whose leaf dimensions are written inline (the text is self-contained across processes)."""

    def dim_name(self, vec) -> str:
        return qx.dim_lit(vec)


def _items(v):
    if isinstance(v, dict):
        return list(v.items())
    if isinstance(v, (set, frozenset)):
        return list(enumerate(sorted(v, key=sympy.srepr)))
    return list(enumerate(v))


def published(mod):
    """{item name suffix: object} for every public equation-like attribute, containers flattened one level.
    Returns (objects, fingerprint, names of attributes that are mutable containers)."""
    objs, mutable = {}, []
    for name, v in list(vars(mod).items()):
        if name.startswith("_"):
            continue
        if isinstance(v, (Relational, sympy.logic.boolalg.BooleanAtom)) and not isinstance(v, sympy.Symbol):
            objs[name] = v
        elif isinstance(v, CONTAINERS) and v:
            its = _items(v)
            if any(isinstance(x, Relational) for _, x in its):
                if isinstance(v, (list, dict, set)):
                    mutable.append(name)
                for k, x in its:
                    objs[f"{name}[{k}]"] = x
                objs[f"{name}.__len__"] = len(its)
    fp = {}
    for k, x in objs.items():
        try:
            fp[k] = sympy.srepr(x) if isinstance(x, sympy.Basic) else repr(x)
        except Exception as e:  # pylint: disable=broad-except
            fp[k] = f"<srepr failed: {type(e).__name__}>"
    return objs, fp, mutable


def has_mutable_container(mod) -> bool:
    return bool(published(mod)[2])


def _is_plain_number(v) -> bool:
    if isinstance(v, bool):
        return False
    if isinstance(v, (int, float)):
        return True
    if isinstance(v, SymQuantity):
        try:
            return all(x == 0 for x in dx.dvec(v.dimension)) and complex(v.scale_factor).imag == 0
        except Exception:  # pylint: disable=broad-except
            return False
    return isinstance(v, sympy.Number) and v.is_real is True and v.is_finite is True


def _as_float(v) -> float:
    return float(v.scale_factor) if isinstance(v, SymQuantity) else float(v)


def variants(fn, args, kwargs, limit=3):
    """[(label, bound-arguments dict)]: the base call, then for up to `limit` plain-number parameters the same call
    with that argument as a Python float, as an exact Rational and (if integral) as a Python int."""
    try:
        ba = inspect.signature(fn).bind(*args, **kwargs)
    except (TypeError, ValueError):
        return [("base", None)]
    base = dict(ba.arguments)
    out = [("base", base)]
    n = 0
    for p, v in base.items():
        if not _is_plain_number(v) or n >= limit:
            continue
        n += 1
        f = _as_float(v)
        alts = [("float", f), ("rational", sympy.Rational(str(f)))]
        if f == int(f):
            alts.append(("int", int(f)))
        for lab, val in alts:
            if type(val) is type(v) and val == v:  # pylint: disable=unidiomatic-typecheck
                continue
            out.append((f"{p}:{lab}", {**base, p: val}))
    return out


def call_plan(mod, argseed):
    """[(function name, argument source, variant label, kwargs | None, args)] for every calculate_* of the module."""
    names = [n for n, f in list(vars(mod).items())
        if n.startswith("calculate_") and callable(f) and getattr(f, "__module__", None) == mod.__name__]
    try:
        harvested = w3.harvest_test_arguments(mod, names) if names else {}
    except BaseException:  # pylint: disable=broad-except
        harvested = {}
    plan = []
    for n in names:
        fn = getattr(mod, n)
        if n in harvested:
            a, k = harvested[n]
            src = "test-suite"
        else:
            try:
                a, k, src = (), w3.fixed_arguments(fn, f"{mod.__name__}.{n}", argseed), "synthesised"
            except Exception:  # pylint: disable=broad-except
                continue
        for lab, bound in variants(fn, a, k):
            plan.append((n, src, lab, bound, (a, k)))
    return plan


def _invoke(fn, bound, raw, budget_s):
    try:
        with w3._time_limit(budget_s):  # pylint: disable=protected-access
            if bound is None:
                fn(*raw[0], **raw[1])
            else:
                sig = inspect.signature(fn)
                pos = [bound[p] for p, par in sig.parameters.items() if p in bound and par.kind == par.POSITIONAL_ONLY]
                kw = {p: v for p, v in bound.items() if sig.parameters[p].kind != sig.parameters[p].POSITIONAL_ONLY}
                var = [p for p, par in sig.parameters.items() if par.kind == par.VAR_POSITIONAL]
                if var:
                    fn(*raw[0], **raw[1])
                else:
                    fn(*pos, **kw)
        return "ok"
    except w3._Timeout:  # pylint: disable=protected-access
        return "timeout"
    except BaseException as e:  # pylint: disable=broad-except
        return f"{type(e).__name__}"


def judge(obj):
    """(verdict, what, lit | None) of one re-published object."""
    if not isinstance(obj, sympy.Basic):
        return ("not-an-equation", repr(obj)[:120], None)
    try:
        lit = InlineSer().ser(obj)
    except dx.Unsupported as e:
        return ("unmodelled", str(e), None)
    v = dx.spec_verdict(obj)
    if v[0] == "ok":
        return ("ok", dx.show_dim(v[1]), lit)
    return (v[0], "; ".join(d.what for d in dx.spec_defects(obj)), lit)


def exercise_module(modname, argseed, budget_s):
    """Observation of one module: calls made, and every published object that a call changed."""
    mod = sys.modules[modname]
    _, fp, mutable = published(mod)
    res = {"module": modname, "calls": 0, "outcomes": {}, "changed": [], "mutable": mutable, "functions": 0}
    t0 = time.time()
    plan = call_plan(mod, argseed)
    res["functions"] = len({p[0] for p in plan})
    for fname, src, lab, bound, raw in plan:
        out = _invoke(getattr(mod, fname), bound, raw, budget_s)
        res["calls"] += 1
        res["outcomes"][out] = res["outcomes"].get(out, 0) + 1
        objs2, fp2, _ = published(mod)
        if fp2 != fp:
            for k in sorted(set(fp) | set(fp2)):
                if fp.get(k) != fp2.get(k):
                    verdict, what, lit = judge(objs2[k]) if k in objs2 else ("removed", "no longer published", None)
                    res["changed"].append({"item": k, "function": fname, "args": src, "variant": lab, "call_outcome": out,
                        "arguments": {p: repr(v)[:80] for p, v in (bound or {}).items()},
                        "before": fp.get(k, "<absent>")[:400], "after": str(objs2.get(k))[:400],
                        "verdict": verdict, "what": what, "lit": lit})
            fp = fp2
    res["s"] = round(time.time() - t0, 2)
    return res


def _job(a):
    try:
        return exercise_module(*a)
    except BaseException as e:  # pylint: disable=broad-except
        return {"module": a[0], "error": f"{type(e).__name__}: {e}"[:200], "calls": 0, "changed": [], "outcomes": {},
            "functions": 0, "mutable": []}


def exercise_modules(modnames, argseed, budget_s=6, procs=14, overall_s=900):
    """Fork one pool from the warm parent (all catalogue modules already imported) and exercise the given modules.
    Raises multiprocessing.TimeoutError if the whole stage exceeds `overall_s`."""
    if not modnames:
        return []
    ctx = multiprocessing.get_context("fork")
    with ctx.Pool(min(procs, len(modnames))) as pool:
        return pool.map_async(_job, [(m, argseed, budget_s) for m in modnames], chunksize=1).get(timeout=overall_s)


def replay_call(modname, function, variant, argseed, budget_s=60):
    """Re-execute one recorded call in this process: (published before, outcome, [(item, after, verdict, what)])."""
    import importlib  # pylint: disable=import-outside-toplevel
    mod = importlib.import_module(modname)
    objs, fp, _ = published(mod)
    before = {k: str(v) for k, v in objs.items()}
    for fname, _src, lab, bound, raw in call_plan(mod, argseed):
        if fname == function and lab == variant:
            out = _invoke(getattr(mod, fname), bound, raw, budget_s)
            objs2, fp2, _ = published(mod)
            rows = [(k, str(objs2.get(k)), *judge(objs2[k])[:2]) for k in sorted(fp2) if fp.get(k) != fp2[k]]
            return before, out, {p: repr(v)[:80] for p, v in (bound or {}).items()}, rows
    return before, "call not found in the plan", {}, []
