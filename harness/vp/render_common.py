"""Shared machinery of C17 (code rendering) and C18 (LaTeX rendering).

* catalogue_items()      every documented equation in its SOURCE FORM, obtained exactly as the doc build obtains it
                         (patch_sympy_evaluate + find_members_and_functions on the module AST), with its directives
* Reader                 the *reference reading* of a SymPy tree: SymPy node -> rtree (a small neutral tree), written
                         independently of symplyphysics' printers; symbols are keyed BY DISPLAY NAME
* rtree utilities        to_coq (R-term), hyps (domain of definition), evaluate (numeric, for replay/search)
* Coq aexpr utilities    parse Coq's printed `option aexpr`, re-emit it as a Gallina literal, mirror `aeval` into an rtree
* ExprGen                seeded generator of canonical (auto-evaluated) expression trees, weighted to bracket-sensitive shapes
"""
from __future__ import annotations

import ast
import cmath
import math
import os
import re
from fractions import Fraction
from pathlib import Path

import sympy
from sympy import S

from . import sx
from .common import REPO


# =================================================================================================
# catalogue in source form
# =================================================================================================

def _is_private(s: str) -> bool:
    return s.startswith(".") or s.startswith("_")


def catalogue_items(log=None):
    """Walk /repo/symplyphysics as docs/build.py does (exclude `core`, private dirs), patch each module AST,
    execute it, and return the documented members that carry a :laws:symbol:: or :laws:latex:: directive.

    Returns (items, failures); item = dict(key, file, member, value, directives={'SYMBOL','LATEX'})."""
    from symplyphysics.docs.patch import patch_sympy_evaluate  # pylint: disable=import-outside-toplevel
    from symplyphysics.docs.parse import find_members_and_functions  # pylint: disable=import-outside-toplevel
    from symplyphysics.docs.build import _parse_documentation  # pylint: disable=import-outside-toplevel
    from sympy.core.parameters import global_parameters  # pylint: disable=import-outside-toplevel

    root = REPO / "symplyphysics"
    items, failures = [], []
    n_files = 0
    for path, dirs, files in os.walk(root):
        p = Path(path)
        if _is_private(p.name) or p == root / "core":
            dirs.clear()
            continue
        dirs.sort()
        files.sort()
        for f in files:
            if not f.endswith(".py"):
                continue
            if f.startswith("__") and f != "__init__.py":
                continue
            fp = p / f
            try:
                tree = ast.parse(fp.read_text(encoding="utf-8"))
                if _parse_documentation(tree) is None:
                    continue
                n_files += 1
                tree = patch_sympy_evaluate(tree)
                members, _funcs = find_members_and_functions(tree)
            except Exception as e:  # pylint: disable=broad-except
                global_parameters.evaluate = True
                failures.append((str(fp.relative_to(REPO)), f"{type(e).__name__}: {e}"[:300]))
                continue
            finally:
                global_parameters.evaluate = True
            rel = fp.relative_to(REPO).with_suffix("")
            parts = list(rel.parts)
            if parts[-1] == "__init__":
                parts = parts[:-1]
            mod = ".".join(parts)
            for m in members:
                if m.name.startswith("_") or not m.directives:
                    continue
                items.append({"key": f"{mod}.{m.name}", "file": str(fp.relative_to(REPO)), "member": m.name,
                    "value": m.value, "directives": {d.directive_type.name for d in m.directives}})
    if log:
        log(f"catalogue: {n_files} documented files, {len(items)} members with directives, {len(failures)} failures")
    return items, failures


# =================================================================================================
# reference reading:  SymPy tree -> rtree
# =================================================================================================
# rtree nodes (tuples):
#   ("num", Fraction)  ("dec", m, e)  ("var", name)  ("pi",)
#   ("add", [t..])  ("mul", [t..])  ("neg", t)  ("sub", a, b)  ("div", a, b)  ("inv", t)
#   ("powi", b, n>=0)  ("sqrt", b)  ("rpow", b, e)
#   ("fn", coqname, [t])   known unary function      ("log2", a, b)
#   ("phi", head, [t..])   uninterpreted head

class StructureOnly(Exception):
    """node outside the semantic grammar of the reader (compared structurally / well-formedness only)"""


class Unreadable(Exception):
    """node that has no real-valued reference reading at all"""


KNOWN_FN = {"exp": "exp", "log": "ln", "sin": "sin", "cos": "cos", "tan": "tan", "asin": "asin", "acos": "acos",
    "atan": "atan", "sinh": "sinh", "cosh": "cosh", "tanh": "tanh", "Abs": "Rabs", "abs": "Rabs", "sqrt": "sqrt"}

_latex_base_printer = None


def latex_name(display_latex: str) -> str:
    """SymPy's own normalisation of a symbol name in LaTeX (greek translation, sub/superscript braces)."""
    global _latex_base_printer  # pylint: disable=global-statement
    if _latex_base_printer is None:
        from sympy.printing.latex import LatexPrinter  # pylint: disable=import-outside-toplevel
        _latex_base_printer = LatexPrinter()
    return _latex_base_printer._deal_with_super_sub(display_latex)  # pylint: disable=protected-access


def float_fraction(f) -> Fraction:
    """A Float leaf denotes the decimal it carries at its declared precision: the exact binary value rounded
    (ties away from zero, exact rational arithmetic) to `dps` significant decimal digits (15 by default)."""
    if abs(f._mpf_[2] + f._mpf_[3]) > 4000:  # pylint: disable=protected-access
        raise Unreadable("float with an astronomically large exponent")
    r = sympy.Rational(f)
    fr = Fraction(int(r.p), int(r.q))
    if fr == 0:
        return fr
    dps = max(1, int(getattr(f, "_prec", 53) * 0.30103) if getattr(f, "_prec", 53) != 53 else 15)
    a = abs(fr)
    e10 = len(str(a.numerator)) - len(str(a.denominator))      # estimate of floor(log10 a), off by at most one
    while Fraction(10) ** e10 > a:
        e10 -= 1
    while Fraction(10) ** (e10 + 1) <= a:
        e10 += 1
    scale = Fraction(10) ** (e10 - dps + 1)
    q = a / scale
    m = q.numerator // q.denominator
    if 2 * (q - m) >= 1:            # ties away from zero (a tie needs an exactly representable 16-digit decimal)
        m += 1
    out = m * scale
    return out if fr > 0 else -out


def float_dec(f):
    """("dec", m, k) or ("neg", ("dec", m, k)) with value m * 10^k, digits exactly as in the 15-digit decimal"""
    fr = float_fraction(f)
    neg = fr < 0
    fr = abs(fr)
    k = 0
    while fr.denominator != 1:
        fr *= 10
        k -= 1
        if k < -400:
            raise Unreadable("float")
    m = fr.numerator
    while m and m % 10 == 0 and k < 0:
        m //= 10
        k += 1
    t = ("dec", m, k)
    return ("neg", t) if neg else t


def printed_name(e, mode: str) -> str:
    """the name under which the printers are expected to show a symbol-like object (reference, independent of them)"""
    from symplyphysics.core.symbols.symbols import DimensionSymbol  # pylint: disable=import-outside-toplevel
    if mode == "code":
        return e.display_name if isinstance(e, DimensionSymbol) else str(getattr(e, "name"))
    raw = e.display_latex if isinstance(e, DimensionSymbol) else str(getattr(e, "name"))
    return raw if isinstance(e, sympy.physics.units.Quantity) else latex_name(raw)


def name_clashes(expr, mode: str):
    """Per-equation distinctness of display names, independent of the Reader (works for structure-only items too):
    {printed name: [distinct objects]} for every name shared by two DIFFERENT symbols of the same syntactic category
    (plain symbols and quantities / bases of indexed families / heads of applied functions)."""
    from symplyphysics.core.operations.symbolic import Symbolic  # pylint: disable=import-outside-toplevel
    from sympy.core.function import AppliedUndef  # pylint: disable=import-outside-toplevel
    groups: dict = {}
    todo = [expr]
    while todo:
        top = todo.pop()
        for node in sympy.preorder_traversal(top):
            if isinstance(node, Symbolic):
                todo.append(node.factor)
                continue
            if isinstance(node, AppliedUndef):
                cat, obj = "fun", node.func
            elif isinstance(node, sympy.IndexedBase):
                cat, obj = "indexed", node
            elif isinstance(node, sympy.physics.units.Quantity) or (getattr(node, "is_Symbol", False)
                    and not isinstance(node, sympy.Idx)):
                cat, obj = "sym", node
            else:
                continue
            try:
                nm = printed_name(obj, mode)
            except Exception:  # pylint: disable=broad-except
                continue
            objs = groups.setdefault((cat, nm), [])
            if not any(o is obj or o == obj for o in objs):
                objs.append(obj)
    return {nm: objs for (cat, nm), objs in groups.items() if len(objs) > 1}


class Reader:
    def __init__(self, mode: str, special_ok: bool = True):
        assert mode in ("code", "latex")
        self.mode = mode
        self.special_ok = special_ok
        self.names: dict[str, set] = {}     # display name -> distinct SymPy objects printed under it
        self.special: set[str] = set()      # special heads met
        self.heads: set[str] = set()        # display names of applied (user) functions
        self.raw_latex: dict[str, str] = {}  # printed LaTeX name -> display_latex as declared
        self.owners: dict = {}               # (category, printed name) -> distinct objects printed under it
        self.clashes: dict[str, list] = {}   # printed name -> further distinct symbols of the same category
        self.assume: dict[str, str] = {}    # display name -> "pos" | "neg" | "nonneg" | "nz"  (declared assumptions)

    # ---- names ----------------------------------------------------------------------------------
    def name_of(self, e) -> str:
        from symplyphysics.core.symbols.symbols import DimensionSymbol  # pylint: disable=import-outside-toplevel
        if self.mode == "code":
            nm = e.display_name if isinstance(e, DimensionSymbol) else str(getattr(e, "name"))
        else:
            raw = e.display_latex if isinstance(e, DimensionSymbol) else str(getattr(e, "name"))
            # SymPy prints a Quantity through Quantity._latex, i.e. its latex_repr verbatim; every other symbol goes
            # through LatexPrinter._deal_with_super_sub
            nm = raw if isinstance(e, sympy.physics.units.Quantity) else latex_name(raw)
            self.raw_latex[nm] = raw
        self.names.setdefault(nm, set()).add(e)
        key = self.var_key(nm, e)
        kind = None
        if getattr(e, "is_positive", None):
            kind = "pos"
        elif getattr(e, "is_negative", None):
            kind = "neg"
        elif getattr(e, "is_nonnegative", None):
            kind = "nonneg"
        elif getattr(e, "is_nonzero", None) and getattr(e, "is_real", None):
            kind = "nz"
        if key in self.assume and self.assume[key] != kind:
            kind = None          # objects sharing the variable disagree: assume nothing
        self.assume[key] = kind
        return key

    def var_key(self, nm: str, e) -> str:
        """One value per PRINTED name: the first object printed as `nm` owns the variable `nm`; a DIFFERENT symbol of
        the same syntactic category printed under the same name gets a variable of its own (`nm #2`), which no
        rendering can mention -- so an equation that shows two symbols under one name cannot be proved equal to the
        original and is refuted numerically.  The base of an indexed family (m[i]) and a plain symbol (m) are
        different categories: `m = Sum(m[i], i)` is ordinary notation, not a clash."""
        cat = "indexed" if isinstance(e, sympy.IndexedBase) else "sym"
        owners = self.owners.setdefault((cat, nm), [])
        for i, o in enumerate(owners):
            if o is e or o == e:
                return nm if i == 0 else f"{nm} #{i + 1}"
        owners.append(e)
        if len(owners) > 1:
            self.clashes.setdefault(nm, []).append(e)
            return f"{nm} #{len(owners)}"
        return nm

    def _special(self, head: str, args):
        if not self.special_ok:
            raise StructureOnly(head)
        self.special.add(head)
        return ("phi", head, [self.read(a) for a in args])

    def _tuple(self, xs):
        return ("phi", "tuple", [self.read(x) for x in xs])

    # ---- nodes ----------------------------------------------------------------------------------
    def read(self, e):  # pylint: disable=too-many-return-statements,too-many-branches,too-many-statements
        from symplyphysics.core.symbols.symbols import DimensionSymbol, Function as SpFunction  # pylint: disable=import-outside-toplevel
        from symplyphysics.core.operations.symbolic import (Symbolic, Average, FiniteDifference,  # pylint: disable=import-outside-toplevel
            ExactDifferential, InexactDifferential)
        from symplyphysics.core.operations.sum_indexed import IndexedSum  # pylint: disable=import-outside-toplevel
        from symplyphysics.core.operations.product_indexed import IndexedProduct  # pylint: disable=import-outside-toplevel
        from sympy.core.function import AppliedUndef  # pylint: disable=import-outside-toplevel

        if isinstance(e, (tuple, sympy.Tuple)):
            if not self.special_ok:
                raise StructureOnly("tuple")
            return self._tuple(list(e))
        e = sympy.sympify(e)
        if isinstance(e, Symbolic):
            if not self.special_ok:
                raise StructureOnly(type(e).__name__)
            if isinstance(e, Average):
                return self._special("avg", [e.factor])
            if isinstance(e, FiniteDifference):
                return self._special("Delta", [e.factor])
            if isinstance(e, InexactDifferential):
                return self._special("delta", [e.factor])
            if isinstance(e, ExactDifferential):
                if e.wrap_code:
                    return self._special("d", [e.factor])
                inner = self.read(e.factor)
                if inner[0] != "var":
                    raise Unreadable("unwrapped differential of a compound expression")
                self.special.add("dX")
                return ("var", "d" + inner[1])
            raise Unreadable(f"Symbolic subclass {type(e).__name__}")
        if e.is_Integer:
            return ("num", Fraction(int(e)))
        if e.is_Rational:
            return ("num", Fraction(int(e.p), int(e.q)))
        if e.is_Float:
            return float_dec(e)
        if e is S.Pi:
            return ("pi",)
        if e is S.ImaginaryUnit:
            nm = "I" if self.mode == "code" else "i"
            self.names.setdefault(nm, set()).add(e)
            return ("var", self.var_key(nm, e))
        if e is S.Infinity:
            return ("var", "oo" if self.mode == "code" else "\\infty")
        if e is S.NegativeInfinity:
            return ("neg", ("var", "oo" if self.mode == "code" else "\\infty"))
        if e is S.Exp1:
            return ("fn", "exp", [("num", Fraction(1))])
        if e in (S.NaN, S.ComplexInfinity):
            raise Unreadable(str(e))
        if e.is_Symbol or isinstance(e, (sympy.physics.units.Quantity, sympy.Idx)):
            if isinstance(e, sympy.Idx):
                return ("var", self.name_of(e.label) if hasattr(e, "label") else str(e))
            return ("var", self.name_of(e))
        if isinstance(e, sympy.IndexedBase):
            return ("var", self.name_of(e))
        if e.is_Add:
            return ("add", [self.read(a) for a in e.args])
        if e.is_Mul:
            return ("mul", [self.read(a) for a in e.args])
        if isinstance(e, sympy.MatMul):
            if not self.special_ok:
                raise StructureOnly("MatMul")
            self.special.add("MatMul")
            return ("mul", [self.read(a) for a in e.args])
        if e.is_Pow:
            return self._pow(e.base, e.exp)
        if isinstance(e, sympy.exp):
            return ("fn", "exp", [self.read(e.args[0])])
        if isinstance(e, sympy.log):
            if len(e.args) == 2:
                if e.args[1] == S.Exp1:
                    return ("fn", "ln", [self.read(e.args[0])])
                return ("div", ("fn", "ln", [self.read(e.args[0])]), ("fn", "ln", [self.read(e.args[1])]))
            return ("fn", "ln", [self.read(e.args[0])])
        if isinstance(e, sympy.Abs):
            return ("fn", "Rabs", [self.read(e.args[0])])
        if isinstance(e, sympy.Derivative):
            args = [e.expr] + [v if n == 1 else (v, n) for v, n in e.variable_count]
            return self._special("Derivative", args)
        if isinstance(e, (sympy.Integral, sympy.Sum, sympy.Product)):
            args = [e.function] + [lim[0] if len(lim) == 1 else tuple(lim) for lim in e.limits]
            return self._special(type(e).__name__, args)
        if isinstance(e, IndexedSum):
            return self._special("Sum", list(e.args))
        if isinstance(e, IndexedProduct):
            return self._special("Product", list(e.args))
        if isinstance(e, sympy.Indexed):
            return self._special("index", [e.base] + list(e.indices))
        if isinstance(e, sympy.MatrixBase):
            if not self.special_ok:
                raise StructureOnly("Matrix")
            self.special.add("Matrix")
            rows, cols = e.shape
            if cols == 1 or rows == 1:
                lst = ("phi", "list", [self.read(x) for x in e])
                return lst if cols == 1 else ("phi", "T", [lst])
            return ("phi", "list", [("phi", "list", [self.read(e[r, c]) for c in range(cols)]) for r in range(rows)])
        if isinstance(e, sympy.Order):
            if any(p != 0 for p in e.point) or len(e.variables) > 1:
                raise Unreadable("Order with non-zero point")
            return self._special("O", [e.expr])
        if isinstance(e, AppliedUndef):
            f = e.func
            head = f.display_name if isinstance(f, DimensionSymbol) else f.__name__
            if self.mode == "latex":
                raise StructureOnly("applied function")
            self.heads.add(head)
            return self._special(head, list(e.args))
        if isinstance(e, SpFunction):
            raise Unreadable("unapplied Function")
        if isinstance(e, sympy.Function):
            fn = type(e).__name__
            if fn in KNOWN_FN and len(e.args) == 1:
                return ("fn", KNOWN_FN[fn], [self.read(e.args[0])])
            return self._special(fn, list(e.args))
        if isinstance(e, sympy.Equality):
            raise Unreadable("nested equation")
        raise Unreadable(f"{type(e).__name__}")

    def _pow(self, b, x):
        bt = self.read(b)
        if x.is_Integer:
            n = int(x)
            if n >= 0:
                return ("powi", bt, n)
            return ("inv", bt if n == -1 else ("powi", bt, -n))
        if x.is_Rational and int(x.q) == 2 and int(x.p) in (1, -1):
            return ("sqrt", bt) if int(x.p) == 1 else ("inv", ("sqrt", bt))
        return ("rpow", bt, self.read(x))

    def read_top(self, e):
        """Equation -> (lhs, rhs); expression -> (tree,)"""
        if isinstance(e, sympy.Equality):
            return (self.read(e.lhs), self.read(e.rhs))
        return (self.read(e),)

    def collisions(self):
        """printed names shared by distinct objects of ANY category (informational; same-category clashes are in
        self.clashes and make the semantic obligation fail)"""
        return {k: len(v) for k, v in self.names.items() if len(v) > 1}


# =================================================================================================
# rtree -> Coq / hypotheses / numbers
# =================================================================================================

def _z(n: int) -> str:
    return str(n) if n >= 0 else f"({n})"


def coq_string(s: str) -> str:
    return '"' + s.replace('"', '""') + '"'


class CoqEmit:
    """rtree -> Gallina R-term; names are mapped to variables x0, x1, ... in first-use order (shared table)."""

    def __init__(self):
        self.vars: dict[str, str] = {}

    def var(self, name: str) -> str:
        if name not in self.vars:
            self.vars[name] = f"x{len(self.vars)}"
        return self.vars[name]

    def t(self, r) -> str:  # pylint: disable=too-many-return-statements,too-many-branches
        k = r[0]
        if k == "raw":
            return r[1]
        if k == "num":
            fr = r[1]
            return _z(fr.numerator) if fr.denominator == 1 else f"({_z(fr.numerator)} / {fr.denominator})"
        if k == "dec":
            m, e = r[1], r[2]
            return f"({m} / {10 ** (-e)})" if e < 0 else str(m * 10**e)
        if k == "var":
            return self.var(r[1])
        if k == "pi":
            return "PI"
        if k == "add":
            return "(" + " + ".join(self.t(a) for a in r[1]) + ")" if r[1] else "0"
        if k == "mul":
            return "(" + " * ".join(self.t(a) for a in r[1]) + ")" if r[1] else "1"
        if k == "neg":
            return f"(- {self.t(r[1])})"
        if k == "sub":
            return f"({self.t(r[1])} - {self.t(r[2])})"
        if k == "div":
            return f"({self.t(r[1])} / {self.t(r[2])})"
        if k == "inv":
            return f"(/ {self.t(r[1])})"
        if k == "powi":
            return f"({self.t(r[1])} ^ {r[2]})"
        if k == "sqrt":
            return f"(sqrt {self.t(r[1])})"
        if k == "rpow":
            return f"(Rpower {self.t(r[1])} {self.t(r[2])})"
        if k == "fn":
            return f"({r[1]} {self.t(r[2][0])})"
        if k == "log2":
            return f"(ln {self.t(r[1])} / ln {self.t(r[2])})"
        if k == "phi":
            return f"(phi {coq_string(r[1])} [{'; '.join(self.t(a) for a in r[2])}])"
        raise ValueError(k)


def subtrees(r):
    yield r
    k = r[0]
    if k in ("add", "mul"):
        for a in r[1]:
            yield from subtrees(a)
    elif k in ("neg", "inv", "sqrt"):
        yield from subtrees(r[1])
    elif k in ("sub", "div", "rpow", "log2"):
        yield from subtrees(r[1])
        yield from subtrees(r[2])
    elif k == "powi":
        yield from subtrees(r[1])
    elif k in ("fn", "phi"):
        for a in r[2]:
            yield from subtrees(a)


def var_names(r) -> list[str]:
    out = []
    for t in subtrees(r):
        if t[0] == "var" and t[1] not in out:
            out.append(t[1])
    return out


def has_phi(r) -> bool:
    return any(t[0] == "phi" for t in subtrees(r))


def hyps(r):
    """Domain of definition of the reading over the reals, as a list of ("nz"|"pos"|"nonneg", rtree), with
    non-zero conditions factored through products, integer powers, roots and inverses."""
    out = []

    def add(kind, t):
        if (kind, t) not in out:
            out.append((kind, t))

    def nz(t):
        k = t[0]
        if k == "mul":
            for a in t[1]:
                nz(a)
        elif k == "powi":
            if t[2] != 0:
                nz(t[1])
        elif k == "inv":
            nz(t[1])
        elif k == "neg":
            nz(t[1])
        elif k == "sqrt":
            add("pos", t[1])
        elif k == "div":
            nz(t[1])
            nz(t[2])
        elif k in ("rpow",) or (k == "fn" and t[1] == "exp"):
            pass
        elif k in ("num", "dec"):
            add("nz", t)
        elif k == "pi":
            pass
        else:
            add("nz", t)

    for t in subtrees(r):
        k = t[0]
        if k == "inv":
            nz(t[1])
        elif k == "div":
            nz(t[2])
        elif k == "sqrt":
            add("nonneg", t[1])
        elif k == "rpow":
            add("pos", t[1])
        elif k == "fn" and t[1] == "ln":
            add("pos", t[2][0])
        elif k == "log2":
            add("pos", t[1])
            add("pos", t[2])
            add("nz", ("fn", "ln", [t[2]]))
    return out


def closed_value(t):
    """exact value of a closed arithmetic rtree (numbers only), else None"""
    try:
        v = evaluate(t, {}, exact=True)
    except (KeyError, ValueError, ZeroDivisionError, TypeError, OverflowError):
        return None
    return v


def hyp_text(em: CoqEmit, h) -> str:
    kind, t = h
    s = em.t(t)
    return {"nz": f"{s} <> 0", "pos": f"0 < {s}", "nonneg": f"0 <= {s}", "neg": f"{s} < 0"}[kind]


# ---- numeric evaluation ------------------------------------------------------------------------

def _phi_num(head: str, args):
    h = sum((i + 1) * ord(c) for i, c in enumerate(head)) % 97
    acc = complex(0.37 + h / 13.0)
    for i, a in enumerate(args):
        acc += (0.61 + 0.23 * i + h / 101.0) * a + 0.05 * (i + 1) * a * a
    return acc


_NUMFN = {"exp": cmath.exp, "ln": cmath.log, "sin": cmath.sin, "cos": cmath.cos, "tan": cmath.tan, "asin": cmath.asin,
    "acos": cmath.acos, "atan": cmath.atan, "sinh": cmath.sinh, "cosh": cmath.cosh, "tanh": cmath.tanh, "Rabs": abs,
    "sqrt": cmath.sqrt}


def _cz(v):
    """real numbers sit on the upper side of every branch cut"""
    v = complex(v)
    return complex(v.real, 0.0) if v.imag == 0 else v


def evaluate(r, val: dict, exact: bool = False):  # pylint: disable=too-many-return-statements,too-many-branches
    """Numeric value of an rtree at `val` (name -> number).  exact=True: Fractions only (raises on anything else)."""
    k = r[0]
    ev = lambda t: evaluate(t, val, exact)
    if k == "num":
        return r[1] if exact else complex(r[1])
    if k == "dec":
        fr = Fraction(r[1]) * Fraction(10) ** r[2]
        return fr if exact else complex(fr)
    if k == "var":
        return val[r[1]]
    if k == "pi":
        if exact:
            raise ValueError("pi")
        return complex(math.pi)
    if k == "add":
        return sum((ev(a) for a in r[1]), Fraction(0) if exact else 0j)
    if k == "mul":
        out = Fraction(1) if exact else 1 + 0j
        for a in r[1]:
            out = out * ev(a)
        return out
    if k == "neg":
        return 0 - ev(r[1])       # (not unary minus: keeps +0.0 imaginary parts, branch cuts are approached from above)
    if k == "sub":
        return ev(r[1]) - ev(r[2])
    if k == "div":
        return ev(r[1]) / ev(r[2])
    if k == "inv":
        return 1 / ev(r[1])
    if k == "powi":
        return ev(r[1]) ** r[2]
    if exact:
        raise ValueError(k)
    if k == "sqrt":
        return cmath.sqrt(_cz(ev(r[1])))
    if k == "rpow":
        b, x = _cz(ev(r[1])), ev(r[2])
        return cmath.exp(x * cmath.log(b))
    if k == "fn":
        return complex(_NUMFN[r[1]](_cz(ev(r[2][0]))))
    if k == "log2":
        return cmath.log(ev(r[1])) / cmath.log(ev(r[2]))
    if k == "phi":
        return _phi_num(r[1], [ev(a) for a in r[2]])
    raise ValueError(k)


def evaluate_mp(r, val: dict, dps: int = 60):
    """The same evaluation with mpmath at `dps` digits (confirms a difference found with floats, so that rounding
    and cancellation in double precision can never produce a reported violation)."""
    import mpmath  # pylint: disable=import-outside-toplevel
    with mpmath.workdps(dps):
        mval = {}
        for k, v in val.items():
            if isinstance(v, complex):
                mval[k] = mpmath.mpc(mpmath.mpf(repr(v.real)), mpmath.mpf(repr(v.imag)))
            else:
                mval[k] = mpmath.mpf(repr(v)) if isinstance(v, float) else mpmath.mpf(v)
        fn = {"exp": mpmath.exp, "ln": mpmath.log, "sin": mpmath.sin, "cos": mpmath.cos, "tan": mpmath.tan,
            "asin": mpmath.asin, "acos": mpmath.acos, "atan": mpmath.atan, "sinh": mpmath.sinh, "cosh": mpmath.cosh,
            "tanh": mpmath.tanh, "Rabs": abs, "sqrt": mpmath.sqrt}

        def cz(v):
            v = mpmath.mpmathify(v)
            return mpmath.mpf(v.real) if mpmath.im(v) == 0 else v

        def ev(t):  # pylint: disable=too-many-return-statements,too-many-branches
            k = t[0]
            if k == "num":
                return mpmath.mpf(t[1].numerator) / t[1].denominator
            if k == "dec":
                return mpmath.mpf(t[1]) * mpmath.mpf(10) ** t[2]
            if k == "var":
                return mval[t[1]]
            if k == "pi":
                return +mpmath.pi
            if k == "add":
                return mpmath.fsum([ev(a) for a in t[1]]) if t[1] else mpmath.mpf(0)
            if k == "mul":
                out = mpmath.mpf(1)
                for a in t[1]:
                    out = out * ev(a)
                return out
            if k == "neg":
                return 0 - ev(t[1])
            if k == "sub":
                return ev(t[1]) - ev(t[2])
            if k == "div":
                return ev(t[1]) / ev(t[2])
            if k == "inv":
                return 1 / ev(t[1])
            if k == "powi":
                b = ev(t[1])
                if t[2] > 1 and abs(b) > 1 and t[2] * mpmath.log(abs(b)) > 10000:
                    raise OverflowError("huge power")
                return b ** t[2]
            if k == "sqrt":
                return mpmath.sqrt(cz(ev(t[1])))
            if k == "rpow":
                arg = ev(t[2]) * mpmath.log(cz(ev(t[1])))
                if abs(arg) > 10000:
                    raise OverflowError("power tower")
                return mpmath.exp(arg)
            if k == "fn":
                x = cz(ev(t[2][0]))
                if t[1] in ("exp", "sinh", "cosh", "tanh", "sin", "cos", "tan") and abs(x) > 10000:
                    raise OverflowError("huge argument")
                return fn[t[1]](x)
            if k == "phi":
                h = sum((i + 1) * ord(ch) for i, ch in enumerate(t[1])) % 97
                acc = mpmath.mpf("0.37") + mpmath.mpf(h) / 13
                for i, a in enumerate(t[2]):
                    x = ev(a)
                    acc += (mpmath.mpf("0.61") + mpmath.mpf("0.23") * i + mpmath.mpf(h) / 101) * x + mpmath.mpf("0.05") * (i + 1) * x * x
                return acc
            raise ValueError(k)

        return mpmath.mpmathify(ev(r))


def confirmed_different(orig, parsed, val) -> bool:
    """a float-level difference counts only if it persists at 60 digits"""
    import mpmath  # pylint: disable=import-outside-toplevel
    try:
        with mpmath.workdps(60):
            a = evaluate_mp(orig, val)
            try:
                b = evaluate_mp(parsed, val)
            except (ZeroDivisionError, ValueError, KeyError):
                return True
            except (OverflowError, MemoryError):
                return False
            if not (mpmath.isfinite(a) and mpmath.isfinite(b)):
                return False
            return abs(a - b) > mpmath.mpf(10) ** (-30) * max(1, abs(a), abs(b))
    except (ZeroDivisionError, ValueError, KeyError, OverflowError, TypeError, MemoryError):
        return False


def close(a, b, tol=1e-9) -> bool:
    if a != a or b != b:  # nan
        return False
    return abs(a - b) <= tol * max(1.0, abs(a), abs(b))


def find_distinguishing(rng, orig, parsed, hyp_list, tries=60):
    """Seeded search for a valuation (satisfying the domain hypotheses) at which two readings differ.
    Returns (valuation, value_orig, value_parsed) or None."""
    names = []
    for t in [orig, parsed] + [h[1] for h in hyp_list]:
        for n in var_names(t):
            if n not in names:
                names.append(n)
    pools = [
        lambda: rng.choice([2, 3, 5, 7, 1.5, 0.5, 2.5, 4]),
        lambda: round(rng.uniform(0.2, 6.0), 3),
        lambda: rng.choice([-1, 1]) * round(rng.uniform(0.2, 6.0), 3),
        lambda: rng.choice([-3, -2, -1.5, 2, 3, 0.25]),
    ]
    ok_points = 0
    for i in range(tries):
        pool = pools[i % len(pools)] if i >= 4 else pools[0 if i < 2 else 1]
        val = {n: pool() for n in names}
        try:
            good = True
            for kind, t in hyp_list:
                v = evaluate(t, val)
                if abs(v.imag) > 1e-12:
                    good = False
                    break
                x = v.real
                if (kind == "nz" and abs(x) < 1e-9) or (kind == "pos" and x <= 1e-9) or (kind == "nonneg" and x < 0) \
                        or (kind == "neg" and x >= -1e-9):
                    good = False
                    break
            if not good:
                continue
            a = evaluate(orig, val)
        except (ZeroDivisionError, OverflowError, ValueError, KeyError):
            continue
        ok_points += 1
        if a != a or abs(a) > 1e9:
            continue        # the original overflows or sits next to a pole here: rounding decides, nothing to compare
        try:
            b = evaluate(parsed, val)
        except KeyError as e:
            return (val, a, f"unknown name {e}")
        except (ZeroDivisionError, OverflowError, ValueError) as e:
            if confirmed_different(orig, parsed, val):
                return (val, a, f"undefined: {type(e).__name__}")
            continue
        if not close(a, b) and confirmed_different(orig, parsed, val):
            return (val, a, b)
    return None


# =================================================================================================
# Coq's printed aexpr  ->  python tree
# =================================================================================================
# python aexpr: ("num", m, e) ("var", s) ("neg", a) ("bin", op, a, b) ("call", f, [a..])

_TOK = re.compile(r'\s*(?:(?P<str>"(?:[^"]|"")*")|(?P<num>-?\d+)(?:%[A-Za-z]+)?|(?P<id>[A-Za-z_][A-Za-z0-9_\.\']*)|(?P<p>[()\[\];]))')


def _coq_tokens(text: str):
    pos = 0
    out = []
    text = text.strip()
    while pos < len(text):
        m = _TOK.match(text, pos)
        if not m:
            raise ValueError(f"cannot tokenise Coq output at {text[pos:pos + 40]!r}")
        pos = m.end()
        if m.group("str") is not None:
            out.append(("str", m.group("str")[1:-1].replace('""', '"')))
        elif m.group("num") is not None:
            out.append(("num", int(m.group("num"))))
        elif m.group("id") is not None:
            out.append(("id", m.group("id")))
        else:
            out.append(("p", m.group("p")))
        # swallow a scope suffix after a closing parenthesis: (…)%Z
        m2 = re.compile(r"%[A-Za-z]+").match(text, pos)
        if m2:
            pos = m2.end()
    return out


def parse_coq_option_aexpr(text: str):
    """`Some (...)` -> tree ; `None` -> None"""
    toks = _coq_tokens(text)
    pos = [0]

    def peek():
        return toks[pos[0]] if pos[0] < len(toks) else None

    def take():
        t = toks[pos[0]]
        pos[0] += 1
        return t

    def atom():
        t = take()
        if t == ("p", "("):
            v = term()
            assert take() == ("p", ")"), "expected )"
            return v
        if t == ("p", "["):
            lst = []
            if peek() == ("p", "]"):
                take()
                return lst
            while True:
                lst.append(term())
                t2 = take()
                if t2 == ("p", "]"):
                    return lst
                assert t2 == ("p", ";"), "expected ;"
        if t[0] in ("str", "num"):
            return t[1]
        if t[0] == "id":
            return ("id", t[1])
        raise ValueError(f"unexpected token {t}")

    def term():
        head = atom()
        if isinstance(head, tuple) and head[0] == "id":
            name = head[1]
            arity = {"Some": 1, "None": 0, "ANum": 2, "AVar": 1, "ANeg": 1, "ABin": 3, "ACall": 2, "nil": 0,
                "OEq": 0, "OAdd": 0, "OSub": 0, "OMul": 0, "ODiv": 0, "OPow": 0}.get(name)
            if arity is None:
                raise ValueError(f"unknown constructor {name}")
            args = [atom() for _ in range(arity)]
            args = [a if not (isinstance(a, tuple) and a[0] == "id") else term_of_id(a) for a in args]
            return build(name, args)
        return head

    def term_of_id(a):
        return build(a[1], [])

    def build(name, args):
        if name == "Some":
            return ("some", args[0])
        if name == "None":
            return None
        if name == "nil":
            return []
        if name == "ANum":
            return ("num", int(args[0]), int(args[1]))
        if name == "AVar":
            return ("var", args[0])
        if name == "ANeg":
            return ("neg", args[0])
        if name == "ABin":
            return ("bin", args[0], args[1], args[2])
        if name == "ACall":
            return ("call", args[0], list(args[1]))
        if name.startswith("O"):
            return name
        raise ValueError(name)

    v = term()
    if pos[0] != len(toks):
        raise ValueError("trailing tokens in Coq output")
    if v is None:
        return None
    assert v[0] == "some"
    return v[1]


def aexpr_lit(a) -> str:
    k = a[0]
    if k == "num":
        return f"(ANum {a[1]}%N {_z(a[2])}%Z)"
    if k == "var":
        return f"(AVar {coq_string(a[1])})"
    if k == "neg":
        return f"(ANeg {aexpr_lit(a[1])})"
    if k == "bin":
        return f"(ABin {a[1]} {aexpr_lit(a[2])} {aexpr_lit(a[3])})"
    if k == "call":
        return f"(ACall {coq_string(a[1])} [{'; '.join(aexpr_lit(x) for x in a[2])}])"
    raise ValueError(k)


def _nat_lit(a):
    return a[1] if a[0] == "num" and a[2] == 0 else None


EULER = ("fn", "exp", [("num", Fraction(1))])


def aexpr_rtree(a, consts=None):  # pylint: disable=too-many-return-statements
    """Mirror of CodeSyntax.aeval (the kernel re-checks the mirror by conversion: `change`).
    `consts` maps names to the rtree of the value the environment gives them (e.g. E -> exp 1)."""
    k = a[0]
    if consts:
        return _aexpr_rtree_c(a, consts)
    if k == "num":
        return ("dec", a[1], a[2])
    if k == "var":
        return ("pi",) if a[1] == "pi" else ("var", a[1])
    if k == "neg":
        return ("neg", aexpr_rtree(a[1]))
    if k == "bin":
        op, x, y = a[1], a[2], a[3]
        if op == "OEq":
            return ("num", Fraction(0))
        if op == "OAdd":
            return ("add", [aexpr_rtree(x), aexpr_rtree(y)])
        if op == "OSub":
            return ("sub", aexpr_rtree(x), aexpr_rtree(y))
        if op == "OMul":
            return ("mul", [aexpr_rtree(x), aexpr_rtree(y)])
        if op == "ODiv":
            return ("div", aexpr_rtree(x), aexpr_rtree(y))
        if op == "OPow":
            n = _nat_lit(y)
            if n is not None:
                return ("powi", aexpr_rtree(x), n)
            if y[0] == "neg" and _nat_lit(y[1]) is not None:
                return ("inv", ("powi", aexpr_rtree(x), _nat_lit(y[1])))
            return ("rpow", aexpr_rtree(x), aexpr_rtree(y))
        raise ValueError(op)
    if k == "call":
        f, args = a[1], [aexpr_rtree(x) for x in a[2]]
        if len(args) == 1 and f in KNOWN_FN:
            return ("fn", KNOWN_FN[f], args) if KNOWN_FN[f] != "sqrt" else ("sqrt", args[0])
        if len(args) == 2 and f == "log":
            return ("div", ("fn", "ln", [args[0]]), ("fn", "ln", [args[1]]))
        return ("phi", f, args)
    raise ValueError(k)


def _subst_consts(r, consts):
    k = r[0]
    if k == "var" and r[1] in consts:
        return consts[r[1]]
    if k in ("add", "mul"):
        return (k, [_subst_consts(a, consts) for a in r[1]])
    if k in ("neg", "inv", "sqrt"):
        return (k, _subst_consts(r[1], consts))
    if k in ("sub", "div", "rpow"):
        return (k, _subst_consts(r[1], consts), _subst_consts(r[2], consts))
    if k == "powi":
        return (k, _subst_consts(r[1], consts), r[2])
    if k in ("fn", "phi"):
        return (k, r[1], [_subst_consts(a, consts) for a in r[2]])
    return r


def _aexpr_rtree_c(a, consts):
    return _subst_consts(aexpr_rtree(a), consts)


def aexpr_names(a):
    out = []

    def go(x):
        if x[0] == "var":
            if x[1] not in out:
                out.append(x[1])
        elif x[0] == "neg":
            go(x[1])
        elif x[0] == "bin":
            go(x[2])
            go(x[3])
        elif x[0] == "call":
            for y in x[2]:
                go(y)
    go(a)
    return out


def aexpr_show(a) -> str:
    """fully bracketed rendering of the parsed tree (for messages)"""
    k = a[0]
    if k == "num":
        return str(Fraction(a[1]) * Fraction(10) ** a[2])
    if k == "var":
        return a[1]
    if k == "neg":
        return f"(-{aexpr_show(a[1])})"
    if k == "bin":
        sym = {"OEq": "=", "OAdd": "+", "OSub": "-", "OMul": "*", "ODiv": "/", "OPow": "^"}[a[1]]
        return f"({aexpr_show(a[2])} {sym} {aexpr_show(a[3])})"
    return f"{a[1]}({', '.join(aexpr_show(x) for x in a[2])})"


# =================================================================================================
# scripted congruence: which applications of the two readings are meant to be equal
# =================================================================================================

def _freeze(r):
    if isinstance(r, list):
        return tuple(_freeze(x) for x in r)
    if isinstance(r, tuple):
        return tuple(_freeze(x) for x in r)
    return r


def _fingerprint(r, val):
    try:
        v = evaluate(r, val)
    except (ZeroDivisionError, OverflowError, ValueError, KeyError, TypeError):
        return None
    if v != v or abs(v) > 1e200:
        return None
    return v


def _node_class(r):
    k = r[0]
    if k == "fn":
        return "fn:" + r[1]
    if k == "sqrt":
        return "sqrt"
    if k == "rpow":
        return "rpow"
    if k == "phi":
        return f"phi:{r[1]}:{len(r[2])}"
    if k == "powi" and r[1][0] in ("add", "sub", "mul", "div", "neg") and r[2] >= 2:
        return f"powi:{r[2]}"       # (sum)^n: make the bases syntactically equal instead of letting ring expand them
    return None


def has_inverse(r) -> bool:
    return any(t[0] in ("inv", "div") for t in subtrees(r))


def cong_script(em: CoqEmit, parsed, orig, all_names):
    """Tactic steps that rewrite applications (and denominators) of the parsed reading into the equal-valued
    applications of the original reading, innermost first.  The pairing is guessed numerically; every step is then
    PROVED in Coq (assert ... by ...), so a wrong guess can only make a step fail, never make a lemma pass."""
    val = {}
    for i, n in enumerate(all_names):
        h = sum((j + 3) * ord(ch) for j, ch in enumerate(n)) % 89
        val[n] = 0.731 + 0.137 * i + h / 97.0
    classes: dict[str, list] = {}
    for t in subtrees(orig):
        cl = _node_class(t)
        if cl:
            classes.setdefault(cl, []).append((t, _fingerprint(t, val)))
        den = t[1] if t[0] == "inv" else (t[2] if t[0] == "div" else None)
        if den is not None and den[0] in ("add", "sub", "mul", "neg"):
            classes.setdefault("den", []).append((den, _fingerprint(den, val)))
        if t[0] in ("add", "sub") and has_inverse(t):
            # sums that contain quotients: made syntactically equal wherever they occur (e.g. as one FACTOR of a
            # denominator), so that `/ S` is the same atom on both sides and no field side condition is needed
            classes.setdefault("sum", []).append((t, _fingerprint(t, val)))
    # closed arithmetic sub-terms (e.g. 6.02 * 10^23 against 602000000000000000000000) are matched by exact value
    orig_closed = {}
    for t in subtrees(orig):
        if t[0] in ("num", "dec", "mul", "div", "powi", "neg", "inv", "add", "sub"):
            v = closed_value(t)
            if v is not None and (v not in orig_closed or t[0] in ("num", "dec")):
                orig_closed[v] = t
    steps = []
    memo = {}

    def lookup(cl, fp, text, recip=False):
        best = None
        for m, mfp in classes.get(cl, []):
            if fp is None or mfp is None:
                continue
            target = 1 / mfp if recip and abs(mfp) > 1e-200 else mfp
            if recip and abs(mfp) <= 1e-200:
                continue
            if close(fp, target, 1e-10):
                mt = em.t(m)
                if mt == text:
                    return m, mt
                if best is None:
                    best = (m, mt)
        return best

    def rebuild(n):
        k = n[0]
        if k in ("add", "mul"):
            return (k, [rw(a) for a in n[1]])
        if k in ("neg", "inv", "sqrt"):
            return (k, rw(n[1]))
        if k in ("sub", "rpow"):
            return (k, rw(n[1]), rw(n[2]))
        if k == "div":
            return (k, rw(n[1]), rw_den(n[2]))
        if k == "powi":
            return (k, rw(n[1]), n[2])
        if k in ("fn", "phi"):
            return (k, n[1], [rw(a) for a in n[2]])
        return n

    def rw_den(n):
        n2 = rw(n)
        if n[0] not in ("add", "sub", "mul", "neg"):
            return n2
        text = em.t(n2)
        hit = lookup("den", _fingerprint(n, val), text)
        if hit and hit[1] != text:
            steps.append(f"try (rd_replace {text} {hit[1]} ltac:(rd_arg))")
            return ("raw", hit[1])
        return n2

    def rw(n):
        key = _freeze(n)
        if key in memo:
            return memo[key]
        if n[0] in ("mul", "div", "powi", "inv", "add", "sub", "dec", "num"):
            v = closed_value(n)
            if v is not None and v in orig_closed:
                text, target = em.t(n), em.t(orig_closed[v])
                if text != target:
                    steps.append(f"try (rd_replace {text} {target} ltac:(rd_closed))")
                memo[key] = ("raw", target)
                return memo[key]
        n2 = rebuild(n)
        out = n2
        if n[0] in ("add", "sub") and has_inverse(n):
            text = em.t(n2)
            hit = lookup("sum", _fingerprint(n, val), text)
            if hit:
                if hit[1] != text:
                    steps.append(f"try (rd_replace {text} {hit[1]} ltac:(rd_arg))")
                memo[key] = ("raw", hit[1])
                return memo[key]
        cl = _node_class(n)
        if cl:
            text = em.t(n2)
            fp = _fingerprint(n, val)
            hit = lookup(cl, fp, text)
            if hit:
                if hit[1] != text:
                    steps.append(f"try (rd_replace {text} {hit[1]} ltac:(rd_eq))")
                out = ("raw", hit[1])
            elif cl in ("fn:exp", "rpow"):
                hit = lookup(cl, fp, text, recip=True)
                if hit:
                    steps.append(f"try (rd_replace {text} (/ {hit[1]}) ltac:(rd_eq))")
                    out = ("raw", f"(/ {hit[1]})")
        memo[key] = out
        return out

    rw(parsed)
    return steps


# =================================================================================================
# lemma text
# =================================================================================================

IDENT = re.compile(r"^[A-Za-z_][A-Za-z0-9_]*$")


def build_lemma(kind: str, idx: int, parse_call: str, s: str, parsed, orig_sides, tactic: str, assume=None, euler="E"):
    """One obligation:  parse(s) = Some a   /\\   forall phi x.., hyps -> aeval rho phi a_side = [[orig_side]]  (per side).

    parse_call : e.g. 'parse_code [..names..]'  (applied to the string literal)
    parsed     : python aexpr returned by Coq for s
    orig_sides : tuple of rtrees (reference reading of the original), 1 (expression) or 2 (equation)
    Returns (statement, proof, info) or raises ValueError when the shapes do not match."""
    if len(orig_sides) == 2:
        if not (parsed[0] == "bin" and parsed[1] == "OEq"):
            raise ValueError("rendering of an equation does not parse as an equation")
        psides = (parsed[2], parsed[3])
    else:
        psides = (parsed,)
    em = CoqEmit()
    # variables: names of the original first (display names), then whatever else the rendering mentions
    for t in orig_sides:
        for n in var_names(t):
            em.var(n)
    # the identifier E denotes Euler's number unless a symbol of the expression is displayed as E
    consts = {}
    if euler and euler not in em.vars and any(euler in aexpr_names(p) for p in psides):
        consts[euler] = EULER
    prt = [aexpr_rtree(p, consts) for p in psides]
    for t in prt:
        for n in var_names(t):
            em.var(n)
    hs = []
    for n, kd in (assume or {}).items():
        if kd and n in em.vars:
            hs.append((kd, ("var", n)))
    for t in orig_sides:
        for h in hyps(t):
            if h not in hs and not (h[0] in ("nz", "nonneg") and ("pos", h[1]) in hs):
                hs.append(h)
    hyp_txt = [hyp_text(em, h) for h in hs]
    rho = "(env_of [" + "; ".join([f"({coq_string(n)}, {v})" for n, v in em.vars.items()] +
        [f"({coq_string(n)}, {em.t(t)})" for n, t in consts.items()]) + "])"
    goals = []
    changes = []
    for p, prtree, o in zip(psides, prt, orig_sides):
        lhs = f"aeval {rho} phi {aexpr_lit(p)}"
        rhs = em.t(o)
        goals.append(f"{lhs} = {rhs}")
        steps = cong_script(em, prtree, o, list(em.vars))
        changes.append("; ".join([f"change ({em.t(prtree)} = {rhs})"] + steps))
    binder = f"forall (phi : string -> list R -> R) ({' '.join(em.vars.values())} : R), " if em.vars else \
        "forall (phi : string -> list R -> R), "
    sem = binder + "".join(f"{h} -> " for h in hyp_txt) + " /\\ ".join(f"({g})" for g in goals)
    stmt = f"{parse_call} {coq_string(s)} = Some {aexpr_lit(parsed)} /\\ ({sem})"
    if len(goals) == 2:
        body = f"intros; split; [ {changes[0]}; {tactic} | {changes[1]}; {tactic} ]"
    else:
        body = f"intros; {changes[0]}; {tactic}"
    proof = f"split; [ vm_compute; reflexivity | {body} ]."
    info = {"vars": dict(em.vars), "hyps": hyp_txt, "hyp_trees": hs, "parsed_rtrees": prt, "consts": consts}
    return stmt, proof, info


# =================================================================================================
# generator of canonical expressions
# =================================================================================================

class ExprGen:
    """Seeded generator of auto-evaluated SymPy trees over symbols, integers, rationals, floats, powers (+-integer,
    +-1/2, p/q, symbolic), roots, products with negative factors, nested quotients, sums in denominators and
    elementary functions, weighted toward bracket-sensitive shapes."""

    FUNCS = ["exp", "log", "sin", "cos", "tan", "atan", "sinh", "cosh", "tanh", "Abs", "sqrt", "asin", "acos"]

    def __init__(self, rng, symbols):
        self.rng = rng
        self.syms = symbols

    @staticmethod
    def _small(x) -> bool:
        if not x.is_Number:
            return True
        if x.is_Rational:
            return len(str(abs(int(x.p)))) <= 9 and len(str(int(x.q))) <= 9
        return x.is_Float and 1e-30 < abs(float(x)) < 1e30

    def pw(self, b, x):
        """Pow with a guard against numeric blow-up (number ** number is kept small)"""
        if b.is_Number and x.is_Number:
            if not (self._small(b) and x.is_Rational and abs(x) <= 5 and int(x.q) <= 4 and abs(b) <= 1000):
                b = self.rng.choice(self.syms)
        return sympy.Pow(b, x)

    def tame(self, e):
        """replace an over-large numeric result by a small literal"""
        if e.is_Number and not self._small(e):
            return sympy.Integer(self.rng.choice([2, 3, 5]))
        return e

    def leaf(self):
        r = self.rng.random()
        if r < 0.62:
            return self.rng.choice(self.syms)
        if r < 0.80:
            return sympy.Integer(self.rng.choice([1, 2, 3, 4, 5, 7, 10, -1, -2, -3]))
        if r < 0.90:
            return sympy.Rational(self.rng.choice([1, 2, 3, 5, -1, -3]), self.rng.choice([2, 3, 4, 7]))
        if r < 0.97:
            return sympy.Float(self.rng.choice([0.5, 2.5, 1.25, 0.1, 3.75, 27.3, 1e-3, 2.405, 6.02e23, -0.4]))
        return sympy.pi

    def exponent(self, depth):
        r = self.rng.random()
        if r < 0.30:
            return sympy.Integer(self.rng.choice([2, 3, 4, -1, -2, -3]))
        if r < 0.50:
            return sympy.Rational(self.rng.choice([1, -1]), 2)
        if r < 0.65:
            return sympy.Rational(self.rng.choice([1, 3, -3, 2, -2, 5, -1]), self.rng.choice([3, 2, 4]))
        if r < 0.80:
            return self.rng.choice(self.syms)
        if r < 0.85:
            return -self.rng.choice(self.syms)
        return self.expr(depth - 1)

    def expr(self, depth):
        return self.tame(self._expr(depth))

    def _expr(self, depth):  # pylint: disable=too-many-return-statements,too-many-branches
        rng = self.rng
        if depth <= 0 or rng.random() < 0.12:
            return self.leaf()
        sub = lambda: self.expr(depth - 1)
        r = rng.random()
        if r < 0.16:
            return sympy.Add(*[sub() for _ in range(rng.choice([2, 2, 3]))])
        if r < 0.22:
            return sub() - sub()
        if r < 0.38:
            return sympy.Mul(*[sub() for _ in range(rng.choice([2, 2, 3]))])
        if r < 0.50:
            return sub() / sub()
        if r < 0.55:
            return -sub()
        if r < 0.70:
            return self.pw(sub(), self.exponent(depth))
        if r < 0.80:
            f = rng.choice(self.FUNCS)
            a = sub()
            return sympy.sqrt(a) if f == "sqrt" else getattr(sympy, f)(a)
        return self.shape(depth)

    def shape(self, depth):  # pylint: disable=too-many-return-statements
        """bracket-sensitive templates"""
        rng = self.rng
        a, b, c, d = (self.expr(depth - 1) for _ in range(4))
        pw = self.pw
        n = sympy.Integer(rng.choice([2, 3, 4, 5]))
        k = rng.randrange(36)
        if k == 0:
            return a / (b * c)
        if k == 1:
            return a / b / c
        if k == 2:
            return -(a + b)
        if k == 3:
            return pw(a + b, c)
        if k == 4:
            return pw(a, pw(b, c))
        if k == 5:
            return pw(pw(a, b), c)
        if k == 6:
            return pw(-a, n)
        if k == 7:
            return a - (b - c)
        if k == 8:
            return 1 / (a / b)
        if k == 9:
            return pw(a, sympy.Rational(-1, 2))
        if k == 10:
            return (a + b) / (c + d)
        if k == 11:
            return -a / b
        if k == 12:
            return a * (-b)
        if k == 13:
            return pw(a * b, sympy.Rational(rng.choice([-1, 1, -3, 3]), 2))
        if k == 14:
            return pw(a, -b)
        if k == 15:
            return a / (b + c) - d
        if k == 16:
            return pw(a / b, n)
        if k == 17:
            return a * (b + c) * d
        if k == 18:
            return -pw(a * b, n)
        if k == 19:
            return a / (b / c)
        if k == 20:
            return (a - b) * (c - d) / (a + d)
        if k == 21:
            return 1 / (a + 1 / (b + c))
        # --- products of signs across numerator and denominator (denominators that are sums of negative terms) ---
        s1, s2, s3 = (rng.choice(self.syms) for _ in range(3))
        m = sympy.Integer(rng.choice([2, 3, 5, 10]))
        if k == 22:
            return -a / (-s1 - s2)
        if k == 23:
            return -n * a * s3 / (-s1 - s2)
        if k == 24:
            return a / (-s1 - s2)
        if k == 25:
            return -s1 * s2 / (-s3 - n * s1)
        if k == 26:
            return (-s1 - s2) / (-s3 - s1)
        if k == 27:
            return -a / (s1 - s2) + s3 / (-s1 - n)
        if k == 28:
            return -sympy.Rational(int(n), 7) * s3 / (-s1 - s2 - s3)
        # --- a numeric coefficient next to a power of a number (the LaTeX needs \cdot between the numerals) ---
        if k == 29:
            return n * pw(m, s1)
        if k == 30:
            return 7 * pw(sympy.Integer(10), s1) / b
        if k == 31:
            return sympy.Rational(3, 2) * pw(sympy.Integer(5), a)
        if k == 32:
            return sympy.Float(2.5) * pw(sympy.Integer(10), -s1 / s2) + n * pw(m, n)
        if k == 33:
            return n * pw(m, -s1) * c
        # --- reciprocal exponents and chained quotients ---
        if k == 34:
            return pw(a, 1 / s1) + pw(s2, 1 / sympy.sqrt(s3))
        return a / b / (c + d)

    def sample(self, depth=None):
        depth = depth if depth is not None else self.rng.choice([2, 2, 3, 3, 4])
        return self.expr(depth)


# =================================================================================================
# the validation pipeline shared by C17 / C18
# =================================================================================================

PREAMBLE = """From Coq Require Import String List ZArith NArith Reals Lra Lia Psatz Field.
From VP Require Import Base.RTac Model.CodeSyntax Proofs.CodeSyntaxProofs.
Import ListNotations.
Local Open Scope string_scope.
Local Open Scope R_scope.
Set Printing Width 100000.
Set Printing Depth 100000.
"""
PREAMBLE_TEX = PREAMBLE.replace("Model.CodeSyntax ", "Model.CodeSyntax Model.LatexSyntax ")


def names_lit(names) -> str:
    return "[" + "; ".join(coq_string(n) for n in names) + "]"


def aexpr_heads(a):
    out = []

    def go(x):
        if x[0] == "neg":
            go(x[1])
        elif x[0] == "bin":
            go(x[2])
            go(x[3])
        elif x[0] == "call":
            if x[1] not in out:
                out.append(x[1])
            for y in x[2]:
                go(y)
    go(a)
    return out


def phi_heads(r):
    return {t[1] for t in subtrees(r) if t[0] == "phi"}


RESERVED_HEADS = {"tuple", "list", "index", "T"}


def parse_pass(ctx, tag: str, parse_fn: str, cases, chunk: int = 400, preamble: str = PREAMBLE):
    """First Coq pass: evaluate `parse_fn names s` with vm_compute for every case; fills c['parsed'] (python aexpr
    or None)."""
    from . import coqrun  # pylint: disable=import-outside-toplevel
    from concurrent.futures import ThreadPoolExecutor  # pylint: disable=import-outside-toplevel
    chunks = [cases[i:i + chunk] for i in range(0, len(cases), chunk)]

    def job(k):
        terms = [f"{parse_fn} {names_lit(c['names'])} {coq_string(c['s'])}" for c in chunks[k]]
        return coqrun.eval_terms(ctx, f"{tag}_parse_{k:03d}", preamble, terms, timeout=600)

    with ThreadPoolExecutor(max_workers=coqrun.NPROC) as ex:
        results = list(ex.map(job, range(len(chunks))))
    for ch, res in zip(chunks, results):
        if len(res) != len(ch):
            raise coqrun.CoqError(f"{tag}: parse pass returned {len(res)} results for {len(ch)} terms")
        for c, txt in zip(ch, res):
            c["parsed_text"] = txt
            c["parsed"] = parse_coq_option_aexpr(txt)


def classify_and_build(prop: str, cases, parse_fn: str, tactic: str = "rd_solve"):
    """After parse_pass: for every case decide
         'lemma'          -> c['lemma'] = coqrun.Lemma(...)
         'structure_only' -> nothing to prove semantically (reason in c['reason'])
         'bad'            -> c['bad'] = (what, found_input) : the rendering is not readable / uses foreign names
    """
    from . import coqrun  # pylint: disable=import-outside-toplevel
    for i, c in enumerate(cases):
        c["status"] = None
        if c.get("sides") is None:
            c["status"] = "structure_only"
            continue
        a = c["parsed"]
        if a is None:
            c["status"] = "bad"
            hint = ""
            if parse_fn == "parse_tex" and re.search(r"[0-9]\s+[0-9]", c["s"]):
                hint = " (two numerals are separated only by blanks: TeX typesets them as ONE number, not as a product)"
            c["bad"] = (f"rendering does not parse under the reference grammar{hint}: {c['s']!r}", True)
            continue
        known = set()
        heads = set()
        for t in c["sides"]:
            known.update(var_names(t))
            heads.update(phi_heads(t))
        foreign = [n for n in aexpr_names(a) if n not in known and n != "pi" and n != c.get("euler", "E")]
        if foreign:
            c["status"] = "bad"
            c["bad"] = (f"rendering mentions names that are not display names of the expression: {foreign} in {c['s']!r}", True)
            continue
        fheads = [h for h in aexpr_heads(a) if h not in heads and h not in KNOWN_FN and h != "log" and h not in RESERVED_HEADS]
        if fheads:
            c["status"] = "bad"
            c["bad"] = (f"rendering applies heads that the expression does not contain: {fheads} in {c['s']!r}", True)
            continue
        try:
            stmt, proof, info = build_lemma(prop, i, f"{parse_fn} {names_lit(c['names'])}", c["s"], a, c["sides"], tactic,
                c.get("assume"), c.get("euler", "E"))
        except ValueError as e:
            c["status"] = "bad"
            c["bad"] = (f"{e}: {c['s']!r}", True)
            continue
        # closed hypotheses must hold, otherwise the original is undefined over the reals (nothing to compare)
        vac = None
        for kind, t in info["hyp_trees"]:
            v = closed_value(t)
            if v is not None and ((kind == "nz" and v == 0) or (kind == "pos" and v <= 0) or (kind == "nonneg" and v < 0)):
                vac = f"{kind} {t}"
        if vac:
            c["status"] = "structure_only"
            c["reason"] = f"original undefined over the reals ({vac})"
            continue
        c["info"] = info
        c["status"] = "lemma"
        c["lemma"] = coqrun.Lemma(f"{prop.lower()}_{i:05d}", stmt, proof, c["key"])


def decide_failed(ctx, prop: str, c, err: str, rng):
    """A generated lemma did not check: look for a valuation at which the real rendering (as parsed by the Coq
    reader) and the original differ."""
    info = c["info"]
    found = None
    for o, p in zip(c["sides"], info["parsed_rtrees"]):
        found = find_distinguishing(rng, o, p, info["hyp_trees"])
        if found:
            break
    if not found:
        # the domain hypotheses may be unsatisfiable over the reals (e.g. a negative base of a symbolic power):
        # compare the principal complex values, keeping only the declared sign assumptions of the symbols
        assume = [h for h in info["hyp_trees"] if h[1][0] == "var"]
        for o, p in zip(c["sides"], info["parsed_rtrees"]):
            found = find_distinguishing(rng, o, p, assume, tries=24)
            if found:
                break
    rep = {"kind": "broken-proof", "item": c["key"], "origin": c["origin"], "rendering": c["s"],
        "parsed_as": aexpr_show(c["parsed"]), "original": str(c["expr"]), "original_srepr": c.get("srepr", ""),
        "hypotheses": info["hyps"], "theorem_or_tie": c["lemma"].name, "coq_error": err[-400:],
        "sample_index": c.get("sample_index")}
    if found:
        val, va, vb = found
        rep.update({"kind": "violation", "valuation": {k: v for k, v in val.items()},
            "value_of_original": str(va), "value_of_rendering": str(vb)})
        ctx.violation(c["vkey"], f"rendering {c['s']!r} of {c['key']} denotes a different value than the expression "
            f"(e.g. at {val}: original {va}, rendering {vb})", rep, found_input=True)
    else:
        ctx.violation(c["vkey"], f"could not prove that rendering {c['s']!r} of {c['key']} preserves the value", rep,
            found_input=False)


def numeric_only_check(ctx, c, rng):
    """An item without a Coq obligation (original undefined over the reals, e.g. a negative number to a symbolic
    power) is still compared numerically: both readings are evaluated with principal-branch complex arithmetic at
    seeded valuations.  A difference is a violation with a concrete valuation; agreement proves nothing and the item
    stays listed as structure_only."""
    if c.get("parsed") is None or c.get("sides") is None:
        return "not comparable"
    a = c["parsed"]
    if len(c["sides"]) == 2:
        if not (a[0] == "bin" and a[1] == "OEq"):
            return "not comparable"
        psides = (a[2], a[3])
    else:
        psides = (a,)
    assume = [(kd, ("var", n)) for n, kd in (c.get("assume") or {}).items() if kd]
    for o, p in zip(c["sides"], psides):
        eu = c.get("euler", "E")
        pr = aexpr_rtree(p, {eu: EULER} if eu and eu not in var_names(o) else None)
        names = set(var_names(o)) | set(var_names(pr))
        hs = [h for h in assume if h[1][1] in names]
        found = find_distinguishing(rng, o, pr, hs, tries=24)
        if found:
            val, va, vb = found
            ctx.violation(c["vkey"], f"rendering {c['s']!r} of {c['key']} denotes a different value than the expression "
                f"(complex arithmetic, e.g. at {val}: original {va}, rendering {vb})",
                {"kind": "violation", "item": c["key"], "origin": c["origin"], "rendering": c["s"],
                 "parsed_as": aexpr_show(a), "original": str(c["expr"]), "valuation": val,
                 "value_of_original": str(va), "value_of_rendering": str(vb), "sample_index": c.get("sample_index")},
                found_input=True)
            return "DIFFERENT"
    return "agree at seeded complex valuations"


def precheck(ctx, c, rng, tries=8):
    """Before spending kernel time: evaluate both readings of a lemma-case at a few seeded valuations inside the
    hypotheses.  A difference is already a violation with a concrete failing input (the lemma is then not emitted)."""
    info = c["info"]
    for o, p in zip(c["sides"], info["parsed_rtrees"]):
        found = find_distinguishing(rng, o, p, info["hyp_trees"], tries=tries)
        if found:
            val, va, vb = found
            ctx.violation(c["vkey"], f"rendering {c['s']!r} of {c['key']} denotes a different value than the expression "
                f"(e.g. at {val}: original {va}, rendering {vb})",
                {"kind": "violation", "item": c["key"], "origin": c["origin"], "rendering": c["s"],
                 "parsed_as": aexpr_show(c["parsed"]), "original": str(c["expr"]), "original_srepr": c.get("srepr", ""),
                 "hypotheses": info["hyps"], "valuation": val, "value_of_original": str(va),
                 "value_of_rendering": str(vb), "theorem_or_tie": c["lemma"].name, "sample_index": c.get("sample_index")},
                found_input=True)
            return True
    return False


def prove_all(ctx, tag: str, preamble: str, lemmas, per_file: int = 40, timeout: int = 900):
    """coqrun.prove_lemmas, then re-submit (in smaller and smaller shards) the lemmas that were not decided because
    their shard collected too many failures or ran out of time; every lemma ends up 'ok' or with its own error."""
    from . import coqrun  # pylint: disable=import-outside-toplevel
    res = coqrun.prove_lemmas(ctx, tag, preamble, lemmas, per_file=per_file, timeout=timeout)
    size = per_file
    for rnd in range(1, 5):
        pending = [lm for lm in lemmas if res.get(lm.name, "missing").startswith(("not reached", "shard timeout", "missing"))]
        if not pending:
            break
        size = max(1, size // 4)
        ctx.log(f"{tag}: re-submitting {len(pending)} undecided lemmas in shards of {size}")
        res.update(coqrun.prove_lemmas(ctx, f"{tag}_r{rnd}", preamble, pending, per_file=size, timeout=timeout))
    return res


def measure_axioms(ctx, preamble: str, lemma):
    """Print Assumptions of one generated obligation, so that the axioms the per-formula theorems rest on are measured
    on every run (standard-library axioms of Reals are expected)."""
    from . import coqrun  # pylint: disable=import-outside-toplevel
    d = ctx.build / "axioms"
    d.mkdir(exist_ok=True)
    f = d / "generated_axioms.v"
    src = (f"{preamble}\nLemma {lemma.name} : {lemma.statement}.\nProof.\n{lemma.proof}\nQed.\n"
        f"Print Assumptions {lemma.name}.\n")
    f.write_text(src)
    rc_, out, _err, _dt = coqrun.coqc(f, timeout=600)
    if rc_ != 0:
        return ["<could not be measured>"]
    res = coqrun.parse_print_assumptions(src, out)
    ax = sorted({a for v in res.values() for a in v})
    ctx.coverage["generated_lemma_axioms"] = ax or ["Closed under the global context"]
    ctx.coverage["axioms"] = sorted(set(ctx.coverage.get("axioms", [])) | set(ax))
    return ax


def replay_values(c, val) -> int:
    """print both readings at the recorded valuation; 1 when they differ (confirmed at 60 digits), else 0"""
    a = c.get("parsed")
    if a is None or c.get("sides") is None or not val:
        return 0
    val = {k: (complex(v) if isinstance(v, str) else v) for k, v in val.items()}
    if len(c["sides"]) == 2 and a[0] == "bin" and a[1] == "OEq":
        psides = (a[2], a[3])
    elif len(c["sides"]) == 1:
        psides = (a,)
    else:
        print("the rendering of an equation does not parse as an equation")
        return 1
    bad = 0
    for o, p in zip(c["sides"], psides):
        eu = c.get("euler", "E")
        pr = aexpr_rtree(p, {eu: EULER} if eu and eu not in var_names(o) else None)
        if not (set(var_names(o)) | set(var_names(pr))) <= set(val):
            continue
        try:
            x, y = evaluate(o, val), evaluate(pr, val)
        except KeyError as e:
            print("rendering mentions an unknown name:", e)
            bad = 1
            continue
        except (ZeroDivisionError, OverflowError, ValueError) as e:
            print("evaluation failed:", type(e).__name__, e)
            continue
        diff = (not close(x, y)) and confirmed_different(o, pr, val)
        print(f"at {val}: original = {x}   rendering = {y}   {'DIFFERENT' if diff else 'equal'}")
        if diff:
            bad = 1
    return bad


class SourceFormGen:
    """Seeded generator of LAW-STYLE SOURCE FORMS: expressions written with Python operators over symbols and literals
    and built with SymPy evaluation disabled, the way the doc build obtains catalogued equations.  Grammar (what law
    modules actually write):
        sum    := term { (+|-) term }                     the right operand of a binary minus is a term, never a sum
        term   := [-] factor { (*|/) factor }              chained products and quotients, e.g.  -a*b/(4*c)/d**2 ,  a/b/c
        factor := atom | atom**k | (sum) | (sum)**k | f(sum) | sqrt(sum)
        atom   := symbol | small integer | short float
    Shapes outside it (minus applied to a parenthesised sum, Rational atoms as divisors, 1/(1/x)) are not generated: the
    printers are not claimed to handle arbitrary unevaluated trees (see design notes)."""

    FUNCS = ["exp", "log", "sin", "cos", "sqrt", "tanh"]

    def __init__(self, rng, symbols):
        self.rng = rng
        self.syms = symbols

    def atom(self):
        r = self.rng.random()
        if r < 0.72:
            return self.rng.choice(self.syms)
        if r < 0.92:
            return sympy.Integer(self.rng.choice([2, 3, 4, 5, 8, 10]))
        return sympy.Float(self.rng.choice([0.5, 2.5, 1.25, 0.4, 27.3]))

    def factor(self, depth):
        r = self.rng.random()
        if depth <= 0 or r < 0.55:
            a = self.atom()
            if self.rng.random() < 0.25 and not a.is_Number:
                return a**sympy.Integer(self.rng.choice([2, 3, 4]))
            if a.is_Integer and self.rng.random() < 0.5:
                # 2*10**3*x , 5*2**a : a power of a number, so that numerals meet inside a product
                return a**(sympy.Integer(self.rng.choice([2, 3])) if self.rng.random() < 0.5 else self.rng.choice(self.syms))
            return a
        if r < 0.62:
            # a sum of negative terms only:  a / (-b - c)
            x, y = self.rng.choice(self.syms), self.rng.choice(self.syms)
            return -x - self.rng.choice([1, 2, 3]) * y
        if r < 0.78:
            s = self.sum(depth - 1, force=True)
            if self.rng.random() < 0.3:
                return s**sympy.Integer(self.rng.choice([2, 3]))
            return s
        f = self.rng.choice(self.FUNCS)
        arg = self.sum(depth - 1) if self.rng.random() < 0.5 else self.term(depth - 1, allow_sign=False)
        if not arg.free_symbols:
            # f(number) is not a law-style shape, and SymPy replaces exp(-27.3) by a rounded Float while printing
            arg = self.rng.choice(self.syms) * arg
        if f == "sqrt":
            return sympy.sqrt(arg)
        return getattr(sympy, f)(arg)

    def term(self, depth, allow_sign=True):
        n = self.rng.choice([1, 2, 2, 3, 3, 4])
        out = self.factor(depth)
        if out.is_Number and n > 1:
            out = self.rng.choice(self.syms)
        first_is_sum = out.is_Add
        if allow_sign and not first_is_sum and self.rng.random() < 0.3:
            out = -out
        for _ in range(n - 1):
            f = self.factor(depth)
            if self.rng.random() < 0.45:
                if f.is_Number and f == 0:
                    continue
                out = out / f
            else:
                out = out * f
        return out

    def sum(self, depth, force=False):
        n = self.rng.choice([2, 2, 3]) if force else self.rng.choice([1, 2, 2, 3])
        out = self.term(depth)
        if out.is_Add:
            out = self.rng.choice(self.syms) * out        # a sum never stands alone as a term of a sum
        for _ in range(n - 1):
            t = self.term(depth, allow_sign=False)
            if t.is_Add:
                # a +- (b + c) is written a +- b +- c in law modules; a bare bracketed sum as a term is outside the grammar
                t = self.rng.choice(self.syms) * t
            out = out - t if self.rng.random() < 0.4 else out + t
        return out

    def sample(self):
        from sympy.core.parameters import global_parameters  # pylint: disable=import-outside-toplevel
        old = global_parameters.evaluate
        global_parameters.evaluate = False
        try:
            return self.sum(self.rng.choice([1, 2, 2, 3]))
        finally:
            global_parameters.evaluate = old


def curated_expressions(symbols):
    """Fixed list of (label, expression) run in EVERY tier and seed: minimal members of the shape classes that past
    printer defects needed (signs across numerator/denominator, numerals meeting in a product, reciprocal exponents,
    chained quotients, long floats, double fractions with a sign).  `symbols` = the driver's sample symbols."""
    from sympy.core.parameters import global_parameters  # pylint: disable=import-outside-toplevel
    a, b, c, x, y, t = symbols[0], symbols[1], symbols[2], symbols[5], symbols[8], symbols[6]
    R, I, F = sympy.Rational, sympy.Integer, sympy.Float
    out = []

    def add(label, e):
        out.append((label, e))

    # canonical (auto-evaluated)
    add("neg-coeff/all-neg-sum", -a / (-b - c))
    add("neg-coeff*2/all-neg-sum", -2 * a * x / (-b - c))
    add("pos/all-neg-sum", a / (-b - c))
    add("neg/mixed-sum", -a / (b - c))
    add("neg-rational-coeff/all-neg-sum", -R(3, 7) * a * x / (-b - c - t))
    add("all-neg-sum/all-neg-sum", (-a - b) / (-c - x))
    add("neg*all-neg-sum", -a * (-b - c) / x)
    add("sum-of-signed-quotients", -a / (-b - c) - x / (-b - 2 * c) + y / (b + c))
    add("numeral*power-of-number", 2 * I(3)**a)
    add("numeral*power-of-ten/x", 7 * I(10)**a / x)
    add("rational*power-of-number", R(3, 2) * I(5)**a)
    add("decimal*power-of-ten", F(2.5) * I(10)**(-a))
    add("numeral*decaying-power", 5 * I(2)**(-t / x))
    add("numeral*numeral-power*symbol", 3 * I(2)**I(5) * x * I(7)**a)
    add("reciprocal-exponent", x**(1 / y) + I(2)**(1 / x) * c + x**(1 / (y + c)))
    add("reciprocal-sqrt-exponent", x**(1 / sympy.sqrt(y)))
    add("long-floats", F(299792458.0) * t + x**F(2.718281828) + F(1.23456789) * x + 2 * x / F(3.0))
    add("quotient-of-sums", (a + b) * (c + x) / y + (a - b) / ((c + x) * (a + y)))
    add("power-of-quotient", (a / b)**c * (-a)**3 * (a**b)**c * a**(b**c))
    add("minus-power", -(a * b)**2 - (-a)**2 + (-a * b)**R(1, 3))
    old = global_parameters.evaluate
    global_parameters.evaluate = False
    try:
        # law-style source forms (evaluation disabled)
        add("src:signed-double-fraction", -a * b / (4 * c) / x**2)
        add("src:signed-chain", -a / b / c + x)
        add("src:chain/sum", a / b / (c + x))
        add("src:chain/sum-2", 8 * a * b**3 / c**3 / (sympy.exp(a * b / (c * x)) - 1))
        add("src:quarter-power", (1 - (a / b)**2)**(I(1) / I(4)))
        add("src:numerals-in-a-row", 2 * I(10)**3 * x)
        add("src:numeral*power-of-number", 5 * I(2)**a / x)
        add("src:neg/all-neg-sum", -a / (-b - c))
        add("src:neg-2/all-neg-sum", -2 * a * x / (-b - c))
        add("src:product-of-bracketed-sums/x", (a + b) * (c + x) / y)
    finally:
        global_parameters.evaluate = old
    return out
