"""Shared helpers of the C09 / C03 drivers: Gallina literals for strings / states / assumption sets,
AST scan of the id-generator call sites, and the seeded operation-sequence generator that runs the real
library and records what the model has to reproduce (Model/Symbols.v: ccase)."""
from __future__ import annotations

import ast
from fractions import Fraction
from pathlib import Path

from . import qx
from .common import REPO

PREAMBLE = """From Coq Require Import List NArith String Ascii Bool QArith.
From VP Require Import Base.Util Base.Dim Model.Ids Model.Symbols.
Import ListNotations.
Local Open Scope Q_scope.
Local Open Scope string_scope.
"""

# ---------------------------------------------------------------------------------------------------
# literals
# ---------------------------------------------------------------------------------------------------


def gstr(s: str) -> str:
    # observation side only: characters a Gallina literal cannot carry are made visible, never dropped
    s = "".join(c if 32 <= ord(c) <= 126 else f"<U+{ord(c):04X}>" for c in s)
    return '"' + s.replace('"', '""') + '"'


def gopt(s) -> str:
    return "None" if s is None else f"(Some {gstr(s)})"


def gN(n: int) -> str:
    return f"{int(n)}%N"


def gnat(n: int) -> str:
    return f"{int(n)}%nat"


def gstate(d: dict) -> str:
    return "[" + "; ".join(f"({gstr(k)}, {gN(v)})" for k, v in d.items()) + "]"


def gassum(a) -> str:
    return "[" + "; ".join(f"({gstr(k)}, {'true' if v else 'false'})" for k, v in a) + "]"


def gq(fr: Fraction) -> str:
    fr = Fraction(fr)
    n, d = fr.numerator, fr.denominator
    return f"({n} # {d})" if n >= 0 else f"(({n}) # {d})"


def glist(items) -> str:
    return "[" + "; ".join(items) + "]"


# ---------------------------------------------------------------------------------------------------
# the id-generator call sites of /repo, read from the source on every run
# ---------------------------------------------------------------------------------------------------

ID_FUNCS = {"next_id", "next_name", "last_id"}


def scan_prefixes(root: Path | None = None):
    """Every call of next_id / next_name / last_id under symplyphysics/: (file, line, function, prefix literal or
    None when the argument is not a string literal).  `next_id()` has the default prefix ""."""
    root = root or (REPO / "symplyphysics")
    sites = []
    for f in sorted(root.rglob("*.py")):
        try:
            tree = ast.parse(f.read_text())
        except SyntaxError:
            continue
        for node in ast.walk(tree):
            if not isinstance(node, ast.Call):
                continue
            fn = node.func
            name = fn.id if isinstance(fn, ast.Name) else (fn.attr if isinstance(fn, ast.Attribute) else None)
            if name not in ID_FUNCS:
                continue
            if not node.args and not node.keywords:
                pref = "" if name == "next_id" else None
            else:
                a = node.args[0] if node.args else node.keywords[0].value
                pref = a.value if isinstance(a, ast.Constant) and isinstance(a.value, str) else None
                if pref is None and f.name == "symbols.py" and name == "next_id" and isinstance(a, ast.Name):
                    pref = "<forwarded>"          # next_name(name) -> next_id(name)
            sites.append((str(f.relative_to(root.parent)), node.lineno, name, pref))
    return sites


# ---------------------------------------------------------------------------------------------------
# pools
# ---------------------------------------------------------------------------------------------------

DISPLAYS = ["x", "x", "r", "T", "m", "x_0", "r_max", "E", None, "", "aQTYb"]
LATEXES = [None, None, None, "", "\\rho", "x", "\\mathbf{r}"]
SUBS = [None, None, "", "0", "max", "1"]
# signed facts (name -> True/False), each set sorted by name; the closures SymPy derives from them are pairwise distinct for
# Symbol, IndexedBase and UndefinedFunction (checked by assum_tables).  False-valued facts that are NOT implied by a True one
# (zero=False, real=False, integer=False, ...) are what distinguishes "known to be false" from "unknown".
ASSUMS = [(), (("positive", True),), (("real", True),), (("integer", True),), (("nonnegative", True),),
    (("integer", True), ("positive", True)),
    (("zero", False),), (("complex", True), ("real", False)), (("negative", False),), (("integer", False),),
    (("positive", False),), (("nonzero", True),), (("even", True),), (("odd", True),), (("commutative", False),),
    (("integer", False), ("real", True)), (("rational", False), ("real", True)), (("imaginary", True),),
    (("finite", False),), (("nonpositive", True), ("zero", False))]
QUERIES = ("is_zero", "is_real", "is_positive", "is_integer", "is_commutative", "is_rational", "is_finite")


def dim_pool():
    from sympy.physics import units as u  # pylint: disable=import-outside-toplevel
    from sympy.physics.units import Dimension  # pylint: disable=import-outside-toplevel
    return [(Dimension(1), 1), (u.length, u.meter), (u.mass, u.kilogram), (u.time, u.second),
        (u.velocity, u.meter / u.second), (u.energy, u.joule)]


def assum_tables():
    """closure of each pool entry as SymPy reports it, per kind of object (SymPy is the oracle for the closure; the
    model only moves the *passed* set around)."""
    import sympy  # pylint: disable=import-outside-toplevel
    tabs = {"sym": [], "idx": [], "fun": []}
    for a in ASSUMS:
        kw = dict(a)
        tabs["sym"].append(dict(sympy.Symbol("_", **kw).assumptions0))
        tabs["idx"].append(dict(sympy.IndexedBase("_", **kw).assumptions0))
        tabs["fun"].append(function_kwargs(sympy.Function("_", **kw)))
    for kind, tab in tabs.items():
        keys = [tuple(sorted(c.items())) for c in tab]
        if len(set(keys)) != len(keys):
            raise RuntimeError(f"assumption pool is ambiguous for {kind}: two entries have the same closure")
    return tabs


def function_kwargs(f) -> dict:
    """assumptions an undefined function was built with; `commutative=True` (the default of every function, and what a
    source symbol's assumptions0 carries along into clone_as_function) is not an assumption in the property's sense"""
    kw = dict(getattr(f, "_kwargs", {}))
    if kw.get("commutative") is True:
        kw.pop("commutative")
    return kw


def classify_assumptions(observed: dict, table) -> tuple | None:
    for a, closure in zip(ASSUMS, table):
        if observed == closure:
            return a
    return None


# ---------------------------------------------------------------------------------------------------
# running an operation sequence on the real library
# ---------------------------------------------------------------------------------------------------

KINDS = {"sym": "KSymbol", "idx": "KIndexed", "fun": "KFunction", "qty": "KQuantity", "sys": "KCoordSys",
    "vec": "KVector", "qvec": "KQVector"}
SCALAR = ("sym", "idx", "fun")


class Created:
    """One object created through the library, with everything the check observes."""

    def __init__(self, kind, handle, op_desc, extra=None):
        self.kind = kind
        self.handle = handle          # what is compared with == (Function: the class; CoordSys: the CoordSys3D)
        self.op = op_desc
        self.extra = extra or {}

    def term(self, t):
        """the object as it appears inside an expression"""
        if self.kind == "fun":
            return self.handle(t)
        if self.kind == "idx":
            return self.handle[self.handle.index]
        return self.handle


def bump_counters(rng, ids: dict) -> dict:
    """Move some counters UP to just below a decimal or binary threshold (never down: lower values could re-mint names of live
    objects, which no history of the library can do)."""
    done = {}
    thresholds = FAR_STATES
    for p in ("SYM", "FUN", "QTY", "SYS", "VEC", "C", ""):
        cur = ids.get(p, 0)
        above = [b for b in thresholds if b - 12 > cur]
        if above and rng.random() < (0.35 if cur < 10**6 else 0.08):
            b = above[min(len(above) - 1, rng.choice([0, 0, 0, 1, 2]))]
            v = b - rng.randrange(0, 12)
            ids[p] = v
            done[p] = v
    return done


def run_sequence(rng, n_ops: int, t_symbol):
    """Generate and execute one operation sequence.  Returns a dict with the Gallina case literal and the raw
    observations (for the specification predicates and for replay files)."""
    # pylint: disable=import-outside-toplevel,too-many-locals,too-many-branches,too-many-statements
    import sympy
    from sympy.physics.units import Dimension
    from symplyphysics import Symbol, Function, Quantity, QuantityVector, CoordinateSystem, print_expression
    from symplyphysics.core.symbols import id_generator
    from symplyphysics.core.symbols.symbols import IndexedSymbol, clone_as_symbol, clone_as_function, clone_as_indexed
    from symplyphysics.core.coordinate_systems.coordinate_systems import coordinates_transform, coordinates_rotate
    from symplyphysics.core.experimental.vectors import VectorSymbol
    from symplyphysics.docs.printer_code import code_str

    ids = id_generator._ids  # pylint: disable=protected-access
    bumped = bump_counters(rng, ids)
    ids_before = dict(ids)
    dims = dim_pool()
    tabs = assum_tables()
    objs: list[Created] = []
    ops_lit: list[str] = []
    ops_py: list[dict] = []
    systems = []

    def pick_assum():
        return rng.choice(ASSUMS) if rng.random() < 0.7 else ()

    weights = [("sym", 22), ("idx", 8), ("fun", 10), ("qty", 8), ("sys", 2), ("tsys", 1), ("rsys", 1), ("vec", 4),
        ("qvec", 2), ("csym", 22), ("cfun", 10), ("cidx", 8)]
    bag = [k for k, w in weights for _ in range(w)]
    for _ in range(n_ops):
        k = rng.choice(bag)
        clonable = [i for i, o in enumerate(objs) if o.kind in ("sym", "idx")]
        if k in ("csym", "cfun", "cidx") and not clonable:
            k = "sym"
        di = rng.randrange(len(dims))
        dim_obj, unit = dims[di]
        dlit = qx.dim_lit(qx.dim_vec(dim_obj))
        disp = rng.choice(DISPLAYS)
        ltx = rng.choice(LATEXES)
        a = pick_assum()
        kw = dict(a)
        desc = {"op": k, "display": disp, "latex": ltx, "assumptions": list(a), "dimension": str(dim_obj)}
        if k == "sym":
            o = Symbol(disp, dim_obj, display_latex=ltx, **kw)
            objs.append(Created("sym", o, desc))
            ops_lit.append(f"NewSymbol {gopt(disp)} {dlit} {gopt(ltx)} {gassum(a)}")
        elif k == "idx":
            o = IndexedSymbol(disp, None, dim_obj, display_latex=ltx, **kw)
            objs.append(Created("idx", o, desc))
            ops_lit.append(f"NewIndexed {gopt(disp)} {dlit} {gopt(ltx)} {gassum(a)}")
        elif k == "fun":
            o = Function(disp, None, dim_obj, display_latex=ltx, **kw)
            objs.append(Created("fun", o, desc))
            ops_lit.append(f"NewFunction {gopt(disp)} {dlit} {gopt(ltx)} {gassum(a)}")
        elif k == "qty":
            mag = rng.choice([1, 2, 5, sympy.Rational(1, 3)])
            o = Quantity(mag * unit, display_symbol=disp, display_latex=ltx)
            desc["expr"] = str(mag * unit)
            objs.append(Created("qty", o, desc))
            ops_lit.append(f"NewQuantity {gopt(disp)} {gopt(ltx)} {dlit}")
        elif k == "sys" or (k in ("tsys", "rsys") and not systems):
            ty = rng.choice(list(CoordinateSystem.System))
            o = CoordinateSystem(ty)
            systems.append(o)
            desc.update(op="sys", type=ty.name)
            objs.append(Created("sys", o.coord_system, desc))
            ops_lit.append("NewCoordSys")
        elif k == "tsys":
            src = rng.choice(systems)
            ty = rng.choice(list(CoordinateSystem.System))
            o = coordinates_transform(src, ty)
            systems.append(o)
            desc["type"] = ty.name
            objs.append(Created("sys", o.coord_system, desc))
            ops_lit.append("TransformSys")
        elif k == "rsys":
            carts = [s for s in systems if s.coord_system_type == CoordinateSystem.System.CARTESIAN]
            if not carts:
                o = CoordinateSystem(CoordinateSystem.System.CARTESIAN)
                systems.append(o)
                desc.update(op="sys", type="CARTESIAN")
                objs.append(Created("sys", o.coord_system, desc))
                ops_lit.append("NewCoordSys")
            else:
                src = rng.choice(carts)
                o = coordinates_rotate(src, sympy.pi / rng.choice([2, 3, 4, 6]), src.coord_system.k)
                systems.append(o)
                objs.append(Created("sys", o.coord_system, desc))
                ops_lit.append("RotateSys")
        elif k == "vec":
            o = VectorSymbol(disp, dim_obj, display_latex=ltx)
            objs.append(Created("vec", o, desc))
            ops_lit.append(f"NewVector {gopt(disp)} {dlit} {gopt(ltx)}")
        elif k == "qvec":
            ncomp = rng.choice([1, 2, 3])
            comps = [rng.choice([1, 2, 3]) * unit for _ in range(ncomp)]
            fresh = ncomp
            same = [o2.handle for o2 in objs if o2.kind == "qty" and o2.extra.get("dim_index") == di]
            if same and rng.random() < 0.5:
                comps[0] = rng.choice(same)
                fresh -= 1
            o = QuantityVector(comps, dimension=dim_obj) if rng.random() < 0.5 or unit == 1 else QuantityVector(comps)
            desc.update(components=[str(c) for c in comps], fresh_components=fresh)
            objs.append(Created("qvec", o, desc, {"internal": str(ids[""])}))
            ops_lit.append(f"NewQVector {gnat(fresh)} {dlit}")
        else:
            si = rng.choice(clonable)
            src = objs[si].handle
            sub = rng.choice(SUBS)
            cdisp = rng.choice([None, None, None, "", "y", "x"])
            cltx = rng.choice([None, None, None, "", "\\eta"])
            desc.update(src=si, display=cdisp, latex=cltx, subscript=sub)
            if k == "csym":
                o = clone_as_symbol(src, display_symbol=cdisp, display_latex=cltx, subscript=sub, **kw)
                objs.append(Created("sym", o, desc))
                ops_lit.append(f"CloneSymbol {gnat(si)} {gopt(cdisp)} {gopt(cltx)} {gopt(sub)} {gassum(a)}")
            elif k == "cfun":
                o = clone_as_function(src, None, display_symbol=cdisp, display_latex=cltx, subscript=sub, **kw)
                objs.append(Created("fun", o, desc))
                ops_lit.append(f"CloneFunction {gnat(si)} {gopt(cdisp)} {gopt(cltx)} {gopt(sub)} {gassum(a)}")
            else:
                desc.pop("subscript")
                o = clone_as_indexed(src, None, display_symbol=cdisp, display_latex=cltx, **kw)
                objs.append(Created("idx", o, desc))
                ops_lit.append(f"CloneIndexed {gnat(si)} {gopt(cdisp)} {gopt(cltx)} {gassum(a)}")
        if objs[-1].kind == "qty":
            objs[-1].extra["dim_index"] = di
        ops_py.append(desc)
    ids_after = dict(ids)

    # ---- observations ------------------------------------------------------------------------------
    seen_lit = []
    seen_py = []
    for o in objs:
        h = o.handle
        rec = {"kind": o.kind}
        if o.kind == "sys":
            nm = str(h)
            rec.update(name=nm, display=nm, latex=nm, dim=qx.dim_vec(Dimension(1)), assum=(), pp=nm, code=nm, bare=nm)
        elif o.kind == "qvec":
            rec.update(name=o.extra["internal"], display=h.display_name, latex=h.display_latex,
                dim=qx.dim_vec(h.dimension), assum=(), pp=h.display_name, code=h.display_name, bare=h.display_name)
        else:
            rec.update(name=str(h.name), display=h.display_name, latex=h.display_latex, dim=qx.dim_vec(h.dimension))
            if o.kind in ("sym", "idx"):
                raw = dict(h.assumptions0)
                rec["assum"] = classify_assumptions(raw, tabs[o.kind])
            elif o.kind == "fun":
                raw = function_kwargs(h)
                rec["assum"] = classify_assumptions(raw, tabs["fun"])
            else:
                raw = {}
                rec["assum"] = ()
            rec["assum_raw"] = raw
            term = o.term(t_symbol)
            rec["queries"] = {q: getattr(term, q, None) for q in QUERIES} if o.kind in SCALAR else {}
            rec["pp"] = print_expression(term)
            rec["code"] = code_str(term)
            rec["bare"] = print_expression(h) if o.kind in ("idx", "fun") else rec["pp"]
            if o.kind == "qty":
                # the value rendering of an unnamed quantity, computed on a fresh nameless twin
                rec["value_pp"] = _value_text(print_expression, h)
                rec["value_code"] = _value_text(code_str, h)
        seen_py.append(rec)

    def printed(rec, which):
        s = rec[which]
        if rec["kind"] == "qty" and s == rec.get("value_" + ("pp" if which == "bare" else which)):
            return "PValue"
        return f"(PText {gstr(s)})"

    for rec in seen_py:
        a = rec["assum"]
        alit = gassum(a) if a is not None else '[("<unclassified>", true)]'
        seen_lit.append(f"(mkseen {KINDS[rec['kind']]} {gstr(rec['name'])} {gstr(rec['display'])} {gstr(rec['latex'])} "
            f"{qx.dim_lit(rec['dim'])} {alit} {printed(rec, 'pp')} {printed(rec, 'code')} {printed(rec, 'bare')})")

    matrix = printing_matrix(objs, seen_py, t_symbol, rng)
    wrappers = wrapper_probe(objs, seen_py, rng)

    # aliasing matrix
    alias = []
    hash_equal_offdiag = 0
    not_self_equal = []
    for i, a in enumerate(objs):
        try:
            if not a.handle == a.handle:      # pylint: disable=comparison-with-itself
                not_self_equal.append(i)
        except Exception:  # pylint: disable=broad-except
            not_self_equal.append(i)
        for j in range(i + 1, len(objs)):
            b = objs[j]
            try:
                eq = bool(a.handle == b.handle)
            except Exception:  # pylint: disable=broad-except
                eq = False
            if eq:
                alias.append((i, j))
            else:
                try:
                    if hash(a.handle) == hash(b.handle):
                        hash_equal_offdiag += 1
                except TypeError:
                    pass

    # printed sums
    sums = []
    scal = [i for i, o in enumerate(objs) if (o.kind in SCALAR or (o.kind == "qty" and "QTY" not in seen_py[i]["display"]))
        and 0 < len(seen_py[i]["display"]) <= 8]      # longer lines are wrapped by the pretty printer
    for _ in range(min(6, len(scal) // 2)):
        idx = rng.sample(scal, min(len(scal), rng.choice([2, 3, 4, 6])))
        # prefer colliding display names
        if rng.random() < 0.7:
            d0 = seen_py[idx[0]]["display"]
            coll = [i for i in scal if seen_py[i]["display"] == d0 and i not in idx]
            idx = idx[:2] + coll[:3]
        e = sympy.Add(*[objs[i].term(t_symbol) for i in idx])
        for pr in (print_expression, code_str):
            txt = pr(e)
            sums.append({"idx": idx, "printer": pr.__name__, "text": txt, "terms": txt.split(" + ")})

    # algebra probe
    env = {}
    primes = _primes(len(objs) + 5)
    for i, rec in enumerate(seen_py):
        env[rec["name"]] = Fraction(primes[i + 3])
    algebra = []
    # x carries no assumptions: SymPy's solve() discards a root that contradicts the unknown's assumptions (e.g. a real x and
    # an imaginary coefficient), which is not aliasing
    xs = [i for i, o in enumerate(objs) if o.kind in SCALAR and seen_py[i]["assum"] == ()]
    # coefficients: SymPy's solve() returns nothing for a non-commutative or infinite coefficient (not aliasing either)
    others = [i for i, o in enumerate(objs) if o.kind in SCALAR and not ({("commutative", False), ("finite", False)} & set(seen_py[i]["assum"] or ()))]
    for _ in range(min(4, len(xs))):
        if len(others) < 4:
            break
        ix = rng.choice(xs)
        same = [i for i in others if i != ix and seen_py[i]["display"] == seen_py[ix]["display"]]
        iy = rng.choice(same) if same and rng.random() < 0.8 else rng.choice([i for i in others if i != ix])
        rest = [i for i in others if i not in (ix, iy)]
        if len(rest) < 2:
            break
        ia, ib = rng.sample(rest, 2)
        A, X, B, Y = (objs[i].term(t_symbol) for i in (ia, ix, ib, iy))
        e = A * X + B * Y
        res = {"idx": (ia, ix, ib, iy)}
        try:
            r_subs = e.subs(X, 7)
            r_diff = sympy.diff(e, X)
            r_solve = sympy.solve(e, X)
            res["texts"] = [str(r_subs), str(r_diff), str(r_solve)]
            res["raw"] = (r_subs, r_diff, r_solve)
            vals = [_evaluate(r_subs, objs, seen_py, env, t_symbol), _evaluate(r_diff, objs, seen_py, env, t_symbol),
                _evaluate(r_solve[0], objs, seen_py, env, t_symbol) if len(r_solve) == 1 else None]
        except Exception as ex:  # pylint: disable=broad-except
            res["error"] = f"{type(ex).__name__}: {ex}"[:200]
            vals = [None, None, None]
        res["values"] = vals
        algebra.append(res)

    def qv(v):
        return gq(v) if v is not None else "((-987654321) # 1)"

    lit = ("(mkcase " + gstate(ids_before) + "\n   " + glist(ops_lit) + "\n   " + glist(seen_lit) + "\n   " +
        gstate(ids_after) + "\n   " + glist(f"({gN(i)}, {gN(j)})" for i, j in alias) + "\n   " +
        glist(f"({glist(gnat(i) for i in s['idx'])}, {glist(gstr(x) for x in s['terms'])})" for s in sums) + "\n   " +
        glist(f"({gstr(k)}, {gq(v)})" for k, v in env.items()) + "\n   " +
        glist(f"(({', '.join(gnat(i) for i in r['idx'])}), ({', '.join(qv(v) for v in r['values'])}))" for r in algebra) + ")")
    return {"lit": lit, "objs": objs, "ops": ops_py, "seen": seen_py, "ids_before": ids_before, "ids_after": ids_after,
        "alias": alias, "sums": sums, "algebra": algebra, "bumped": bumped, "hash_equal_offdiag": hash_equal_offdiag,
        "not_self_equal": not_self_equal, "env": env, "tabs": tabs, "matrix": matrix, "wrappers": wrappers}


def entry_points():
    """the printing entry points the library offers for code / console output (LaTeX is C18's)"""
    from symplyphysics import print_expression  # pylint: disable=import-outside-toplevel
    from symplyphysics.docs.printer_code import code_str  # pylint: disable=import-outside-toplevel
    return {"print_expression": print_expression, "code_str": code_str, "str": str, "repr": repr}


def printing_matrix(objs, seen, t, rng, limit=40):
    """every kind of created object, in every shape it occurs in (alone, applied / indexed, WITHOUT index, inside a list, an
    equation, a Tuple, a sum), through every entry point.  Returns records {i, form, entry, text}."""
    import sympy  # pylint: disable=import-outside-toplevel
    eps = entry_points()
    idx = [i for i, o in enumerate(objs) if o.kind in ("sym", "idx", "fun", "qty", "vec") and 0 < len(seen[i]["display"]) <= 12]
    if len(idx) > limit:
        idx = sorted(rng.sample(idx, limit))
    out = []
    for i in idx:
        o = objs[i]
        term = o.term(t)
        forms = {"term": term, "list": [term, 2], "Tuple": sympy.Tuple(term, 2)}
        if o.kind != "vec":
            forms["Eq"] = sympy.Eq(term, 2, evaluate=False)
        if o.kind == "idx":
            b = o.handle
            forms.update({"bare": b, "bare-list": [b, 2], "bare-Tuple": sympy.Tuple(b, 2), "bare-Eq": sympy.Eq(b, b, evaluate=False)})
        if o.kind == "fun":          # a Function class cannot stand in an Eq (not sympifiable there)
            forms.update({"unapplied": o.handle, "unapplied-list": [o.handle, 2], "unapplied-Tuple": sympy.Tuple(o.handle, 2)})
        for fname, val in forms.items():
            for ename, fn in eps.items():
                try:
                    txt = fn(val)
                except Exception as ex:  # pylint: disable=broad-except
                    txt = f"<raised {type(ex).__name__}>"
                out.append({"i": i, "form": fname, "entry": ename, "text": str(txt)[:200]})
    return out


def wrapper_probe(objs, seen, rng, pairs=3):
    """Symbolic wrappers (Average, FiniteDifference, ...) of two different objects that print alike must be different objects that keep
    their own argument and dimension"""
    from symplyphysics.core.operations import symbolic as sm  # pylint: disable=import-outside-toplevel
    classes = [c for n, c in sorted(vars(sm).items()) if isinstance(c, type) and issubclass(c, sm.Symbolic) and c is not sm.Symbolic]
    syms = [i for i, o in enumerate(objs) if o.kind == "sym" and seen[i]["display"]]
    by_disp = {}
    for i in syms:
        by_disp.setdefault(seen[i]["display"], []).append(i)
    groups = [g for g in by_disp.values() if len(g) >= 2]
    out = []
    for _ in range(min(pairs, len(groups))):
        g = rng.choice(groups)
        i, j = rng.sample(g, 2)
        for c in classes:
            try:
                a, b = c(objs[i].handle), c(objs[j].handle)
                out.append({"cls": c.__name__, "i": i, "j": j, "same_object": a is b, "equal": bool(a == b), "hash_equal": hash(a) == hash(b),
                    "factor_own": a.factor is objs[i].handle and b.factor is objs[j].handle,
                    "dim_own": qx.dim_vec(a.dimension) == seen[i]["dim"] and qx.dim_vec(b.dimension) == seen[j]["dim"],
                    "texts": [str(a), str(b)]})
            except Exception as ex:  # pylint: disable=broad-except
                out.append({"cls": c.__name__, "i": i, "j": j, "error": f"{type(ex).__name__}: {ex}"[:200]})
    return out


def _value_text(printer, q):
    """how `printer` renders the SI value of q when it has no display name (quantities.py _sympystr lines 77-92)"""
    from symplyphysics import Quantity  # pylint: disable=import-outside-toplevel
    twin = Quantity(q, dimension=q.dimension)     # consumes a QTY id *after* the case's final snapshot
    return printer(twin)


def _primes(n):
    out, k = [], 2
    while len(out) < n:
        if all(k % p for p in out):
            out.append(k)
        k += 1
    return out


def _evaluate(expr, objs, seen, env, t_symbol):
    """Exact value of a SymPy tree whose leaves are created objects; a leaf is mapped to the FIRST created object it
    compares equal to (so aliasing shows up as a wrong value), never through subs/xreplace."""
    import sympy  # pylint: disable=import-outside-toplevel
    terms = [(o.term(t_symbol), seen[i]["name"]) for i, o in enumerate(objs) if o.kind in SCALAR]

    def go(e):
        if e.is_Rational:
            return Fraction(int(e.p), int(e.q))
        for tm, nm in terms:
            if e == tm:
                return env[nm]
        if isinstance(e, sympy.Add):
            return sum((go(a) for a in e.args), Fraction(0))
        if isinstance(e, sympy.Mul):
            r = Fraction(1)
            for a in e.args:
                r *= go(a)
            return r
        if isinstance(e, sympy.Pow) and e.exp.is_Integer:
            return go(e.base)**int(e.exp)
        raise ValueError(f"unexpected node {e!r}")

    return go(sympy.sympify(expr))


# ---------------------------------------------------------------------------------------------------
# ties shared by C09 and C03
# ---------------------------------------------------------------------------------------------------

import hashlib  # noqa: E402  pylint: disable=wrong-import-position

from . import coqrun  # noqa: E402  pylint: disable=wrong-import-position


def tie_prefixes(ctx):
    sites = scan_prefixes()
    unknown = [s for s in sites if s[3] is None]
    found = sorted({s[3] for s in sites if s[3] not in (None, "<forwarded>")})
    ctx.coverage["id_call_sites"] = [list(s) for s in sites]
    for s in unknown:
        ctx.violation(f"{ctx.prop}:prefix-tie:{s[0]}:{s[2]}", f"{s[2]} called with a non-literal prefix at {s[0]}:{s[1]}; "
            "the digit-freeness premise of names_fresh cannot be checked",
            {"kind": "broken-tie", "theorem_or_tie": "prefix scan -> repo_prefixes_digit_free", "site": list(s)}, found_input=False)
    lit = glist(gstr(p) for p in found)
    bad = coqrun.eval_cases(ctx, "prefixes", PREAMBLE + "From VP Require Import Proofs.IdsProofs.\n", [lit],
        "fun l : list string => forallb digit_free l && forallb (fun p => existsb (String.eqb p) repo_prefixes) l "
        "&& forallb (fun p => existsb (String.eqb p) l) repo_prefixes")
    if bad:
        digits = [p for p in found if any(ch.isdigit() for ch in p)]
        if digits:
            # concrete collision: p = q + d...  =>  q ++ str(n) can equal p ++ str(m)
            ctx.violation(f"{ctx.prop}:prefix:" + ",".join(digits), f"id prefix(es) {digits} contain a digit: generated names are no longer "
                "uniquely decodable (e.g. 'S1'+'1' == 'S'+'11')", {"kind": "violation", "prefixes": found, "input": digits}, True)
        else:
            ctx.violation(f"{ctx.prop}:prefix-tie:set", f"id prefixes in the source {found} differ from the set the theorems were checked for",
                {"kind": "broken-tie", "theorem_or_tie": "repo_prefixes_digit_free", "found": found}, found_input=False)
    ctx.obligations(1, 0 if bad else 1)
    return found


FAR_STATES = sorted({2**8, 2**15, 2**16, 2**31, 2**32, 2**53, 2**63, 2**64} | {10**k for k in range(1, 21)})


def ids_spec_failure(d):
    """the property's demands on one executed id history, evaluated on the implementation's own answers: ids of a prefix strictly
    increase from the pre-set state, a name is prefix + decimal id, no name is handed out twice"""
    import re  # pylint: disable=import-outside-toplevel
    last = dict(d["before"])
    names = set()
    for op, ob in zip(d["ops"], d["observed"]):
        m = re.match(r'(NextId|NextName|LastId) "(.*)"$', op)
        kind, p = m.group(1), m.group(2)
        if kind == "LastId":
            continue
        if kind == "NextId":
            v = int(ob.split()[1].replace("%N", ""))
            nm = p + str(v)
        else:
            nm = ob[len('OName "'):-1]
            if not nm.startswith(p) or not nm[len(p):].isdigit():
                return ("bad-name", f"next_name({p!r}) returned {nm!r}, not prefix + decimal id")
            v = int(nm[len(p):])
        if v <= last.get(p, 0):
            return ("not-increasing", f"next_id({p!r}) returned {v} although the counter already stood at {last.get(p, 0)}: ids are re-used "
                f"(the name {nm!r} was, or may have been, handed out before)")
        if nm in names:
            return ("duplicate-name", f"the name {nm!r} was handed out twice")
        names.add(nm)
        last[p] = v
    return None


def ids_stream(ctx, n_cases, found_prefixes):
    """random histories over the real next_id / next_name / last_id vs Ids.run_obs (exact)"""
    from symplyphysics.core.symbols import id_generator as g  # pylint: disable=import-outside-toplevel
    from symplyphysics.core.symbols.symbols import next_name  # pylint: disable=import-outside-toplevel
    rng = ctx.rng
    saved = dict(g._ids)  # pylint: disable=protected-access
    cases, descs = [], []
    pool = list(found_prefixes) + ["ZZ", "A", "SY"]
    # names_fresh is stated for EVERY start state: besides random small histories, every prefix in use is started just below and
    # around binary and decimal thresholds (deterministic sweep), where a counter that wraps, truncates or goes through a fixed-width
    # or floating-point representation would show
    far = [(p, b + d) for p in found_prefixes for b in FAR_STATES for d in (-2, -1, 0, 1) if b + d >= 0]
    try:
        for c_i in range(len(far) + n_cases):
            g._ids.clear()  # pylint: disable=protected-access
            if c_i < len(far):
                fp, fv = far[c_i]
                g._ids[fp] = fv  # pylint: disable=protected-access
                script = [(fp, "name"), (fp, "id"), (fp, "name"), (fp, "last")]
            else:
                for p in rng.sample(pool, rng.randrange(0, 5)):
                    g._ids[p] = rng.choice([0, 1, 8, 9, 10, 98, 99, 100, 999, 12345, 10**rng.randrange(1, 12) - rng.randrange(0, 3),  # pylint: disable=protected-access
                        rng.choice(FAR_STATES) - rng.randrange(0, 3)])
                script = [(rng.choice(pool), rng.choice(["id", "name", "name", "last"])) for _ in range(rng.randrange(1, 60))]
            before = dict(g._ids)  # pylint: disable=protected-access
            ops, obs = [], []
            for p, k in script:
                if k == "id":
                    v = g.next_id(p) if p or rng.random() < 0.5 else g.next_id()
                    ops.append(f"NextId {gstr(p)}")
                    obs.append(f"ONum {gN(v)}")
                elif k == "name":
                    v = next_name(p)
                    ops.append(f"NextName {gstr(p)}")
                    obs.append(f"OName {gstr(v)}")
                else:
                    ops.append(f"LastId {gstr(p)}")
                    try:
                        obs.append(f"ONum {gN(g.last_id(p))}")
                    except KeyError:
                        obs.append("OKeyError")
            after = dict(g._ids)  # pylint: disable=protected-access
            cases.append(f"({gstate(before)}, {glist(ops)}, {glist(obs)}, {gstate(after)})")
            descs.append({"before": before, "ops": ops, "observed": obs, "after": after})
    finally:
        g._ids.clear()  # pylint: disable=protected-access
        g._ids.update(saved)  # pylint: disable=protected-access
    bad = coqrun.eval_cases(ctx, "ids", PREAMBLE, cases,
        "fun c : state * list op * list obs * state => let '(s, h, o, s') := c in "
        "list_eqb obs_eqb (run_obs h s) o && state_eqb (final h s) s'")
    reported = set()
    for i in bad:
        d = descs[i]
        why = ids_spec_failure(d)
        kind = why[0] if why else "disagree"
        key = f"{ctx.prop}:ids:{kind}" if why else f"{ctx.prop}:ids:" + hashlib.sha1(cases[i].encode()).hexdigest()[:12]
        if kind in reported:
            continue           # one replay per kind is enough; the count is in evidence
        reported.add(kind)
        ctx.violation(key, (why[1] if why else "id generator and Model/Ids.v disagree") +
            f" -- counters before: {d['before']}, history {d['ops'][:8]}{'...' if len(d['ops']) > 8 else ''}, observed {d['observed'][:8]}",
            {"kind": "violation" if why else "disagreement", "input": d, "counter_state": d["before"],
            "theorem_or_tie": "correspondence Ids.run_obs ~ id_generator.py (names_fresh, next_id_monotone)", "gallina": cases[i][:3000]},
            found_input=bool(why))
    ctx.coverage["ids_far_start_states"] = len(far)
    ctx.evaluated(len(cases), len(set(cases)))
    ctx.sample({"stream": "ids", "case": descs[0]})
    ctx.coverage["ids_stream_disagreements"] = len(bad)


