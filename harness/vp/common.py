"""Shared context for every check: paths, seed/tier, violation bookkeeping, evidence.

A property driver is a module ``props/cNN.py`` exposing ``run(ctx)``.  It uses

* ``ctx.tier`` / ``ctx.seed`` / ``ctx.rng``            (one PRNG state -> every random choice)
* ``ctx.build``                                         (scratch dir under /verif/build/<id>, emptied first)
* ``ctx.static(["thm", ...])``                          (static theorems of Properties/<id>.v, re-checked now)
* ``ctx.violation(key, what, replay, found_input=...)`` (decided against known_findings.json at exit)
* ``ctx.obligation(n_total, n_ok)`` / ``ctx.cover(...)`` (numbers for evidence)
* ``ctx.finish(level, ...)``                            (writes evidence; main prints lines and exits)
"""
from __future__ import annotations

import json
import os
import random
import shutil
import sys
import time
from dataclasses import dataclass, field
from pathlib import Path

VERIF = Path(__file__).resolve().parents[2]
REPO = Path(os.environ.get("VERIF_REPO", "/repo"))
COQ = VERIF / "coq"
BUILD = VERIF / "build"
# VERIF_SCRATCH=<tag>: development runs (e.g. against a mutated scratch worktree given by VERIF_REPO) keep their build
# directory, evidence and replays apart from the registered ones
SCRATCH = os.environ.get("VERIF_SCRATCH", "")
EVIDENCE = (BUILD / f"scratch.{SCRATCH}" / "evidence") if SCRATCH else VERIF / "evidence"
REPLAYS = (BUILD / f"scratch.{SCRATCH}" / "replays") if SCRATCH else VERIF / "replays"
GUARD = "SYMPLYPHYSICS_VERIF"
PYTHON = "/venv/bin/python"


def assert_repo_on_path() -> str:
    """The implementation under test must be /repo's working tree, never an installed copy."""
    import symplyphysics  # pylint: disable=import-outside-toplevel
    f = Path(symplyphysics.__file__).resolve()
    if not str(f).startswith(str(REPO.resolve()) + os.sep):
        raise RuntimeError(f"symplyphysics imported from {f}, expected under {REPO}")
    return str(f)


@dataclass
class Violation:
    key: str
    what: str
    replay: dict
    found_input: bool = True


@dataclass
class Ctx:
    prop: str
    tier: str
    seed: int
    rng: random.Random = field(init=False)
    build: Path = field(init=False)
    t0: float = field(default_factory=time.time)
    violations: list = field(default_factory=list)
    coverage: dict = field(default_factory=dict)
    assumptions: list = field(default_factory=list)
    level: str = "proof"
    notes: list = field(default_factory=list)

    def __post_init__(self) -> None:
        self.rng = random.Random(self.seed)
        self.build = BUILD / (f"{self.prop}.{SCRATCH}" if SCRATCH else self.prop)
        if self.build.exists():
            shutil.rmtree(self.build)
        self.build.mkdir(parents=True)
        self.coverage = {
            "obligations": 0,
            "discharged": 0,
            "evaluations": 0,
            "distinct_nontrivial": 0,
            "samples": [],
            "trusted_base": [],
            "static_theorems": [],
            "axioms": [],
        }

    @property
    def quick(self) -> bool:
        return self.tier == "quick"

    def pick(self, quick, thorough):
        return quick if self.quick else thorough

    def log(self, *a) -> None:
        print("[%s %6.1fs]" % (self.prop, time.time() - self.t0), *a, file=sys.stderr, flush=True)

    # ---- bookkeeping -------------------------------------------------------------------------
    def violation(self, key: str, what: str, replay: dict, found_input: bool = True) -> None:
        """Record a (candidate) violation.  ``key`` identifies the specific failing input / item."""
        for v in self.violations:
            if v.key == key:
                return
        self.violations.append(Violation(key, what, replay, found_input))

    def obligations(self, total: int, ok: int) -> None:
        self.coverage["obligations"] += total
        self.coverage["discharged"] += ok

    def evaluated(self, n: int, nontrivial: int = 0) -> None:
        self.coverage["evaluations"] += n
        self.coverage["distinct_nontrivial"] += nontrivial

    def sample(self, s, limit: int = 8) -> None:
        if len(self.coverage["samples"]) < limit:
            self.coverage["samples"].append(s)

    def trust(self, *items: str) -> None:
        for it in items:
            if it not in self.coverage["trusted_base"]:
                self.coverage["trusted_base"].append(it)

    def assume(self, *items: str) -> None:
        for it in items:
            if it not in self.assumptions:
                self.assumptions.append(it)

    def static(self, names=None):
        """Re-check Properties/<prop>.v now; returns dict theorem -> axioms list."""
        from . import coqrun  # pylint: disable=import-outside-toplevel
        res = coqrun.check_static(self, names)
        return res


class SlowEvaluation(Exception):
    pass


class time_limit:  # pylint: disable=invalid-name
    """with time_limit(5): ...   raises SlowEvaluation when the body takes longer (main thread only; used to keep generated
    inputs on which SymPy itself takes minutes -- e.g. factoring a 60-digit number to take a root -- out of the streams)"""

    def __init__(self, seconds: float):
        self.seconds = seconds

    def __enter__(self):
        import signal  # pylint: disable=import-outside-toplevel
        def _raise(_sig, _frm):
            raise SlowEvaluation()
        self._old = signal.signal(signal.SIGALRM, _raise)
        signal.setitimer(signal.ITIMER_REAL, self.seconds)

    def __exit__(self, *exc):
        import signal  # pylint: disable=import-outside-toplevel
        signal.setitimer(signal.ITIMER_REAL, 0)
        signal.signal(signal.SIGALRM, self._old)
        return False


def json_default(o):
    try:
        import sympy  # pylint: disable=import-outside-toplevel
        if isinstance(o, sympy.Basic):
            return str(o)
    except Exception:  # pylint: disable=broad-except
        pass
    if isinstance(o, (set, frozenset)):
        return sorted(map(str, o))
    if isinstance(o, Path):
        return str(o)
    from fractions import Fraction  # pylint: disable=import-outside-toplevel
    if isinstance(o, Fraction):
        return str(o)
    return repr(o)


def dump_json(path: Path, obj) -> None:
    path.parent.mkdir(parents=True, exist_ok=True)
    tmp = path.with_suffix(path.suffix + ".tmp")
    tmp.write_text(json.dumps(obj, indent=1, default=json_default, sort_keys=False) + "\n")
    tmp.replace(path)
