"""Fixed guarded calls whose verdict the property fixes by its text; run by props/c04.py in child interpreters started in
every optimisation mode SymPy itself runs in (python, python -O): the gate is not an `assert`, it must refuse in all of them.
Prints one JSON list of [name, verdict] (verdict: null = returned, else the exception class name)."""
import json
import sys


def main() -> None:
    from sympy.physics import units
    from symplyphysics import Quantity, validate_input, validate_output
    from symplyphysics.core.quantity_decorator import validate_output_same

    m, s = Quantity(3 * units.meter), Quantity(2 * units.second)

    @validate_input(distance_=units.length, time_=units.time)
    @validate_output(units.velocity)
    def speed(distance_, time_):
        return Quantity(distance_ / time_)

    @validate_input(distance_=units.length, time_=units.time)
    @validate_output(units.velocity)
    def wrong_result(distance_, time_):
        return Quantity(distance_ * time_)

    @validate_output(units.length)
    def bare_result():
        return 100

    @validate_input(distance_=units.length)
    @validate_output_same("distance_")
    def same_wrong(distance_):
        return Quantity(distance_ * distance_)

    @validate_input(distance_=units.length)
    @validate_output_same("distance_")
    def same_right(distance_):
        return Quantity(distance_ * 2)

    @validate_output(units.length)
    def zero_result():
        return Quantity(0 * units.second)

    cases = [
        ("speed(3 m, 2 s)", lambda: speed(m, s)),
        ("speed(2 s, 3 m)", lambda: speed(s, m)),
        ("speed(100, 2 s)", lambda: speed(100, s)),
        ("speed(time_=3 m, distance_=3 m)", lambda: speed(time_=m, distance_=m)),
        ("wrong_result(3 m, 2 s) -> m*s declared velocity", lambda: wrong_result(m, s)),
        ("bare_result() -> 100 declared length", bare_result),
        ("same_wrong(3 m) -> m**2", lambda: same_wrong(m)),
        ("same_right(3 m) -> m", lambda: same_right(m)),
        ("zero_result() -> 0 s declared length", zero_result),
    ]
    out = []
    for name, fn in cases:
        try:
            fn()
            out.append([name, None])
        except Exception as e:  # pylint: disable=broad-except
            out.append([name, type(e).__name__])
    json.dump({"debug": __debug__, "optimize": sys.flags.optimize, "verdicts": out}, sys.stdout)


EXPECTED = {
    "speed(3 m, 2 s)": None,
    "speed(2 s, 3 m)": "UnitsError",
    "speed(100, 2 s)": "TypeError",
    "speed(time_=3 m, distance_=3 m)": "UnitsError",
    "wrong_result(3 m, 2 s) -> m*s declared velocity": "UnitsError",
    "bare_result() -> 100 declared length": "TypeError",
    "same_wrong(3 m) -> m**2": "UnitsError",
    "same_right(3 m) -> m": None,
    "zero_result() -> 0 s declared length": None,
}

if __name__ == "__main__":
    main()
