"""Vector-algebra expressions for C14 / C16: recipes, real-constructor builds, Coq serialisation (fail-closed),
exact/numeric evaluation, own product-rule differentiation.

Recipes (what the generator decides; the *input* side of every obligation is serialised from the recipe, never
from the SymPy object the constructors return):

  vectors : ("vsym", i) ("vzero",) ("vadd", x, y) ("vscale", s, x) ("cross", x, y) ("vfun", i) ("dvfun", i)
  scalars : ("int", n) ("rat", p, q) ("ssym", j) ("par",) ("sadd", p, q) ("smul", p, q) ("sdiv", p, q)
            ("dot", x, y) ("mixed", x, y, z) ("norm", x)

Coq names: v<i> f<i> df<i> : V3 ;  s<j> t : R.
"""
from __future__ import annotations

import math
from fractions import Fraction

import sympy
from sympy import S


class Unsupported(Exception):
    pass


VEC_TAGS = {"vsym", "vzero", "vadd", "vscale", "cross", "vfun", "dvfun", "ddvfun", "vfun2", "dvfun2", "dnvfun"}


def is_vec(r) -> bool:
    return r[0] in VEC_TAGS


def zlit(n: int) -> str:
    return str(n) if n >= 0 else f"({n})"


# ---------------------------------------------------------------------------------------------
# recipe -> Coq (Vec3 level)
# ---------------------------------------------------------------------------------------------

def coq_of_recipe(r) -> str:
    t = r[0]
    if t == "vsym":
        return f"v{r[1]}"
    if t == "vfun":
        return f"f{r[1]}"
    if t == "dvfun":
        return f"df{r[1]}"
    if t == "ddvfun":
        return f"ddf{r[1]}"
    if t == "dnvfun":
        return f"f{r[1]}_d{r[2]}"
    if t == "vfun2":
        return f"g{r[1]}"
    if t == "dvfun2":
        return f"g{r[1]}_{r[2]}"
    if t == "par2":
        return "u"
    if t == "vzero":
        return "vzero"
    if t == "vadd":
        return f"(vadd {coq_of_recipe(r[1])} {coq_of_recipe(r[2])})"
    if t == "vscale":
        return f"(vscale {coq_of_recipe(r[1])} {coq_of_recipe(r[2])})"
    if t == "cross":
        return f"(cross {coq_of_recipe(r[1])} {coq_of_recipe(r[2])})"
    if t == "int":
        return zlit(r[1])
    if t == "rat":
        return f"({zlit(r[1])} / {r[2]})"
    if t == "ssym":
        return f"s{r[1]}"
    if t == "par":
        return "t"
    if t == "sadd":
        return f"({coq_of_recipe(r[1])} + {coq_of_recipe(r[2])})"
    if t == "smul":
        return f"({coq_of_recipe(r[1])} * {coq_of_recipe(r[2])})"
    if t == "sdiv":
        return f"({coq_of_recipe(r[1])} / {coq_of_recipe(r[2])})"
    if t == "ssqrt":
        return f"(sqrt {coq_of_recipe(r[1])})"
    if t == "slog":
        return f"(ln {coq_of_recipe(r[1])})"
    if t == "dot":
        return f"(dot {coq_of_recipe(r[1])} {coq_of_recipe(r[2])})"
    if t == "mixed":
        return f"(mixed {coq_of_recipe(r[1])} {coq_of_recipe(r[2])} {coq_of_recipe(r[3])})"
    if t == "norm":
        return f"(norm {coq_of_recipe(r[1])})"
    raise Unsupported(f"recipe tag {t}")


def show_recipe(r) -> str:
    t = r[0]
    if t == "vsym":
        return "abcdefgh"[r[1]]
    if t == "vfun":
        return f"F{r[1]}(t)"
    if t == "dvfun":
        return f"F{r[1]}'(t)"
    if t == "ddvfun":
        return f"F{r[1]}''(t)"
    if t == "dnvfun":
        return f"F{r[1]}^({r[2]})(t)"
    if t == "vfun2":
        return f"G{r[1]}(t, u)"
    if t == "dvfun2":
        return f"d_{r[2]} G{r[1]}(t, u)"
    if t == "par2":
        return "u"
    if t == "vzero":
        return "0"
    if t == "vadd":
        return f"({show_recipe(r[1])} + {show_recipe(r[2])})"
    if t == "vscale":
        return f"{show_recipe(r[1])}*{show_recipe(r[2])}"
    if t == "cross":
        return f"cross({show_recipe(r[1])}, {show_recipe(r[2])})"
    if t == "int":
        return str(r[1])
    if t == "rat":
        return f"{r[1]}/{r[2]}"
    if t == "ssym":
        return "klmnpq"[r[1]]
    if t == "par":
        return "t"
    if t == "sadd":
        return f"({show_recipe(r[1])} + {show_recipe(r[2])})"
    if t == "smul":
        return f"{show_recipe(r[1])}*{show_recipe(r[2])}"
    if t == "sdiv":
        return f"({show_recipe(r[1])})/({show_recipe(r[2])})"
    if t == "ssqrt":
        return f"sqrt({show_recipe(r[1])})"
    if t == "slog":
        return f"log({show_recipe(r[1])})"
    if t == "imag":
        return "I"
    if t == "cexp":
        return f"exp(I*{'klmnpq'[r[1]]})"
    if t == "cunit8":
        return "(1+I)/sqrt(2)"
    if t == "dot":
        return f"dot({show_recipe(r[1])}, {show_recipe(r[2])})"
    if t == "mixed":
        return f"mixed({show_recipe(r[1])}, {show_recipe(r[2])}, {show_recipe(r[3])})"
    if t == "norm":
        return f"norm({show_recipe(r[1])})"
    return str(r)


def recipe_atoms(r, acc=None):
    """indices used: {'v': set, 's': set, 'f': set, 'par': bool}"""
    if acc is None:
        acc = {"v": set(), "s": set(), "f": set(), "par": False}
    t = r[0]
    if t == "vsym":
        acc["v"].add(r[1])
    elif t in ("vfun", "dvfun", "ddvfun", "dnvfun"):
        acc["f"].add(r[1])
    elif t == "ssym":
        acc["s"].add(r[1])
    elif t == "par":
        acc["par"] = True
    elif t == "par2":
        acc["par2"] = True
    elif t in ("vfun2", "dvfun2"):
        acc.setdefault("g", set()).add(r[1])
    for x in r[1:]:
        if isinstance(x, tuple):
            recipe_atoms(x, acc)
    return acc


def recipe_size(r) -> int:
    return 1 + sum(recipe_size(x) for x in r[1:] if isinstance(x, tuple))


def recipe_depth(r) -> int:
    return 1 + max([recipe_depth(x) for x in r[1:] if isinstance(x, tuple)] or [0])


def recipe_tags(r, acc=None):
    if acc is None:
        acc = {}
    acc[r[0]] = acc.get(r[0], 0) + 1
    for x in r[1:]:
        if isinstance(x, tuple):
            recipe_tags(x, acc)
    return acc


def norm_args(r, acc=None):
    """sub-recipes x of every ("norm", x) in r (outermost first)"""
    if acc is None:
        acc = []
    if r[0] == "norm":
        acc.append(r[1])
    for x in r[1:]:
        if isinstance(x, tuple):
            norm_args(x, acc)
    return acc


# ---------------------------------------------------------------------------------------------
# evaluation (Fractions; a norm makes the value a float)
# ---------------------------------------------------------------------------------------------

class Env:
    def __init__(self, vecs, scals, par=Fraction(0), funs=None, dfuns=None, ddfuns=None, par2=Fraction(1), g=None):
        self.vecs, self.scals, self.par = vecs, scals, par
        self.funs, self.dfuns, self.ddfuns = funs or [], dfuns or [], ddfuns or []
        self.par2 = par2
        self.g = g or {}             # "i" / "i_t" / "i_u" / "i_tu" -> vector: a function of (t, u) and its partial derivatives

    def to_json(self):
        j = lambda v: [str(c) for c in v]
        return {"vectors": [j(v) for v in self.vecs], "scalars": [str(s) for s in self.scals], "t": str(self.par),
            "F": [j(v) for v in self.funs], "dF": [j(v) for v in self.dfuns], "ddF": [j(v) for v in self.ddfuns],
            "u": str(self.par2), "G": {k: j(v) for k, v in self.g.items()}}

    @staticmethod
    def from_json(d):
        fr = lambda v: tuple(Fraction(c) for c in v)
        return Env([fr(v) for v in d["vectors"]], [Fraction(s) for s in d["scalars"]], Fraction(d["t"]),
            [fr(v) for v in d.get("F", [])], [fr(v) for v in d.get("dF", [])], [fr(v) for v in d.get("ddF", [])],
            Fraction(d.get("u", "1")), {k: fr(v) for k, v in d.get("G", {}).items()})


def v_add(a, b):
    return tuple(x + y for x, y in zip(a, b))


def v_scale(k, a):
    return tuple(k * x for x in a)


def v_dot(a, b):
    return sum(x * y for x, y in zip(a, b))


def v_cross(a, b):
    return (a[1] * b[2] - a[2] * b[1], a[2] * b[0] - a[0] * b[2], a[0] * b[1] - a[1] * b[0])


def v_norm(a):
    d = v_dot(a, a)
    if isinstance(d, Fraction):
        n, m = d.numerator, d.denominator
        rn, rm = math.isqrt(n), math.isqrt(m)
        if rn * rn == n and rm * rm == m:
            return Fraction(rn, rm)
    return math.sqrt(float(d))


def s_sqrt(d):
    if isinstance(d, Fraction) and d >= 0:
        n, m = d.numerator, d.denominator
        rn, rm = math.isqrt(n), math.isqrt(m)
        if rn * rn == n and rm * rm == m:
            return Fraction(rn, rm)
    if float(d) < 0:
        raise ValueError("square root of a negative number")
    return math.sqrt(float(d))


ZERO3 = (Fraction(0), Fraction(0), Fraction(0))


def eval_recipe(r, env: Env):
    t = r[0]
    if t == "vsym":
        return env.vecs[r[1]]
    if t == "vfun":
        return env.funs[r[1]]
    if t == "dvfun":
        return env.dfuns[r[1]]
    if t == "ddvfun":
        return env.ddfuns[r[1]]
    if t == "dnvfun":
        return env.g[f"f{r[1]}_d{r[2]}"]
    if t == "vfun2":
        return env.g[str(r[1])]
    if t == "dvfun2":
        return env.g[f"{r[1]}_{r[2]}"]
    if t == "par2":
        return env.par2
    if t == "vzero":
        return ZERO3
    if t == "vadd":
        return v_add(eval_recipe(r[1], env), eval_recipe(r[2], env))
    if t == "vscale":
        return v_scale(eval_recipe(r[1], env), eval_recipe(r[2], env))
    if t == "cross":
        return v_cross(eval_recipe(r[1], env), eval_recipe(r[2], env))
    if t == "int":
        return Fraction(r[1])
    if t == "rat":
        return Fraction(r[1], r[2])
    if t == "ssym":
        return env.scals[r[1]]
    if t == "par":
        return env.par
    if t == "sadd":
        return eval_recipe(r[1], env) + eval_recipe(r[2], env)
    if t == "smul":
        return eval_recipe(r[1], env) * eval_recipe(r[2], env)
    if t == "sdiv":
        return eval_recipe(r[1], env) / eval_recipe(r[2], env)
    if t == "ssqrt":
        return s_sqrt(eval_recipe(r[1], env))
    if t == "dot":
        return v_dot(eval_recipe(r[1], env), eval_recipe(r[2], env))
    if t == "mixed":
        return v_dot(eval_recipe(r[1], env), v_cross(eval_recipe(r[2], env), eval_recipe(r[3], env)))
    if t == "norm":
        return v_norm(eval_recipe(r[1], env))
    raise Unsupported(t)


def close(a, b) -> bool:
    """equal values: exact when both exact, else 1e-9 relative"""
    if isinstance(a, tuple) or isinstance(b, tuple):
        if not (isinstance(a, tuple) and isinstance(b, tuple)):
            return False
        return all(close(x, y) for x, y in zip(a, b))
    if isinstance(a, Fraction) and isinstance(b, Fraction):
        return a == b
    fa, fb = float(a), float(b)
    return abs(fa - fb) <= 1e-9 * max(1.0, abs(fa), abs(fb))


def show_value(v):
    if isinstance(v, tuple):
        return [show_value(x) for x in v]
    return str(v) if isinstance(v, Fraction) else repr(float(v))


# ---------------------------------------------------------------------------------------------
# the real objects
# ---------------------------------------------------------------------------------------------

class Objs:
    """The SymPy objects standing for the recipe's atoms.  `order` is the creation order of the vector
    symbols; `rank` (optional) assigns identity ranks: symbol i gets the object whose id() has rank rank[i]
    among freshly created ones, so every id()-order can be produced deterministically."""

    def __init__(self, nvec, nscal, nfun=0, rank=None, creation=None, spread=None, spread_rng=None, same_name=False, nfun2=0):
        from symplyphysics.core.experimental.vectors import VectorSymbol as _VS, VectorFunction  # pylint: disable=import-outside-toplevel
        # same_name: distinct symbols / functions that share one display name (they stay distinct objects with independent values)
        VectorSymbol = (lambda _n=None: _VS("v")) if same_name else _VS
        names = "abcdefgh"
        self.between = None
        if spread is not None:
            # A zoo of symbols and (cached) unevaluated cross nodes allocated alternately, so that the memory pools of the
            # two kinds of object interleave; then objects are *selected* such that the node of (p, q) lies between x and
            # y in id() order.  spread = (p, q, x, y): indices of the recipe's symbols playing these roles.
            from symplyphysics.core.experimental.vectors import VectorCross  # pylint: disable=import-outside-toplevel
            rnd = spread_rng or __import__("random").Random(0)
            zoo, nodes = [], []
            for i in range(260):
                zoo.append(VectorSymbol(None))
                if i >= 2:
                    p, q = sorted(rnd.sample(zoo[:-1], 2), key=id)
                    nodes.append((VectorCross(p, q, evaluate=False), p, q))
            self._zoo = (zoo, nodes)
            ip, iq, ix, iy = spread
            rnd.shuffle(nodes)
            chosen = None
            for nd, p, q in nodes:
                lo = [s for s in zoo if id(s) < id(nd) and s is not p and s is not q]
                hi = [s for s in zoo if id(s) > id(nd) and s is not p and s is not q]
                if lo and hi:
                    chosen = (nd, p, q, rnd.choice(lo), rnd.choice(hi))
                    break
            if chosen is not None:
                nd, p, q, x, y = chosen
                if rnd.random() < 0.5:
                    p, q = q, p
                if rnd.random() < 0.5:
                    x, y = y, x
                used = {id(p), id(q), id(x), id(y)}
                rest = [s for s in zoo if id(s) not in used]
                rnd.shuffle(rest)
                role = {ip: p, iq: q, ix: x, iy: y}
                self.vecs = [role[i] if i in role else rest.pop() for i in range(nvec)]
                self.between = VectorCross(*sorted((p, q), key=id), evaluate=False) is nd
            else:
                self.vecs = zoo[:nvec]
        elif rank is not None:
            pool = [VectorSymbol(None) for _ in range(nvec)]
            pool.sort(key=id)
            self.vecs = [pool[rank[i]] for i in range(nvec)]
        else:
            creation = creation or list(range(nvec))
            made = {}
            for i in creation:
                made[i] = VectorSymbol(names[i])
            self.vecs = [made[i] for i in range(nvec)]
        self.scals = [sympy.Symbol(f"s{j}", real=True) for j in range(nscal)]
        self.par = sympy.Symbol("t", real=True)
        self.funs = [VectorFunction("F" if same_name else f"F{i}", arguments=(self.par,))(self.par) for i in range(nfun)]
        self.par2 = sympy.Symbol("u", real=True)
        # vector functions of two (odd i: three) scalar arguments
        self.funs2 = [VectorFunction("G" if same_name else f"G{i}")(*((self.par, self.par2) if i % 2 == 0 else (self.par, self.par2, self.scals[0])))
            for i in range(nfun2)]
        self._keep = list(self.vecs)      # keep the objects alive: ids must stay unique

    def id_rank(self):
        ids = sorted(range(len(self.vecs)), key=lambda i: id(self.vecs[i]))
        rank = [0] * len(ids)
        for r, i in enumerate(ids):
            rank[i] = r
        return rank


def build(r, o: Objs, evaluate=True):
    """Run the real constructors bottom-up.  evaluate=False builds the unevaluated tree (the caller then
    asks for .doit())."""
    from symplyphysics.core.experimental import vectors as V  # pylint: disable=import-outside-toplevel
    kw = {} if evaluate else {"evaluate": False}
    t = r[0]
    if t == "vsym":
        return o.vecs[r[1]]
    if t == "vfun":
        return o.funs[r[1]]
    if t == "vfun2":
        return o.funs2[r[1]]
    if t == "par2":
        return o.par2
    if t == "vzero":
        return S.Zero
    if t == "vadd":
        return sympy.Add(build(r[1], o, evaluate), build(r[2], o, evaluate), **kw)
    if t == "vscale":
        return sympy.Mul(build(r[1], o, evaluate), build(r[2], o, evaluate), **kw)
    if t == "cross":
        return V.VectorCross(build(r[1], o, evaluate), build(r[2], o, evaluate), **kw)
    if t == "int":
        return sympy.Integer(r[1])
    if t == "rat":
        return sympy.Rational(r[1], r[2])
    if t == "ssym":
        return o.scals[r[1]]
    if t == "par":
        return o.par
    if t == "sadd":
        return sympy.Add(build(r[1], o, evaluate), build(r[2], o, evaluate), **kw)
    if t == "smul":
        return sympy.Mul(build(r[1], o, evaluate), build(r[2], o, evaluate), **kw)
    if t == "sdiv":
        return sympy.Mul(build(r[1], o, evaluate), sympy.Pow(build(r[2], o, evaluate), -1, **kw), **kw)
    if t == "ssqrt":
        return sympy.sqrt(build(r[1], o, evaluate), **kw)
    if t == "slog":
        return sympy.log(build(r[1], o, evaluate), **kw)
    if t == "imag":
        return sympy.I
    if t == "cexp":
        return sympy.exp(sympy.I * o.scals[r[1]])
    if t == "cunit8":
        return (1 + sympy.I) / sympy.sqrt(2)
    if t == "dot":
        return V.VectorDot(build(r[1], o, evaluate), build(r[2], o, evaluate), **kw)
    if t == "mixed":
        return V.VectorMixedProduct(build(r[1], o, evaluate), build(r[2], o, evaluate), build(r[3], o, evaluate), **kw)
    if t == "norm":
        return V.VectorNorm(build(r[1], o, evaluate), **kw)
    raise Unsupported(t)


# ---------------------------------------------------------------------------------------------
# SymPy output -> Coq / value   (fail-closed)
# ---------------------------------------------------------------------------------------------

class OutCtx:
    def __init__(self, o: Objs | None = None, extra_vec=None, extra_scal=None):
        self.vec_name = {}
        self.scal_name = {}
        self.fun_name = {}
        self.fun2_name = {}
        if o is not None:
            for i, v in enumerate(o.vecs):
                self.vec_name[id(v)] = f"v{i}"
            for j, s in enumerate(o.scals):
                self.scal_name[s] = f"s{j}"
            self.scal_name[o.par] = "t"
            for i, f in enumerate(o.funs):
                self.fun_name[f] = i
            self.scal_name[o.par2] = "u"
            for i, f in enumerate(getattr(o, "funs2", [])):
                self.fun2_name[f] = i
        for k, n in (extra_vec or {}).items():
            self.vec_name[k] = n
        for k, n in (extra_scal or {}).items():
            self.scal_name[k] = n
        self.den_args = []           # coq text of every base raised to a negative power
        self.norm_args = []          # (coq text of the argument, the SymPy argument)
        self.abs_args = []           # (coq text of the argument, the SymPy argument) of every Abs

    def kind(self, e) -> str:
        from symplyphysics.core.experimental import vectors as V  # pylint: disable=import-outside-toplevel
        if isinstance(e, V.VectorExpr):
            return "v"
        if isinstance(e, sympy.Add):
            ks = {self.kind(a) for a in e.args}
            if ks == {"v"}:
                return "v"
            if ks == {"s"}:
                return "s"
            raise Unsupported(f"sum mixing vectors and scalars: {e}")
        if isinstance(e, sympy.Mul):
            n = sum(1 for a in e.args if self.kind(a) == "v")
            if n == 0:
                return "s"
            if n == 1:
                return "v"
            raise Unsupported(f"product of {n} vectors: {e}")
        return "s"


def _pow_text(base: str, n: int) -> str:
    """b^n as a product of squares (so that `norm v * norm v` is a subterm and can be rewritten to v.v)"""
    if n == 0:
        return "1"
    if n == 1:
        return base
    parts = [f"({base} * {base})"] * (n // 2) + ([base] if n % 2 else [])
    return "(" + " * ".join(parts) + ")"


PARTIAL_KEYS = ("t", "u", "tt", "tu", "uu", "ttt", "ttu", "tuu", "uuu")
HIGH_ORDERS = (3, 4, 5)


def partial_tag(e, c: OutCtx):
    """VectorDerivative(G_i(t, u[, s]), ...) -> (i, "t" | "u" | "tu"); None if not of that form"""
    if e.args[0] not in c.fun2_name:
        return None
    counts = {}
    for var, n in e.args[1:]:
        name = c.scal_name.get(var)
        if name not in ("t", "u"):
            return None
        counts[name] = counts.get(name, 0) + int(n)
    key = "".join(k * counts[k] for k in sorted(counts))
    if key not in PARTIAL_KEYS:
        return None
    return c.fun2_name[e.args[0]], key


def coq_of_sympy(e, c: OutCtx, want: str) -> str:
    """want = 'v' | 's' : the type the context requires (decides what a bare 0 means)."""
    from symplyphysics.core.experimental import vectors as V  # pylint: disable=import-outside-toplevel
    e = sympy.sympify(e)
    if want == "v":
        if e == 0:
            return "vzero"
        if isinstance(e, V.VectorSymbol):
            if id(e) not in c.vec_name:
                raise Unsupported(f"unknown vector symbol {e}")
            return c.vec_name[id(e)]
        if isinstance(e, V.AppliedVectorFunction) and e not in c.fun2_name:
            if e not in c.fun_name:
                raise Unsupported(f"unknown vector function application {e}")
            return f"f{c.fun_name[e]}"
        if isinstance(e, V.AppliedVectorFunction) and e in c.fun2_name:
            return f"g{c.fun2_name[e]}"
        if isinstance(e, V.VectorDerivative) and partial_tag(e, c):
            i, key = partial_tag(e, c)
            return f"g{i}_{key}"
        if isinstance(e, V.VectorDerivative):
            if len(e.args) == 2 and e.args[0] in c.fun_name and e.args[1][0] == c_par(c) and int(e.args[1][1]) in HIGH_ORDERS:
                return f"f{c.fun_name[e.args[0]]}_d{int(e.args[1][1])}"
            if len(e.args) == 2 and e.args[0] in c.fun_name and tuple(e.args[1]) in ((c_par(c), 1), (c_par(c), 2)):
                return ("df" if e.args[1][1] == 1 else "ddf") + str(c.fun_name[e.args[0]])
            raise Unsupported(f"derivative form {e}")
        if isinstance(e, V.VectorCross):
            return f"(cross {coq_of_sympy(e.args[0], c, 'v')} {coq_of_sympy(e.args[1], c, 'v')})"
        if isinstance(e, sympy.Add):
            parts = [coq_of_sympy(a, c, "v") for a in e.args]
            out = parts[0]
            for p in parts[1:]:
                out = f"(vadd {out} {p})"
            return out
        if isinstance(e, sympy.Mul):
            vs = [a for a in e.args if c.kind(a) == "v"]
            ss = [a for a in e.args if c.kind(a) != "v"]
            if len(vs) != 1:
                raise Unsupported(f"product with {len(vs)} vector factors: {e}")
            k = " * ".join(coq_of_sympy(a, c, "s") for a in ss) if ss else "1"
            return f"(vscale ({k}) {coq_of_sympy(vs[0], c, 'v')})"
        raise Unsupported(f"vector node {type(e).__name__}: {e}")
    # scalar
    if isinstance(e, V.VectorExpr):
        raise Unsupported(f"vector {e} where a scalar is required")
    if isinstance(e, sympy.Integer):
        return zlit(int(e))
    if isinstance(e, sympy.Rational):
        return f"({zlit(int(e.p))} / {int(e.q)})"
    if isinstance(e, sympy.Symbol):
        if e not in c.scal_name:
            raise Unsupported(f"unknown scalar symbol {e}")
        return c.scal_name[e]
    if isinstance(e, sympy.Add):
        return "(" + " + ".join(coq_of_sympy(a, c, "s") for a in e.args) + ")"
    if isinstance(e, sympy.Mul):
        if c.kind(e) != "s":
            raise Unsupported(f"vector {e} where a scalar is required")
        return "(" + " * ".join(coq_of_sympy(a, c, "s") for a in e.args) + ")"
    if isinstance(e, sympy.Pow):
        b, x = e.args
        if isinstance(x, sympy.Integer) and int(x) >= 0 and int(x) <= 8:
            return _pow_text(coq_of_sympy(b, c, "s"), int(x))
        if isinstance(x, sympy.Integer) and -8 <= int(x) < 0:
            bt = coq_of_sympy(b, c, "s")
            c.den_args.append(bt)
            return f"(/ {_pow_text(bt, -int(x))})"
        if x == sympy.Rational(1, 2):
            return f"(sqrt {coq_of_sympy(b, c, 's')})"
        if x == sympy.Rational(-1, 2):
            bt = f"(sqrt {coq_of_sympy(b, c, 's')})"
            c.den_args.append(bt)
            return f"(/ {bt})"
        raise Unsupported(f"power {e}")
    if isinstance(e, sympy.log):
        return f"(ln {coq_of_sympy(e.args[0], c, 's')})"
    if isinstance(e, sympy.Abs):
        a = coq_of_sympy(e.args[0], c, "s")
        c.abs_args.append((a, e.args[0]))
        return f"(Rabs {a})"
    if isinstance(e, V.VectorDot):
        return f"(dot {coq_of_sympy(e.args[0], c, 'v')} {coq_of_sympy(e.args[1], c, 'v')})"
    if isinstance(e, V.VectorMixedProduct):
        a, b, d = (coq_of_sympy(x, c, "v") for x in e.args)
        return f"(mixed {a} {b} {d})"
    if isinstance(e, V.VectorNorm):
        a = coq_of_sympy(e.args[0], c, "v")
        c.norm_args.append((a, e.args[0]))
        return f"(norm {a})"
    raise Unsupported(f"scalar node {type(e).__name__}: {e}")


def c_par(c: OutCtx):
    for k, n in c.scal_name.items():
        if n == "t":
            return k
    return None


def eval_sympy(e, c: OutCtx, env: Env, want: str):
    """Own evaluator over the output tree (never SymPy's subs/evalf)."""
    from symplyphysics.core.experimental import vectors as V  # pylint: disable=import-outside-toplevel
    e = sympy.sympify(e)
    if want == "v":
        if e == 0:
            return ZERO3
        if isinstance(e, V.VectorSymbol):
            return env.vecs[int(c.vec_name[id(e)][1:])]
        if isinstance(e, V.AppliedVectorFunction) and e in c.fun2_name:
            return env.g[str(c.fun2_name[e])]
        if isinstance(e, V.VectorDerivative) and partial_tag(e, c):
            i, key = partial_tag(e, c)
            return env.g[f"{i}_{key}"]
        if isinstance(e, V.AppliedVectorFunction):
            return env.funs[c.fun_name[e]]
        if isinstance(e, V.VectorDerivative):
            if len(e.args) == 2 and e.args[0] in c.fun_name and int(e.args[1][1]) in HIGH_ORDERS:
                return env.g[f"f{c.fun_name[e.args[0]]}_d{int(e.args[1][1])}"]
            if len(e.args) == 2 and e.args[0] in c.fun_name and int(e.args[1][1]) in (1, 2):
                return (env.dfuns if int(e.args[1][1]) == 1 else env.ddfuns)[c.fun_name[e.args[0]]]
            raise Unsupported(f"derivative form {e}")
        if isinstance(e, V.VectorCross):
            return v_cross(eval_sympy(e.args[0], c, env, "v"), eval_sympy(e.args[1], c, env, "v"))
        if isinstance(e, sympy.Add):
            out = ZERO3
            for a in e.args:
                out = v_add(out, eval_sympy(a, c, env, "v"))
            return out
        if isinstance(e, sympy.Mul):
            vs = [a for a in e.args if c.kind(a) == "v"]
            ss = [a for a in e.args if c.kind(a) != "v"]
            if len(vs) != 1:
                raise Unsupported(f"product with {len(vs)} vector factors: {e}")
            k = Fraction(1)
            for a in ss:
                k = k * eval_sympy(a, c, env, "s")
            return v_scale(k, eval_sympy(vs[0], c, env, "v"))
        raise Unsupported(f"vector node {type(e).__name__}")
    if isinstance(e, sympy.Integer):
        return Fraction(int(e))
    if isinstance(e, sympy.Rational):
        return Fraction(int(e.p), int(e.q))
    if isinstance(e, sympy.Symbol):
        n = c.scal_name[e]
        if n == "u":
            return env.par2
        return env.par if n == "t" else env.scals[int(n[1:])]
    if isinstance(e, sympy.Add):
        out = Fraction(0)
        for a in e.args:
            out = out + eval_sympy(a, c, env, "s")
        return out
    if isinstance(e, sympy.Mul):
        out = Fraction(1)
        for a in e.args:
            out = out * eval_sympy(a, c, env, "s")
        return out
    if isinstance(e, sympy.Pow):
        b, x = e.args
        bv = eval_sympy(b, c, env, "s")
        if isinstance(x, sympy.Integer):
            if int(x) < 0 and bv == 0:
                raise ZeroDivisionError(str(e))
            return bv**int(x)
        if x == sympy.Rational(1, 2):
            return math.sqrt(float(bv))
        raise Unsupported(f"power {e}")
    if isinstance(e, sympy.Abs):
        return abs(eval_sympy(e.args[0], c, env, "s"))
    if isinstance(e, V.VectorDot):
        return v_dot(eval_sympy(e.args[0], c, env, "v"), eval_sympy(e.args[1], c, env, "v"))
    if isinstance(e, V.VectorMixedProduct):
        a, b, d = (eval_sympy(x, c, env, "v") for x in e.args)
        return v_dot(a, v_cross(b, d))
    if isinstance(e, V.VectorNorm):
        return v_norm(eval_sympy(e.args[0], c, env, "v"))
    raise Unsupported(f"scalar node {type(e).__name__}: {e}")


# ---------------------------------------------------------------------------------------------
# own differentiation of a recipe w.r.t. the parameter (the specification: linearity + product rule)
# ---------------------------------------------------------------------------------------------

def diff_recipe(r, wrt="t"):
    """d/dt (wrt="t") or d/du (wrt="u"): linearity and the product rule; derivatives of vector functions are atoms"""
    if wrt == "u":
        return _diff_u(r)
    t = r[0]
    if t in ("vsym", "vzero"):
        return ("vzero",)
    if t == "vfun":
        return ("dvfun", r[1])
    if t == "dvfun":
        return ("ddvfun", r[1])
    if t == "ddvfun":
        return ("dnvfun", r[1], 3)
    if t == "dnvfun" and r[2] + 1 in HIGH_ORDERS:
        return ("dnvfun", r[1], r[2] + 1)
    if t == "vfun2":
        return ("dvfun2", r[1], "t")
    if t == "dvfun2" and "".join(sorted(r[2] + "t")) in PARTIAL_KEYS:
        return ("dvfun2", r[1], "".join(sorted(r[2] + "t")))
    if t == "par2":
        return ("int", 0)
    if t == "vadd":
        return ("vadd", diff_recipe(r[1]), diff_recipe(r[2]))
    if t == "vscale":
        return ("vadd", ("vscale", diff_recipe(r[1]), r[2]), ("vscale", r[1], diff_recipe(r[2])))
    if t == "cross":
        return ("vadd", ("cross", diff_recipe(r[1]), r[2]), ("cross", r[1], diff_recipe(r[2])))
    if t in ("int", "rat", "ssym"):
        return ("int", 0)
    if t == "par":
        return ("int", 1)
    if t == "sadd":
        return ("sadd", diff_recipe(r[1]), diff_recipe(r[2]))
    if t == "smul":
        return ("sadd", ("smul", diff_recipe(r[1]), r[2]), ("smul", r[1], diff_recipe(r[2])))
    if t == "dot":
        return ("sadd", ("dot", diff_recipe(r[1]), r[2]), ("dot", r[1], diff_recipe(r[2])))
    if t == "mixed":
        a, b, c = r[1:]
        return ("sadd", ("mixed", diff_recipe(a), b, c), ("sadd", ("mixed", a, diff_recipe(b), c), ("mixed", a, b, diff_recipe(c))))
    if t == "norm":
        # d|v| = (v . dv) / |v|   (where |v| <> 0)
        return ("sdiv", ("dot", r[1], diff_recipe(r[1])), ("norm", r[1]))
    raise Unsupported(f"diff of {t}")


def _diff_u(r):
    t = r[0]
    D = _diff_u
    if t in ("vsym", "vzero", "vfun", "dvfun", "ddvfun", "dnvfun"):
        return ("vzero",)
    if t == "vfun2":
        return ("dvfun2", r[1], "u")
    if t == "dvfun2" and "".join(sorted(r[2] + "u")) in PARTIAL_KEYS:
        return ("dvfun2", r[1], "".join(sorted(r[2] + "u")))
    if t == "vadd":
        return ("vadd", D(r[1]), D(r[2]))
    if t == "vscale":
        return ("vadd", ("vscale", D(r[1]), r[2]), ("vscale", r[1], D(r[2])))
    if t == "cross":
        return ("vadd", ("cross", D(r[1]), r[2]), ("cross", r[1], D(r[2])))
    if t in ("int", "rat", "ssym", "par"):
        return ("int", 0)
    if t == "par2":
        return ("int", 1)
    if t == "sadd":
        return ("sadd", D(r[1]), D(r[2]))
    if t == "smul":
        return ("sadd", ("smul", D(r[1]), r[2]), ("smul", r[1], D(r[2])))
    if t == "dot":
        return ("sadd", ("dot", D(r[1]), r[2]), ("dot", r[1], D(r[2])))
    if t == "mixed":
        a, b, c = r[1:]
        return ("sadd", ("mixed", D(a), b, c), ("sadd", ("mixed", a, D(b), c), ("mixed", a, b, D(c))))
    raise Unsupported(f"d/du of {t}")


# ---------------------------------------------------------------------------------------------
# component polynomials (proof *guidance* only: which output norm an input norm is a multiple of)
# ---------------------------------------------------------------------------------------------

_comp_syms = {}


def _cs(name):
    if name not in _comp_syms:
        _comp_syms[name] = sympy.Symbol(name)
    return _comp_syms[name]


def _vec_syms(prefix):
    return tuple(_cs(f"{prefix}{ax}") for ax in "xyz")


def comps_of_recipe(r):
    t = r[0]
    if t == "vsym":
        return _vec_syms(f"v{r[1]}")
    if t == "vfun":
        return _vec_syms(f"f{r[1]}")
    if t == "dvfun":
        return _vec_syms(f"df{r[1]}")
    if t == "ddvfun":
        return _vec_syms(f"ddf{r[1]}")
    if t == "vzero":
        return (S.Zero, S.Zero, S.Zero)
    if t == "vadd":
        return tuple(x + y for x, y in zip(comps_of_recipe(r[1]), comps_of_recipe(r[2])))
    if t == "vscale":
        k = comps_of_recipe(r[1])
        return tuple(k * x for x in comps_of_recipe(r[2]))
    if t == "cross":
        return v_cross(comps_of_recipe(r[1]), comps_of_recipe(r[2]))
    if t == "int":
        return sympy.Integer(r[1])
    if t == "rat":
        return sympy.Rational(r[1], r[2])
    if t == "ssym":
        return _cs(f"s{r[1]}")
    if t == "par":
        return _cs("t")
    if t == "sadd":
        return comps_of_recipe(r[1]) + comps_of_recipe(r[2])
    if t == "smul":
        return comps_of_recipe(r[1]) * comps_of_recipe(r[2])
    if t == "sdiv":
        return comps_of_recipe(r[1]) / comps_of_recipe(r[2])
    if t == "dot":
        return v_dot(comps_of_recipe(r[1]), comps_of_recipe(r[2]))
    if t == "mixed":
        return v_dot(comps_of_recipe(r[1]), v_cross(comps_of_recipe(r[2]), comps_of_recipe(r[3])))
    if t == "norm":
        return _cs("N[" + coq_of_recipe(r[1]) + "]")
    if t == "ssqrt":
        return sympy.sqrt(comps_of_recipe(r[1]))
    if t == "slog":
        return sympy.log(comps_of_recipe(r[1]))
    raise Unsupported(t)


def _quiet(c: OutCtx) -> OutCtx:
    import copy  # pylint: disable=import-outside-toplevel
    q = copy.copy(c)
    q.norm_args, q.abs_args, q.den_args = [], [], []
    return q


def comps_of_sympy(e, c: OutCtx, want: str):
    from symplyphysics.core.experimental import vectors as V  # pylint: disable=import-outside-toplevel
    e = sympy.sympify(e)
    if want == "v":
        if e == 0:
            return (S.Zero, S.Zero, S.Zero)
        if isinstance(e, V.VectorSymbol):
            return _vec_syms(c.vec_name[id(e)])
        if isinstance(e, V.AppliedVectorFunction):
            return _vec_syms(f"f{c.fun_name[e]}")
        if isinstance(e, V.VectorDerivative):
            return _vec_syms(("df" if int(e.args[1][1]) == 1 else "ddf") + str(c.fun_name[e.args[0]]))
        if isinstance(e, V.VectorCross):
            return v_cross(comps_of_sympy(e.args[0], c, "v"), comps_of_sympy(e.args[1], c, "v"))
        if isinstance(e, sympy.Add):
            out = (S.Zero, S.Zero, S.Zero)
            for a in e.args:
                out = tuple(x + y for x, y in zip(out, comps_of_sympy(a, c, "v")))
            return out
        if isinstance(e, sympy.Mul):
            vs = [a for a in e.args if c.kind(a) == "v"]
            k = S.One
            for a in e.args:
                if c.kind(a) != "v":
                    k = k * comps_of_sympy(a, c, "s")
            return tuple(k * x for x in comps_of_sympy(vs[0], c, "v"))
        raise Unsupported(str(e))
    if isinstance(e, (sympy.Integer, sympy.Rational)):
        return e
    if isinstance(e, sympy.Symbol):
        return _cs(c.scal_name[e])
    if isinstance(e, sympy.Add):
        return sum((comps_of_sympy(a, c, "s") for a in e.args), S.Zero)
    if isinstance(e, sympy.Mul):
        out = S.One
        for a in e.args:
            out = out * comps_of_sympy(a, c, "s")
        return out
    if isinstance(e, sympy.Pow):
        return comps_of_sympy(e.args[0], c, "s")**e.args[1]
    if isinstance(e, sympy.Abs):
        return _cs("A[" + coq_of_sympy(e.args[0], _quiet(c), "s") + "]")
    if isinstance(e, V.VectorDot):
        return v_dot(comps_of_sympy(e.args[0], c, "v"), comps_of_sympy(e.args[1], c, "v"))
    if isinstance(e, V.VectorMixedProduct):
        a, b, d = (comps_of_sympy(x, c, "v") for x in e.args)
        return v_dot(a, v_cross(b, d))
    if isinstance(e, V.VectorNorm):
        return _cs("N[" + coq_of_sympy(e.args[0], _quiet(c), "v") + "]")
    raise Unsupported(str(e))


def scalar_poly_to_coq(p) -> str:
    """A polynomial over the component symbols / scalar symbols back to Coq text (guidance output: the factor
    k in  norm(P) = |k| norm(Q);  the replacement is *proved* in Coq, so a wrong k only fails the lemma)."""
    p = sympy.sympify(p)
    if isinstance(p, sympy.Integer):
        return zlit(int(p))
    if isinstance(p, sympy.Rational):
        return f"({zlit(int(p.p))} / {int(p.q)})"
    if isinstance(p, sympy.Symbol):
        n = p.name
        if n.startswith("N["):
            return f"(norm {n[2:-1]})"
        if n.startswith("A["):
            return f"(Rabs {n[2:-1]})"
        if n[0] in "vf" or n.startswith("df") or n.startswith("ddf"):
            return f"(v{n[-1]} {n[:-1]})"
        return n
    if isinstance(p, sympy.Add):
        return "(" + " + ".join(scalar_poly_to_coq(a) for a in p.args) + ")"
    if isinstance(p, sympy.Mul):
        return "(" + " * ".join(scalar_poly_to_coq(a) for a in p.args) + ")"
    if isinstance(p, sympy.Pow) and isinstance(p.args[1], sympy.Integer) and 0 <= int(p.args[1]) <= 8:
        return _pow_text(scalar_poly_to_coq(p.args[0]), int(p.args[1]))
    if isinstance(p, sympy.Pow) and isinstance(p.args[1], sympy.Integer) and -8 <= int(p.args[1]) < 0:
        return f"(/ {_pow_text(scalar_poly_to_coq(p.args[0]), -int(p.args[1]))})"
    raise Unsupported(f"factor {p}")


def binder(atoms, with_funs=True) -> str:
    parts = []
    vs = [f"v{i}" for i in sorted(atoms["v"])]
    if with_funs:
        vs += [f"f{i}" for i in sorted(atoms["f"])] + [f"df{i}" for i in sorted(atoms["f"])] + [f"ddf{i}" for i in sorted(atoms["f"])]
        if atoms.get("high"):
            vs += [f"f{i}_d{n}" for i in sorted(atoms["f"]) for n in HIGH_ORDERS]
    if vs:
        parts.append("(" + " ".join(vs) + " : V3)")
    if with_funs:
        for i in sorted(atoms.get("g", ())):
            vs += [f"g{i}"] + [f"g{i}_{k}" for k in (PARTIAL_KEYS if atoms.get("high") else ("t", "u", "tu"))]
        if atoms.get("g") and parts:
            parts[0] = "(" + " ".join(vs) + " : V3)"
        elif atoms.get("g"):
            parts.append("(" + " ".join(vs) + " : V3)")
    ss = [f"s{j}" for j in sorted(atoms["s"])] + (["t"] if atoms["par"] else []) + (["u"] if atoms.get("par2") else [])
    if ss:
        parts.append("(" + " ".join(ss) + " : R)")
    return " ".join(parts)
