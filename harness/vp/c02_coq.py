"""C02: triage of generated lemmas (which ones does the portfolio close, and how fast) without stopping at failures.

    triage(ctx, name, preamble, lemmas, tactic) -> {lemma name: (closed: bool, seconds | None)}

Each lemma is emitted as `Goal stmt. Proof. tryif solve [tac] then idtac "VPOK:n" else idtac "VPFAIL:n". Abort.` so one
coqc run per shard reports on every lemma.  Nothing is *claimed* from a triage run: accepted lemmas are re-compiled
with `Qed` by coqrun.prove_lemmas."""
from __future__ import annotations

import re
import time

from . import coqrun


def triage(ctx, name, preamble, lemmas, tactic="c02_solve", nshards=16, timeout=1500):
    d = ctx.build / "triage"
    d.mkdir(exist_ok=True, parents=True)
    shards = [lemmas[i::nshards] for i in range(nshards)]
    shards = [s for s in shards if s]
    files = []
    for k, sh in enumerate(shards):
        f = d / f"{name}_{k:03d}.v"
        parts = [preamble]
        for lm in sh:
            tac = lm.proof.strip().rstrip(".") if lm.proof.strip() else tactic
            parts.append(f"Goal {lm.statement}.\nProof.\n  idtac \"VPBEGIN:{lm.name}\".\n"
                f"  tryif (solve [ {tac} ]) then idtac \"VPOK:{lm.name}\" else idtac \"VPFAIL:{lm.name}\".\nAbort.\n")
        f.write_text("\n".join(parts))
        files.append(f)
    t0 = time.time()
    results = coqrun._run_parallel([(lambda f=f: coqrun.coqc(f, timeout)) for f in files])  # pylint: disable=protected-access
    out = {}
    for sh, f, (rc, so, se, _dt) in zip(shards, files, results):
        ok = set(re.findall(r"VPOK:(\S+)", so))
        bad = set(re.findall(r"VPFAIL:(\S+)", so))
        for lm in sh:
            if lm.name in ok:
                out[lm.name] = (True, "")
            elif lm.name in bad:
                out[lm.name] = (False, "no tactic of the portfolio closes the goal")
            else:
                out[lm.name] = (False, f"not reached / coq error rc={rc}: {coqrun._flat(se)[-300:]}")  # pylint: disable=protected-access
    return out, time.time() - t0
