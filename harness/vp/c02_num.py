"""C02 numeric side: (1) tie of the extracted closed form to the REAL decorated function, (2) the specification
predicate of the property evaluated on the real function (law residual), (3) search for a failing argument tuple.

Everything here is *test* evidence; it never discharges an obligation."""
from __future__ import annotations

import math

import sympy
from sympy.physics import units as U
from sympy.physics.units import Quantity as SymQuantity

from .c02_extract import SVec

REL = 1e-9

ALT = {
    "meter": ["kilometer", "centimeter", "millimeter", "inch", "foot"],
    "kilogram": ["gram", "milligram", "pound", "tonne"],
    "second": ["minute", "hour", "millisecond", "microsecond"],
}
PREFIXES = ["kilo", "milli", "micro", "mega", "nano", "centi"]
RANGES = [(1e-6, 1e6), (1e-3, 1e3), (0.1, 10.0), (0.5, 2.0), (1e-18, 1e-16)]


def si_float(x) -> float | complex:
    from symplyphysics import convert_to_si  # pylint: disable=import-outside-toplevel
    if isinstance(x, SymQuantity):
        v = sympy.N(convert_to_si(x))
    else:
        v = sympy.N(sympy.sympify(x))
    c = complex(v)
    return c.real if abs(c.imag) <= 1e-12 * max(1.0, abs(c.real)) else c


def random_unit(rng, dim):
    """A unit expression of dimension `dim` other than the plain SI one (random base-unit variants and prefix)."""
    from symplyphysics.core.dimensions import dimension_to_si_unit  # pylint: disable=import-outside-toplevel
    unit = sympy.sympify(dimension_to_si_unit(dim))
    desc = []
    for base, alts in ALT.items():
        b = getattr(U, base)
        if unit.has(b) and rng.random() < 0.5:
            a = rng.choice(alts)
            unit = unit.xreplace({b: getattr(U, a)})
            desc.append(a)
    if rng.random() < 0.35:
        p = rng.choice(PREFIXES)
        unit = getattr(U, p) * unit
        desc.append(p)
    return unit, "*".join(desc) or "SI"


def draw_magnitude(rng, lo, hi, sign_ok):
    m = math.exp(rng.uniform(math.log(lo), math.log(hi)))
    m = float(f"{m:.6g}")
    if sign_ok and rng.random() < 0.35:
        m = -m
    return m


def _is_angle(dim) -> bool:
    from sympy.physics.units.systems.si import dimsys_SI  # pylint: disable=import-outside-toplevel
    if dim is None:
        return False
    deps = dimsys_SI.get_dimensional_dependencies(dim)
    return len(deps) == 1 and str(getattr(next(iter(deps)), "name", next(iter(deps)))) == "angle"


def make_quantity_exact(rng, dim, si_value):
    """Exact variant: `si_value` is a sympy Rational; the quantity is written in a random unit with an exact number."""
    from symplyphysics import Quantity, convert_to_si  # pylint: disable=import-outside-toplevel
    if _is_angle(dim):
        q = Quantity(si_value * U.radian)
        return q, sympy.nsimplify(convert_to_si(q)), "radian"
    unit, desc = random_unit(rng, dim)
    scale = sympy.nsimplify(convert_to_si(Quantity(unit)))
    if not scale.is_Rational:
        from symplyphysics.core.dimensions import dimension_to_si_unit  # pylint: disable=import-outside-toplevel
        unit, desc, scale = dimension_to_si_unit(dim), "SI", sympy.S.One
    q = Quantity((si_value / scale) * unit)
    return q, sympy.nsimplify(convert_to_si(q)), desc + "(exact)"


def make_quantity(rng, dim, si_value, plain_ok=False):
    """A Quantity whose SI value is (up to float rounding) `si_value`, written in a random unit.
    Returns (object passed to the function, the SI value it actually denotes, description)."""
    from symplyphysics import Quantity  # pylint: disable=import-outside-toplevel
    if dim is None:
        return si_value, float(si_value), "number"
    if _is_angle(dim):
        if rng.random() < 0.5:
            q = Quantity(si_value * U.radian)
            return q, float(si_float(q)), "radian"
        deg = si_value * 180 / math.pi
        q = Quantity(sympy.Float(deg) * U.degree)
        return q, float(si_float(q)), "degree"
    unit, desc = random_unit(rng, dim)
    try:
        scale = float(si_float(Quantity(unit)))
        q = Quantity(sympy.Float(si_value / scale) * unit)
        if plain_ok and desc == "SI" and rng.random() < 0.5 and not unit.atoms(SymQuantity):
            return float(si_value), float(si_value), "float"
        return q, float(si_float(q)), desc
    except Exception:  # pylint: disable=broad-except
        from symplyphysics.core.dimensions import dimension_to_si_unit  # pylint: disable=import-outside-toplevel
        q = Quantity(sympy.Float(si_value) * dimension_to_si_unit(dim), dimension=dim)
        return q, float(si_float(q)), "SI"


def _sign_ok(sym) -> bool:
    return not (sym.is_positive or sym.is_nonnegative)


def _dimless(dim) -> bool:
    from sympy.physics.units.systems.si import dimsys_SI  # pylint: disable=import-outside-toplevel
    return dim is not None and not dimsys_SI.get_dimensional_dependencies(dim)


CANDIDATE_DIMS = ["length", "time", "mass", "velocity", "acceleration", "force", "energy", "power", "pressure", "charge",
    "current", "voltage", "temperature", "frequency", "area", "volume", "momentum", "amount_of_substance"]


def leaf_plan(ex, override=None):
    """symbol -> (dimension | None, how it is passed: "quantity" | "number" | "either" | "int").
    Unguarded parameters take the dimension of the law symbol they are substituted for."""
    from . import c02_extract as X  # pylint: disable=import-outside-toplevel
    plan = {}
    inferred = {}
    for b in ex.branches:
        for k, v in b.subs_log:
            if isinstance(v, sympy.Symbol) and getattr(k, "dimension", None) is not None:
                inferred.setdefault(v, k.dimension)
    for a in ex.args:
        for s in a.syms:
            dim = X._DIMS.get(s.name)  # pylint: disable=protected-access
            leaf = X._LEAF.get(s.name, "Quantity")  # pylint: disable=protected-access
            guarded = dim is not None
            if dim is None and s in inferred:
                dim = inferred[s]
            if dim is None and override and "Quantity" in leaf:
                dim = override
            if leaf == "int" or (s.is_integer and "Quantity" not in leaf):
                how = "int"
                if dim is not None and not (_dimless(dim) or _is_angle(dim)):
                    how = "quantity"
            elif dim is not None and not (_dimless(dim) or _is_angle(dim)):
                how = "quantity"
            elif "Quantity" in leaf and ("float" in leaf or "int" in leaf):
                how = "either"
            elif "Quantity" in leaf:
                how = "quantity"
            else:
                how = "number"
            plan[s] = (dim, how, guarded)
    return plan


def _draw_leaf(sym, plan, rng, lo, hi, small, exact=False):
    from symplyphysics import Quantity  # pylint: disable=import-outside-toplevel
    dim, how, _g = plan[sym]
    if exact and how != "int":
        sign = -1 if (_sign_ok(sym) and rng.random() < 0.3) else 1
        m = sympy.Rational(str(float(f"{draw_magnitude(rng, lo, hi, False):.4g}"))) * sign
        if _is_angle(dim):
            m = sympy.Rational(rng.randint(1, 150), 100) * sign
        if sym.is_integer:
            m = sympy.Integer(rng.randint(1, 6))
        if how == "number" or (how == "either" and rng.random() < 0.5):
            return m, m, "number(exact)"
        if dim is None or _dimless(dim):
            return Quantity(m), m, "dimensionless(exact)"
        return make_quantity_exact(rng, dim, m)
    sign = -1 if (_sign_ok(sym) and rng.random() < 0.3) else 1
    if how == "int":
        v = rng.randint(1, 6)
        return v, v, "int"
    if _is_angle(dim):
        m = float(f"{rng.uniform(0.02, 1.5):.6g}") * sign
    elif small:
        m = float(rng.choice([1, 2, 3, 5, 7, 0.5, 1.5, 0.25])) * sign
    else:
        m = draw_magnitude(rng, lo, hi, False) * sign
    if sym.is_integer:
        m = rng.randint(1, 6)
    from . import c02_extract as X  # pylint: disable=import-outside-toplevel
    if "Rational" in X._LEAF.get(sym.name, ""):  # pylint: disable=protected-access
        r = sympy.Rational(rng.randint(11, 30), 10)
        return r, float(r), "rational"
    if how == "number" or (how == "either" and rng.random() < 0.5):
        return m, m, "number"
    if dim is None or _dimless(dim):
        q = Quantity(sympy.Float(m))
        return q, float(si_float(q)), "dimensionless"
    return make_quantity(rng, dim, m)


def draw_call(ex, rng, lo, hi, small_ints=False, plan=None, exact=False):
    from symplyphysics.core.vectors.vectors import QuantityVector  # pylint: disable=import-outside-toplevel
    from symplyphysics import Quantity  # pylint: disable=import-outside-toplevel
    plan = plan or leaf_plan(ex)
    kwargs, env, desc = {}, {}, {}

    def walk(v, d):
        if isinstance(v, SVec):
            qs = []
            for s in v.components:
                obj, si, how = _draw_leaf(s, plan, rng, lo, hi, small_ints, exact)
                if not isinstance(obj, SymQuantity):
                    obj = Quantity(obj)
                env[s] = si
                d.append(how)
                qs.append(obj)
            return QuantityVector(qs)
        if isinstance(v, (list, tuple)):
            out = [walk(x, d) for x in v]
            return tuple(out) if isinstance(v, tuple) else out
        if isinstance(v, sympy.Pow) and v.base in plan:      # expression-valued parameter  b ** unknown
            obj, si, how = _draw_leaf(v.base, plan, rng, lo, hi, small_ints, exact)
            env[v.base] = si
            d.append(how + "**unknown")
            return sympy.sympify(obj) ** v.exp
        obj, si, how = _draw_leaf(v, plan, rng, lo, hi, small_ints, exact)
        env[v] = si
        d.append(how)
        return obj

    for a in ex.args:
        d: list = []
        kwargs[a.param] = walk(a.value, d)
        desc[a.param] = d
    return kwargs, env, desc


def perturb_kwargs(kwargs, rng, eps=1e-12):
    """The same call with every real-valued argument changed by a relative eps (sensitivity probe of the real function)."""
    from symplyphysics.core.vectors.vectors import QuantityVector  # pylint: disable=import-outside-toplevel
    from symplyphysics import Quantity  # pylint: disable=import-outside-toplevel

    def p(v):
        f = 1 + eps * rng.choice([-1, 1])
        if isinstance(v, QuantityVector):
            return QuantityVector([p(c) for c in v.components])
        if isinstance(v, (list, tuple)):
            out = [p(x) for x in v]
            return tuple(out) if isinstance(v, tuple) else out
        if isinstance(v, SymQuantity):
            return Quantity(v * sympy.Float(f))
        if isinstance(v, float):
            return v * f
        return v
    return {k: p(v) for k, v in kwargs.items()}


def result_si(res):
    """Canonical numeric form of what the real function returned."""
    from symplyphysics.core.vectors.vectors import QuantityVector  # pylint: disable=import-outside-toplevel
    if isinstance(res, QuantityVector):
        return [si_float(c) for c in res.components]
    if isinstance(res, (tuple, list)):
        return [result_si(r) for r in res]
    return si_float(res)


PREC = [30]


def numeric(expr, env, prec=None):
    """Evaluate a closed form at SI values (constants at their SI values)."""
    prec = prec or PREC[0]
    from symplyphysics import convert_to_si  # pylint: disable=import-outside-toplevel
    e = sympy.sympify(expr)
    rep = {s: sympy.Float(v, prec) if isinstance(v, float) else sympy.sympify(v) for s, v in env.items()}
    for q in e.atoms(SymQuantity):
        rep[q] = sympy.N(convert_to_si(q), prec)
    e = e.xreplace(rep)
    v = sympy.N(e, prec)
    c = complex(v)
    return c.real if abs(c.imag) <= 1e-12 * max(1.0, abs(c.real)) else c


def _flatten(x):
    if isinstance(x, (list, tuple)):
        out = []
        for v in x:
            out += _flatten(v)
        return out
    return [x]


def close(a, b, rel=REL, scale=None) -> bool:
    if isinstance(a, (list, tuple)) or isinstance(b, (list, tuple)):
        if not (isinstance(a, (list, tuple)) and isinstance(b, (list, tuple)) and len(a) == len(b)):
            return False
        if all(not isinstance(x, (list, tuple)) for x in list(a) + list(b)):
            # a vector: components are judged against the largest component
            try:
                sc = max(abs(complex(x)) for x in list(a) + list(b))
            except Exception:  # pylint: disable=broad-except
                return False
            return all(close(x, y, rel, sc) for x, y in zip(a, b))
        return all(close(x, y, rel) for x, y in zip(a, b))
    try:
        a, b = complex(a), complex(b)
    except Exception:  # pylint: disable=broad-except
        return False
    if math.isnan(a.real) or math.isnan(b.real):
        return False
    s = scale if scale is not None else max(abs(a), abs(b))
    return abs(a - b) <= rel * s + 1e-300


def finite_real(x) -> bool:
    if isinstance(x, (list, tuple)):
        return all(finite_real(v) for v in x)
    return isinstance(x, float) and math.isfinite(x)


def finite(x) -> bool:
    """finite real or complex number (some catalogue functions are complex-valued: impedances, wave functions)"""
    if isinstance(x, (list, tuple)):
        return all(finite(v) for v in x)
    if isinstance(x, complex):
        return math.isfinite(x.real) and math.isfinite(x.imag)
    return isinstance(x, float) and math.isfinite(x)


def cancellation(expr, env) -> float:
    """Largest ratio  sum|terms| / |sum|  over the Add nodes of the closed form at this point."""
    worst = 1.0
    for node in sympy.preorder_traversal(sympy.sympify(expr)):
        if node.is_Add:
            try:
                tot = sum(abs(complex(numeric(t, env, 20))) for t in node.args)
                val = abs(complex(numeric(node, env, 20)))
                worst = max(worst, tot / val if val > 0 else float("inf"))
            except Exception:  # pylint: disable=broad-except
                continue
    return worst


def conds_hold(conds, env) -> bool:
    for c in conds:
        try:
            v = c.xreplace({s: (sympy.Float(x) if isinstance(x, float) else sympy.sympify(x)) for s, x in env.items()})
            for q in v.atoms(SymQuantity):
                from symplyphysics import convert_to_si  # pylint: disable=import-outside-toplevel
                v = v.xreplace({q: sympy.N(convert_to_si(q))})
            if v is sympy.true or bool(v) is True:
                continue
            return False
        except Exception:  # pylint: disable=broad-except
            return False
    return True


def term_scale(e, env):
    """Sum of |terms| of an Add (scale against which a residual is judged)."""
    e = sympy.sympify(e)
    terms = e.args if e.is_Add else [e]
    tot = 0.0
    for t in terms:
        try:
            tot += abs(complex(numeric(t, env)))
        except Exception:  # pylint: disable=broad-except
            pass
    return tot


def law_residual(spec, env, y_value):
    """|lhs - rhs| of the published law at sigma(env), unknown := y_value; and its scale."""
    law = spec.law
    rep = {k: sympy.sympify(v) for k, v in spec.sigma.items()}
    ysym = spec.ysym
    yv = sympy.Float(y_value, 30) if not isinstance(y_value, complex) else sympy.sympify(y_value)
    if spec.yexpr is not None:
        lhs = law.lhs.xreplace({spec.yexpr: yv}).xreplace(rep)
        rhs = law.rhs.xreplace({spec.yexpr: yv}).xreplace(rep)
    else:
        lhs, rhs = law.lhs.xreplace(rep).xreplace({ysym: yv}), law.rhs.xreplace(rep).xreplace({ysym: yv})
    a, b = numeric(lhs, env), numeric(rhs, env)
    scale = max(term_scale(lhs, env), term_scale(rhs, env), abs(complex(a)), abs(complex(b)))
    return a, b, scale


def perturbed(env, rng, eps=1e-13):
    return {k: (v * (1 + eps * rng.choice([-1, 1])) if isinstance(v, float) else v) for k, v in env.items()}


def sensitivity(fn_eval, env, rng, eps=1e-13, n=2):
    """max |f(env') - f(env)| over n random relative perturbations of size eps (round-off level of the unit conversion
    and of the function's own float arithmetic): how ill-conditioned the evaluation is at this point."""
    base = fn_eval(env)
    worst = 0.0
    for _ in range(n):
        try:
            v = fn_eval(perturbed(env, rng, eps))
        except Exception:  # pylint: disable=broad-except
            return float("inf")
        d = _absdiff(base, v)
        worst = max(worst, d)
    return worst


def _absdiff(a, b) -> float:
    if isinstance(a, (list, tuple)):
        return max((_absdiff(x, y) for x, y in zip(a, b)), default=0.0)
    try:
        return abs(complex(a) - complex(b))
    except Exception:  # pylint: disable=broad-except
        return float("inf")


def _absmax(a) -> float:
    if isinstance(a, (list, tuple)):
        return max((_absmax(x) for x in a), default=0.0)
    return abs(complex(a))
