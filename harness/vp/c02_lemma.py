"""C02: from an Extraction branch to the Coq obligation

    Lemma calc_<module>_<fn> : forall (x.. : R) (uf.. : R -> R), <hyps on arguments> ->
        let y := F x.. in <side conditions of the law at y> -> law_lhs[sigma] = law_rhs[sigma].

The law is serialised from the module's *published* Eq object; law symbol -> argument renaming (sigma) is done in
the serialiser's variable table and the solved-for symbol is the Coq `let`, never SymPy's subs (DESIGN 3.1)."""
from __future__ import annotations

import re
from dataclasses import dataclass, field

import sympy
from sympy.core.function import AppliedUndef
from sympy.physics.units import Quantity as SymQuantity

from . import sx


class NotHandled(Exception):
    """The branch is outside the class of obligations this builder emits (reason in str)."""


STRUCTURED = (AppliedUndef, sympy.Derivative, sympy.Integral, sympy.Sum, sympy.Product, sympy.Subs, sympy.MatrixBase,
    sympy.Indexed, sympy.Piecewise)

UF_OK = {"erf", "erfc", "besselj", "bessely", "besseli", "besselk", "gamma", "loggamma", "zeta", "LambertW", "atan2",
    "acosh", "asinh", "atanh", "coth", "sech", "csch", "cot", "sec", "csc", "acot", "factorial", "sign", "floor",
    "ceiling", "Heaviside", "elliptic_k", "elliptic_e", "polylog", "hermite", "legendre", "assoc_laguerre", "binomial",
    "erfinv", "erfcinv", "sinc", "Si", "Ci", "expint", "airyai", "airybi", "jn", "yn"}


def sanitize(key: str) -> str:
    return re.sub(r"[^A-Za-z0-9_]", "_", key)


@dataclass
class LemmaSpec:
    name: str
    statement: str
    item: str
    kind: str                              # simple | structured | vector-inverse | ...
    y: str = ""                            # printable description of the solved-for symbol
    sigma: dict = field(default_factory=dict)
    F: object = None                       # the closed form used for `y`
    law: object = None
    hyps: list = field(default_factory=list)       # python predicates are rebuilt from these sympy conditions
    exception: str = ""                    # "" | "ceiling" | "abs"
    var_origin: dict = field(default_factory=dict)
    cond_exprs: list = field(default_factory=list)  # sympy conditions over argument symbols (assumption + path hyps)
    hints: list = field(default_factory=list)       # tactic calls placed before the portfolio (checked by Coq)
    ysym: object = None
    yexpr: object = None
    branch: int = 0
    lawfn: object = None
    matrix: object = None
    sigma_conflicts: list = field(default_factory=list)

    @property
    def proof(self) -> str:
        if self.kind in ("law-function", "inverse", "matrix"):
            return "intros; vp_unlet; repeat split; c02_finish."
        return "intros; vp_unlet; " + "".join(f"try ({h}); " for h in self.hints) + "c02_finish."


class Ser:
    """RCtx with (a) sigma renaming, (b) the let-bound unknown, (c) uninterpreted functions."""

    def __init__(self, sigma, ysym, yname="y"):
        self.sigma = sigma
        self.ysym = ysym
        self.yname = yname
        self.ufs: dict[str, int] = {}
        self.rc = sx.RCtx(atoms=False, float_mode="decimal", atom_hook=self.hook)
        self.uses_y = False
        self.yexpr = None        # a non-symbol sub-expression of the law the function solves for, e.g. sin(angle)
        self.ymap = {}           # several unknowns (matrix laws): symbol -> let-bound name

    def hook(self, e, rc):
        if self.ysym is not None and e == self.ysym:
            self.uses_y = True
            return self.yname
        if e.is_Symbol and e in self.ymap:
            return self.ymap[e]
        if (e.is_Symbol or isinstance(e, sympy.Indexed)) and e in self.sigma:
            return rc.term(self.sigma[e])
        if isinstance(e, sympy.Indexed):
            return rc.var(("indexed", sympy.srepr(e)), e)
        if isinstance(e, SymQuantity):
            num = const_number(e)
            if num is not None:
                return rc.term(num)
            return rc.var(const_key(e), e)
        if type(e).__name__ == "vp_abs":
            return f"(Rabs {rc.term(e.args[0])})"
        if self.yexpr is not None and e == self.yexpr:
            self.uses_y = True
            return self.yname
        if isinstance(e, sympy.Function) and not isinstance(e, AppliedUndef):
            fn = type(e).__name__
            if fn in sx.FUNCS and len(e.args) == 1 and fn not in ("asin", "acos"):
                return None
            if fn in ("asin", "acos", "log", "exp", "Min", "Max") or isinstance(e, (sympy.Min, sympy.Max)):
                return None
            if fn in UF_OK:
                name = f"uf_{fn}_{len(e.args)}"
                self.ufs[name] = len(e.args)
                return "(" + name + " " + " ".join(rc.term(a) for a in e.args) + ")"
            raise sx.Unsupported(f"function {fn}")
        if isinstance(e, STRUCTURED) or isinstance(e, (sympy.Order,)):
            raise sx.Unsupported(type(e).__name__)
        if e.is_Symbol and not e.is_real and self.strict_symbols:
            pass
        return None

    strict_symbols = False

    def term(self, e):
        return self.rc.term(e)

    def binder(self):
        b = self.rc.binder()
        for name, n in sorted(self.ufs.items()):
            b += f" ({name} : {' -> '.join(['R'] * (n + 1))})"
        return b


def const_key(q):
    """Physical constants are identified by value: dimension and scale factor (SymPy may re-create the
    Quantity object, e.g. Abs(c) -> a new Quantity of the same value)."""
    from sympy.physics.units.systems.si import dimsys_SI  # pylint: disable=import-outside-toplevel
    deps = dimsys_SI.get_dimensional_dependencies(q.dimension)
    return ("const", tuple(sorted((str(k), str(v)) for k, v in deps.items())), sympy.srepr(sympy.sympify(q.scale_factor)))


def const_number(q):
    """A dimensionless or angle-valued unit (radian, degree, percent) is the number it scales by."""
    from sympy.physics.units.systems.si import dimsys_SI  # pylint: disable=import-outside-toplevel
    deps = dimsys_SI.get_dimensional_dependencies(q.dimension)
    if all(str(k) == "angle" for k in deps):
        return sympy.sympify(q.scale_factor)
    return None


def assumption_hyps(sym, term: str) -> list:
    out = []
    if sym.is_positive:
        out.append(f"0 < {term}")
    elif sym.is_nonnegative:
        out.append(f"0 <= {term}")
    elif sym.is_negative:
        out.append(f"{term} < 0")
    elif sym.is_nonpositive:
        out.append(f"{term} <= 0")
    elif sym.is_nonzero:
        out.append(f"{term} <> 0")
    return out


def assumption_conds(sym, expr) -> list:
    if sym.is_positive:
        return [expr > 0]
    if sym.is_nonnegative:
        return [expr >= 0]
    if sym.is_negative:
        return [expr < 0]
    if sym.is_nonpositive:
        return [expr <= 0]
    if sym.is_nonzero:
        return [sympy.Ne(expr, 0)]
    return []


def rel_text(ser: Ser, rel, taken: bool) -> str:
    """Coq text of a path condition (a symbolic comparison the function itself evaluated)."""
    ops = {"StrictGreaterThan": ("<", True), "GreaterThan": ("<=", True), "StrictLessThan": ("<", False),
        "LessThan": ("<=", False), "Equality": ("=", False), "Unequality": ("<>", False)}
    neg = {"<": "<=", "<=": "<", "=": "<>", "<>": "="}
    n = type(rel).__name__
    if n not in ops:
        raise NotHandled(f"path condition {n}")
    op, swap = ops[n]
    a, b = ser.term(rel.lhs), ser.term(rel.rhs)
    if swap:
        a, b = b, a
    if not taken:
        # not (a op b)
        if op in ("<", "<="):
            a, b = b, a
        op = neg[op]
    return f"{a} {op} {b}"


def strip_exception(F):
    """Documented exceptions: |solution| and ceiling(solution)."""
    if isinstance(F, sympy.ceiling):
        return "ceiling", F.args[0]
    if isinstance(F, sympy.Abs) or type(F).__name__ == "vp_abs":
        return "abs", F.args[0]
    if type(F).__name__ == "vp_trunc":
        return "trunc", F.args[0]
    return "", F


def sigma_of(subs_log, law_symbols):
    sig, multi = {}, False
    for k, v in subs_log:
        if not isinstance(k, sympy.Basic):
            continue
        try:
            v = sympy.sympify(v)
        except Exception:  # pylint: disable=broad-except
            continue
        if k in law_symbols:
            if k in sig and sig[k] != v:
                multi = True
            sig[k] = v
    return sig, multi


def expected_sigma(ex, law_syms) -> dict:
    """law symbol -> argument symbol as *declared*: `validate_input(x_=x_symbol)` names the law symbol an argument
    stands for; failing that, a parameter `x_` stands for the module attribute `x`.  This declared correspondence
    overrides the one recorded from the function's own subs() calls, so that a body substituting an argument for the
    wrong (same-dimension) symbol is exposed instead of being mirrored by the obligation."""
    outs = set()
    for o in ex.specs.get("output", []):
        try:
            hash(o)
            outs.add(o)
        except Exception:  # pylint: disable=broad-except
            pass
    module = ex.module
    names = {}
    if module is not None:
        for k, v in vars(module).items():
            try:
                if v in law_syms:
                    names.setdefault(k, v)
            except Exception:  # pylint: disable=broad-except
                pass
    exp = {}
    spec_count = {}
    for a in ex.args:
        try:
            spec_count[a.spec] = spec_count.get(a.spec, 0) + 1
        except Exception:  # pylint: disable=broad-except
            pass
    for a in ex.args:
        if a.kind != "scalar":
            continue
        e = None
        try:
            if a.spec is not None and a.spec in law_syms and a.spec not in outs and spec_count.get(a.spec) == 1:
                e = a.spec
        except Exception:  # pylint: disable=broad-except
            e = None
        if e is None:
            cand = names.get(a.param.rstrip("_"))
            if cand is not None and cand not in outs:
                e = cand
        if e is not None and e not in exp:
            exp[e] = a.syms[0]
    return exp


def final_sigma(ex, b, law_syms):
    """-> (sigma, multi, conflicts)"""
    sigma, multi = sigma_of(b.subs_log, law_syms)
    conflicts = []
    for k, v in expected_sigma(ex, law_syms).items():
        if k in sigma and sigma[k] != v:      # also when the body substitutes an *expression* of the argument (phi % pi)
            conflicts.append((str(k), str(sigma[k]), str(v)))
            sigma[k] = v
        elif k not in sigma and (ex.laws_by_default or not b.subs_log):
            sigma[k] = v
    return sigma, multi, conflicts


def statement(ser: Ser, pre: list, F_text: str | None, post: list, goal: str) -> str:
    parts = []
    b = ser.binder()
    head = f"forall {b}, " if b else ""
    for h in pre:
        parts.append(h + " ->")
    if F_text is not None:
        parts.append(f"let {ser.yname} := {F_text} in")
    for h in post:
        parts.append(h + " ->")
    parts.append(goal)
    return head + "\n  " + "\n  ".join(parts)


def dedup(xs):
    out = []
    for x in xs:
        if x not in out:
            out.append(x)
    return out


def instantiate_structured(law, subs_log):
    """Laws stated with applied functions / derivatives / integrals: the concrete functions the calculation function
    substituted are put into the law and SymPy evaluates the Derivative / Integral nodes (`doit`).  The remaining
    symbol -> argument renaming and the solved-for unknown are still instantiated on the Coq side."""
    law1 = law
    used = False
    index_syms = set()
    for ind in law.atoms(sympy.Indexed):
        for i in ind.indices:
            index_syms |= i.free_symbols
    for k, v in subs_log:
        if not isinstance(k, sympy.Basic):
            continue
        if k in index_syms and law1.has(k):
            law1 = law1.subs(k, v)
            used = True
            continue
        if isinstance(k, (AppliedUndef, sympy.Derivative, sympy.Integral)) or getattr(k, "is_Function", False) and not k.is_Symbol:
            try:
                v = sympy.sympify(v)
            except Exception:  # pylint: disable=broad-except
                continue
            if law1.has(k):
                law1 = law1.subs(k, v)
                used = True
    if not used:
        return None
    law1 = expand_indexed(law1)
    law1 = law1.doit()
    return law1


def expand_indexed(e):
    """IndexedSum / IndexedProduct over an index with concrete integer bounds are expanded HERE, term by term over the
    inclusive range lower..upper of the Idx -- not by the repository's own `doit`, which is part of what is checked."""
    def rec(x):
        if not isinstance(x, sympy.Basic) or not x.args:
            return x
        name = type(x).__name__
        if name in ("IndexedSum", "IndexedProduct") and len(x.args) == 2:
            body, idx = x.args
            lo, hi = getattr(idx, "lower", None), getattr(idx, "upper", None)
            if lo is not None and hi is not None and lo.is_Integer and hi.is_Integer:
                body = rec(body)
                terms = [body.subs(idx, k) for k in range(int(lo), int(hi) + 1)]
                return sympy.Add(*terms) if name == "IndexedSum" else sympy.Mul(*terms)
            return x
        new_args = [rec(a) for a in x.args]
        if all(a is b for a, b in zip(new_args, x.args)):
            return x
        try:
            return x.func(*new_args)
        except Exception:  # pylint: disable=broad-except
            return x
    return rec(e)


def build_simple(ex, bi: int, law_name: str, law) -> LemmaSpec:
    b = ex.branches[bi]
    if b.result_kind != "scalar":
        raise NotHandled(f"result is a {b.result_kind}")
    if not isinstance(law, sympy.Eq):
        raise NotHandled(f"law is a {type(law).__name__}")
    kind = "simple"
    if any(isinstance(a, (AppliedUndef, sympy.Derivative, sympy.Integral, sympy.Indexed, sympy.Sum, sympy.Product))
            for a in sympy.preorder_traversal(law)):
        law1 = instantiate_structured(law, b.subs_log)
        if law1 is None or not isinstance(law1, sympy.Eq):
            raise NotHandled("law is stated with functions / derivatives / integrals and the function body does not "
                "instantiate them by substitution" if law1 is None else f"instantiated law collapsed to {law1}")
        law = law1
        kind = "structured"
    applied = sorted(law.atoms(AppliedUndef), key=str)
    for a in sympy.preorder_traversal(law):
        if isinstance(a, STRUCTURED) and not isinstance(a, (AppliedUndef, sympy.Indexed)):
            raise NotHandled(f"law contains {type(a).__name__}")
    indexed = law.atoms(sympy.Indexed)
    labels = set()
    for ind in indexed:
        labels |= ind.base.free_symbols
        for i in ind.indices:
            if i.free_symbols:
                raise NotHandled("law contains an indexed symbol with a symbolic index after instantiation")
    law_syms = {s for s in law.free_symbols if not isinstance(s, (SymQuantity, sympy.Indexed)) and s not in labels} | indexed
    sigma, multi, conflicts = final_sigma(ex, b, law_syms)
    if multi:
        raise NotHandled("law instantiated more than once with different arguments")
    rest = law_syms - set(sigma)
    ysym, yexpr = None, None
    if applied:
        # the unknown is the one function value left in the law, e.g. acceleration(time); other symbols stay free
        if len(applied) != 1:
            raise NotHandled(f"law contains {len(applied)} applied functions after instantiation")
        yexpr = applied[0]
        if law.xreplace({yexpr: sympy.Dummy()}).atoms(AppliedUndef):
            raise NotHandled("law contains an applied function besides the unknown")
    else:
        outs = [o for o in ex.specs.get("output", []) if isinstance(o, sympy.Symbol) and o in rest]
        via_sigma = [o for o in ex.specs.get("output", []) if isinstance(o, sympy.Symbol)
            and any(o in sympy.sympify(v).free_symbols for v in sigma.values())]
        if len(rest) == 1:
            ysym = next(iter(rest))
        elif not rest and via_sigma:
            ysym = via_sigma[0]     # the unknown enters the law through an expression-valued argument (b ** unknown)
        elif outs and kind == "structured":
            ysym = outs[0]          # leftover symbols (integration / differentiation variables) stay universally quantified
        else:
            raise NotHandled(f"{len(rest)} law symbols are neither substituted nor solved for: {sorted(map(str, rest))[:4]}")
        for eq, targets in b.solve_log:
            for t in targets:
                if isinstance(t, sympy.Expr) and not t.is_Symbol and t.free_symbols == {ysym} and law.has(t):
                    yexpr = t
        if yexpr is not None:
            if law.xreplace({yexpr: sympy.Dummy()}).has(ysym):
                raise NotHandled("unknown occurs outside the solved-for sub-expression")
    exc, F = strip_exception(b.result)
    name = "calc_" + sanitize(ex.key) + (f"_b{bi}" if len(ex.branches) > 1 else "")
    ser = Ser(sigma, None)
    conds = []
    pre = []
    for a in ex.args:
        for s in a.syms:
            pre += assumption_hyps(s, ser.term(s))
            conds += assumption_conds(s, s)
    for k in sorted(sigma, key=str):
        pre += assumption_hyps(k, ser.term(sigma[k]))
        conds += assumption_conds(k, sigma[k])
    for rel, taken in b.path:
        pre.append(rel_text(ser, rel, taken))
        conds.append(rel if taken else sympy.Not(rel))
    F_text = ser.term(F)
    n0 = len(ser.rc.side)
    ser.ysym = ysym if yexpr is None else None
    ser.yexpr = yexpr
    lhs, rhs = ser.term(law.lhs), ser.term(law.rhs)
    consts = [(n, o) for n, o in ser.rc.origin.items() if isinstance(o, SymQuantity)]
    for n, o in consts:
        if o.is_positive:
            pre.append(f"0 < {n}")
    side = ser.rc.hyps()
    pre_side = [h for h, (k, t) in zip(side, ser.rc.side) if not _mentions(t, ser.yname)]
    post_side = [h for h, (k, t) in zip(side, ser.rc.side) if _mentions(t, ser.yname)]
    del n0
    st = statement(ser, dedup(pre + pre_side), F_text, dedup(post_side), f"{lhs} = {rhs}")
    hints = sqrt_hints(ser, F, law, sigma, ysym) if ysym is not None else []
    return LemmaSpec(name, st, ex.key, kind, y=str(ysym if yexpr is None else yexpr), sigma=sigma, F=F, law=law, exception=exc,
        var_origin=dict(ser.rc.origin), cond_exprs=conds, hyps=dedup(pre + pre_side) + dedup(post_side), hints=hints, ysym=ysym, yexpr=yexpr, branch=bi, sigma_conflicts=conflicts)


def _mentions(t: str, name: str) -> bool:
    return re.search(rf"(?<![A-Za-z0-9_']){re.escape(name)}(?![A-Za-z0-9_'])", t) is not None


def _sqrt_args(e):
    return [p.base for p in sympy.preorder_traversal(e) if isinstance(p, sympy.Pow) and p.exp.is_Rational and p.exp.q == 2]


def sqrt_hints(ser: Ser, F, law, sigma, ysym, limit=6) -> list:
    """`sqrt a = k * sqrt b` for radicands a (function body) and b (law) whose quotient is the square of a rational
    function k.  SymPy only *proposes* k; the tactic c02_sqrt_hint proves the link (or is skipped by `try`)."""
    out, seen = [], set()
    try:
        As = dedup(_sqrt_args(F))
        Bs = dedup(_sqrt_args(law.lhs) + _sqrt_args(law.rhs))
        Bs = [b for b in Bs if ysym not in b.free_symbols]
        for a in As:
            for b in Bs:
                bs = b.xreplace(sigma)
                if a == bs or (a, b) in seen:
                    continue
                r = sympy.cancel(sympy.together(a / bs))
                pr, rep = sympy.posify(r)
                k = sympy.sqrt(pr)
                k = sympy.powdenest(sympy.simplify(k), force=True)
                if any(isinstance(p, sympy.Pow) and not p.exp.is_Integer for p in sympy.preorder_traversal(k)):
                    continue
                if k.has(sympy.Abs) or not k.free_symbols <= set(rep) | k.free_symbols:
                    continue
                k = k.xreplace(rep)
                seen.add((a, b))
                out.append(f"c02_sqrt_hint {ser.term(a)} {ser.term(b)} {ser.term(k)}")
                if len(out) >= limit:
                    return out
    except Exception:  # pylint: disable=broad-except
        return out
    return out


def _components(x):
    """Vector / SVec / list / scalar -> list of sympy expressions (None if not understood)."""
    if hasattr(x, "components"):
        return [sympy.sympify(c) for c in x.components]
    if isinstance(x, (list, tuple)):
        out = []
        for c in x:
            if isinstance(c, tuple) and len(c) == 2 and isinstance(c[0], str):
                c = c[1]
            if isinstance(c, (list, tuple)) or hasattr(c, "components"):
                return None
            out.append(sympy.sympify(c))
        return out
    try:
        e = sympy.sympify(x)
    except Exception:  # pylint: disable=broad-except
        return None
    return [e] if isinstance(e, sympy.Expr) else None


def build_lawfn(ex, bi: int) -> LemmaSpec:
    """Modules whose law is published as a function (vector laws): the calculation function must return the value
    of the module's law function at its arguments:  F_i = law_fn(args)_i[sigma]  for every component."""
    b = ex.branches[bi]
    if not b.lawfn_log:
        raise NotHandled("the function body references no published equation or law function of its module")
    fname, _a, _k, r = b.lawfn_log[-1]
    rc = _components(r)
    Fc = _components(b.result) if b.result_kind != "scalar" else [b.result]
    if rc is None or Fc is None:
        raise NotHandled("law function result is not a vector / scalar of expressions")
    n = max(len(rc), len(Fc))
    rc = rc + [sympy.S.Zero] * (n - len(rc))
    Fc = Fc + [sympy.S.Zero] * (n - len(Fc))
    free = set().union(*[c.free_symbols for c in rc]) if rc else set()
    sigma, multi = sigma_of(b.subs_log, {s for s in free if not isinstance(s, SymQuantity)})
    argsyms = {s for a in ex.args for s in a.syms}
    rest = {s for s in free if s not in sigma and s not in argsyms and not isinstance(s, SymQuantity)}
    exc = ""
    if len(Fc) == 1:
        exc, f0 = strip_exception(Fc[0])
        Fc = [f0]
    name = "calc_" + sanitize(ex.key) + (f"_b{bi}" if len(ex.branches) > 1 else "")
    ser = Ser(sigma, None)
    pre, conds = [], []
    for a in ex.args:
        for s in a.syms:
            pre += assumption_hyps(s, ser.term(s))
            conds += assumption_conds(s, s)
    for k in sorted(sigma, key=str):
        pre += assumption_hyps(k, ser.term(sigma[k]))
        conds += assumption_conds(k, sigma[k])
    for rel, taken in b.path:
        pre.append(rel_text(ser, rel, taken))
        conds.append(rel if taken else sympy.Not(rel))
    goals = []
    for f, rr in zip(Fc, rc):
        goals.append(f"{ser.term(f)} = {ser.term(rr)}")
    for nme, o in ser.rc.origin.items():
        if isinstance(o, SymQuantity) and o.is_positive:
            pre.append(f"0 < {nme}")
    st = statement(ser, dedup(pre + ser.rc.hyps()), None, [], " /\\\n  ".join(goals))
    sp = LemmaSpec(name, st, ex.key, "law-function", y=f"{fname}(...)", sigma=sigma, F=Fc, law=None, exception=exc,
        var_origin=dict(ser.rc.origin), cond_exprs=conds, hyps=dedup(pre + ser.rc.hyps()), branch=bi)
    sp.lawfn = (fname, rc, rest)
    return sp


def _flat_result(kind, val):
    if kind == "scalar":
        return [val]
    out = []
    for v in val:
        if isinstance(v, tuple) and len(v) == 2 and isinstance(v[0], str):
            out += _flat_result(*v)
        else:
            out.append(sympy.sympify(v))
    return out


def build_matrix(ex, bi: int, law_name: str, law) -> LemmaSpec:
    """Matrix laws solved for several unknowns, result returned as a (nested) tuple: every entry of the matrix
    equation must hold with the unknowns let-bound to the returned components."""
    import itertools  # pylint: disable=import-outside-toplevel
    import random  # pylint: disable=import-outside-toplevel
    b = ex.branches[bi]
    try:
        L_ = sympy.Matrix(law.lhs.doit() if hasattr(law.lhs, "doit") else law.lhs)
        R_ = sympy.Matrix(law.rhs.doit() if hasattr(law.rhs, "doit") else law.rhs)
    except Exception as e:  # pylint: disable=broad-except
        raise NotHandled(f"matrix law not explicit: {type(e).__name__}") from e
    if L_.shape != R_.shape:
        raise NotHandled("matrix law with different shapes")
    entries = list(zip(list(L_), list(R_)))
    unknowns = []
    for _eq, targets in b.solve_log:
        for t in targets:
            for u in (t if isinstance(t, (list, tuple)) else [t]):
                if isinstance(u, sympy.Symbol) and u not in unknowns:
                    unknowns.append(u)
    Fs = _flat_result(b.result_kind, b.result)
    if not unknowns or len(unknowns) != len(Fs):
        raise NotHandled(f"{len(unknowns)} unknowns but {len(Fs)} returned components")
    law_syms = set().union(*[(l.free_symbols | r.free_symbols) for l, r in entries])
    law_syms = {x for x in law_syms if not isinstance(x, SymQuantity)}
    sigma, multi = sigma_of(b.subs_log, law_syms - set(unknowns))
    rest = law_syms - set(sigma) - set(unknowns)
    if multi or rest:
        raise NotHandled(f"law symbols neither substituted nor solved for: {sorted(map(str, rest))[:4]}")
    # which returned component is which unknown: proposed numerically, then verified by Coq
    argsyms = sorted({x for a in ex.args for x in a.syms}, key=str)
    rnd = random.Random(ex.key)
    pt = {x: sympy.Rational(rnd.randint(2, 97), rnd.randint(2, 13)) for x in argsyms}
    consts = set().union(*[f.atoms(SymQuantity) for f in Fs]) | set().union(*[(l.atoms(SymQuantity) | r.atoms(SymQuantity)) for l, r in entries])
    for q in consts:
        pt[q] = sympy.Rational(rnd.randint(2, 97), rnd.randint(2, 13))
    fvals = [sympy.N(f.xreplace(pt), 30) for f in Fs]
    perm_ok = None
    perms = [tuple(range(len(Fs)))] + [p for p in itertools.permutations(range(len(Fs))) if p != tuple(range(len(Fs)))][:119]
    for perm in perms:
        ymap = {u: fvals[perm[i]] for i, u in enumerate(unknowns)}
        good = True
        for l, r in entries:
            d = sympy.N((l - r).xreplace(ymap).xreplace(sigma).xreplace(pt), 30)
            sc = abs(sympy.N(l.xreplace(ymap).xreplace(sigma).xreplace(pt), 30)) + abs(sympy.N(r.xreplace(ymap).xreplace(sigma).xreplace(pt), 30)) + 1
            if not abs(d) <= 1e-20 * sc:
                good = False
                break
        if good:
            perm_ok = perm
            break
    if perm_ok is None:
        perm_ok = tuple(range(len(Fs)))
    name = "calc_" + sanitize(ex.key) + (f"_b{bi}" if len(ex.branches) > 1 else "")
    ser = Ser(sigma, None)
    pre, conds = [], []
    for a in ex.args:
        for x in a.syms:
            pre += assumption_hyps(x, ser.term(x))
            conds += assumption_conds(x, x)
    for k in sorted(sigma, key=str):
        pre += assumption_hyps(k, ser.term(sigma[k]))
        conds += assumption_conds(k, sigma[k])
    for rel, taken in b.path:
        pre.append(rel_text(ser, rel, taken))
        conds.append(rel if taken else sympy.Not(rel))
    ftexts = [ser.term(Fs[perm_ok[i]]) for i in range(len(unknowns))]
    pre_side = ser.rc.hyps()
    ser.ymap = {u: f"y{i}" for i, u in enumerate(unknowns)}
    goals = [f"{ser.term(l)} = {ser.term(r)}" for l, r in entries]
    post_side = ser.rc.hyps()[len(pre_side):]
    for nme, o in ser.rc.origin.items():
        if isinstance(o, SymQuantity) and o.is_positive:
            pre.append(f"0 < {nme}")
    bnd = ser.binder()
    lets = "".join(f"let y{i} := {t} in\n  " for i, t in enumerate(ftexts))
    st = (f"forall {bnd}, " if bnd else "") + "\n  " + "".join(h + " ->\n  " for h in dedup(pre + pre_side)) + lets \
        + "".join(h + " ->\n  " for h in dedup(post_side)) + " /\\\n  ".join(goals)
    sp = LemmaSpec(name, st, ex.key, "matrix", y=",".join(map(str, unknowns)), sigma=sigma, F=Fs, law=law,
        var_origin=dict(ser.rc.origin), cond_exprs=conds, hyps=dedup(pre + pre_side), branch=bi)
    sp.matrix = (entries, unknowns, perm_ok)
    return sp


def build(ex, bi: int) -> LemmaSpec:
    """Dispatch on the shape of the law the function body refers to."""
    if not ex.laws:
        return build_lawfn(ex, bi)
    if len(ex.laws) > 1:
        errs = []
        for name, law in ex.laws:
            try:
                return build_simple(ex, bi, name, law)
            except (NotHandled, sx.Unsupported) as e:
                errs.append(f"{name}: {e}")
        raise NotHandled("several equations referenced; " + "; ".join(errs)[:300])
    name, law = ex.laws[0]
    if isinstance(law, sympy.Eq) and (getattr(law.lhs, "is_Matrix", False) or getattr(law.rhs, "is_Matrix", False)):
        return build_matrix(ex, bi, name, law)
    return build_simple(ex, bi, name, law)


def spec_predicate(sp: LemmaSpec, env: dict, got, rel=1e-9):
    """The property's statement evaluated on what the REAL function returned: law residual at (arguments, result).
    -> ("ok" | "fail" | "skipped", detail)"""
    from . import c02_num as N  # pylint: disable=import-outside-toplevel
    if sp.kind == "law-function":
        _fname, rc, rest = sp.lawfn
        if rest:
            return ("skipped", f"law function value has free module symbols {sorted(map(str, rest))[:3]}")
        vals = [N.numeric(c.xreplace(sp.sigma), env) for c in rc]
        g = list(got) if isinstance(got, (list, tuple)) else [got]
        g = g + [0.0] * (len(vals) - len(g))
        if sp.exception == "abs":
            ok = N.close([abs(complex(x)) for x in g], [abs(complex(x)) for x in vals], rel)
        else:
            scale = max([abs(complex(x)) for x in vals] + [abs(complex(x)) for x in g] + [0.0])
            ok = all(abs(complex(x) - complex(y)) <= rel * scale + 1e-300 for x, y in zip(g, vals))
        return ("ok" if ok else "fail", {"lhs": g, "rhs": vals, "law_function": _fname})
    if sp.kind == "matrix":
        entries, unknowns, perm = sp.matrix
        flat = N._flatten(got)  # pylint: disable=protected-access
        if len(flat) != len(unknowns):
            return ("fail", {"why": "number of returned components"})
        ymap = {u: sympy.sympify(flat[perm[i]]) for i, u in enumerate(unknowns)}
        worst = None
        for l, r in entries:
            a = N.numeric(l.xreplace(ymap).xreplace(sp.sigma), env)
            b_ = N.numeric(r.xreplace(ymap).xreplace(sp.sigma), env)
            scale = max(N.term_scale(l.xreplace(ymap).xreplace(sp.sigma), env), N.term_scale(r.xreplace(ymap).xreplace(sp.sigma), env))
            if abs(complex(a) - complex(b_)) > rel * scale + 1e-300:
                worst = {"lhs": a, "rhs": b_, "scale": scale}
        return ("ok", {}) if worst is None else ("fail", worst)
    if isinstance(got, (list, tuple)):
        return ("skipped", "non-scalar result")
    if sp.exception == "ceiling":
        import math  # pylint: disable=import-outside-toplevel
        sol = N.numeric(sp.F, env)
        ok = isinstance(sol, float) and math.ceil(sol - 1e-9) == int(round(got))
        # the rounded-up integer need not satisfy the law; the un-rounded closed form is what the lemma is about
        a, b, scale = N.law_residual(sp, env, sol)
        ok = ok and abs(complex(a) - complex(b)) <= rel * scale + 1e-300
        return ("ok" if ok else "fail", {"solution": sol, "returned": got, "lhs": a, "rhs": b})
    cands = [got, -got] if sp.exception == "abs" else [got]
    last = None
    for y in cands:
        a, b, scale = N.law_residual(sp, env, y)
        last = {"lhs": a, "rhs": b, "scale": scale, "y": y}
        if abs(complex(a) - complex(b)) <= rel * scale + 1e-300:
            return ("ok", last)
    return ("fail", last)


# ---------------------------------------------------------------------------------------------
# vector laws offered for several unknowns: the forms must be mutual inverses
# ---------------------------------------------------------------------------------------------

_SUFFIXES = ("_law", "_definition")


def _stem(fname: str) -> str:
    for suf in _SUFFIXES:
        if fname.endswith(suf):
            return fname[: -len(suf)]
    return fname


def law_functions(module):
    import inspect  # pylint: disable=import-outside-toplevel
    out = []
    for k, v in vars(module).items():
        if (inspect.isfunction(v) and v.__module__ == module.__name__ and not k.startswith("calculate_")
                and not k.startswith("_") and k.endswith(_SUFFIXES)):
            out.append((k, v))
    return out


def _generic_param(pname, ann):
    from symplyphysics import Vector  # pylint: disable=import-outside-toplevel
    base = pname.rstrip("_")
    if getattr(ann, "__name__", "") == "Vector":
        syms = [sympy.Symbol(f"g_{base}_{c}", real=True) for c in "xyz"]
        return Vector(syms), syms
    if getattr(ann, "__name__", "") in ("Expr", "Quantity", "float", "Symbol"):
        s = sympy.Symbol(f"g_{base}", real=True)
        return s, [s]
    raise NotHandled(f"parameter {pname} of a law function is a {ann}")


def iter_inverse_pairs(module):
    """(fname, f, gname, g, f's parameter names, g's parameter names, stem of f, stem of g, hints_f, hints_g) for every
    ordered pair of law functions where g takes f's unknown as a parameter and returns one of f's parameters."""
    import inspect  # pylint: disable=import-outside-toplevel
    import typing  # pylint: disable=import-outside-toplevel
    fns = law_functions(module)
    if len(fns) < 2:
        return
    sigs = {k: inspect.signature(v) for k, v in fns}
    for fname, f in fns:
        for gname, g in fns:
            if fname == gname:
                continue
            fs, gs = _stem(fname), _stem(gname)
            fparams = list(sigs[fname].parameters)
            gparams = list(sigs[gname].parameters)
            fb = [p.rstrip("_") for p in fparams]
            gb = [p.rstrip("_") for p in gparams]
            if fs not in gb or gs not in fb or not set(gb) - {fs} <= set(fb):
                continue
            try:
                hf, hg = typing.get_type_hints(f), typing.get_type_hints(g)
            except Exception:  # pylint: disable=broad-except
                continue
            yield fname, f, gname, g, fparams, gparams, fs, gs, hf, hg


def build_inverses(module, key_prefix: str) -> list:
    """For every ordered pair (f, g) of law functions of a module where g takes f's unknown as a parameter and
    returns one of f's parameters:   let u := f(x, others) in g(u, others) = x   (composition done by Coq's let)."""
    import inspect  # pylint: disable=import-outside-toplevel
    fns = law_functions(module)
    out = []
    if len(fns) < 2:
        return out
    sigs = {k: inspect.signature(v) for k, v in fns}
    for fname, f in fns:
        for gname, g in fns:
            if fname == gname:
                continue
            fs, gs = _stem(fname), _stem(gname)
            fparams = [p.rstrip("_") for p in sigs[fname].parameters]
            gparams = [p.rstrip("_") for p in sigs[gname].parameters]
            if fs not in gparams or gs not in fparams:
                continue
            if not set(gparams) - {fs} <= set(fparams):
                continue
            try:
                hints = {}
                try:
                    import typing  # pylint: disable=import-outside-toplevel
                    hints_f = typing.get_type_hints(f)
                    hints_g = typing.get_type_hints(g)
                except Exception:  # pylint: disable=broad-except
                    continue
                del hints
                vals, symsof = {}, {}
                for p in sigs[fname].parameters:
                    v, ss = _generic_param(p, hints_f.get(p))
                    vals[p.rstrip("_")] = v
                    symsof[p.rstrip("_")] = ss
                u = f(**{p: vals[p.rstrip("_")] for p in sigs[fname].parameters})
                uc = _components(u)
                if uc is None:
                    continue
                # generic symbols for f's unknown, fed to g
                uval, usyms = _generic_param(fs + "_", hints_g.get([p for p in sigs[gname].parameters if p.rstrip("_") == fs][0]))
                if len(usyms) != len(uc):
                    if len(uc) < len(usyms):
                        uc = uc + [sympy.S.Zero] * (len(usyms) - len(uc))
                    else:
                        continue
                gargs = {}
                for p in sigs[gname].parameters:
                    b = p.rstrip("_")
                    gargs[p] = uval if b == fs else vals[b]
                w = g(**gargs)
                wc = _components(w)
                xs = symsof[gs]
                if wc is None:
                    continue
                wc = wc + [sympy.S.Zero] * (len(xs) - len(wc))
                if len(wc) != len(xs):
                    continue
                ser = Ser({}, None)
                pre = []
                u_texts = [ser.term(c) for c in uc]
                n0 = len(ser.rc.side)
                pre_side = ser.rc.hyps()
                # g's output in terms of the let-bound u's
                unames = [f"u{i}" for i in range(len(usyms))]
                ser2 = ser
                ser2.sigma = {}
                saved_hook = ser2.rc.atom_hook

                def hook(e, rc, _saved=saved_hook, _us=usyms, _un=unames):
                    if e.is_Symbol and e in _us:
                        return _un[_us.index(e)]
                    return _saved(e, rc)
                ser2.rc.atom_hook = hook
                goals = [f"{ser2.term(c)} = {ser2.term(x)}" for c, x in zip(wc, xs)]
                ser2.rc.atom_hook = saved_hook
                post_side = ser.rc.hyps()[len(pre_side):]
                del n0
                free = set().union(*[c.free_symbols for c in uc + wc])
                for s in sorted(free, key=str):
                    if s.is_Symbol and s not in usyms:
                        pre += assumption_hyps(s, ser.term(s))
                for nme, o in ser.rc.origin.items():
                    if isinstance(o, SymQuantity) and o.is_positive:
                        pre.append(f"0 < {nme}")
                lets = "".join(f"let {n} := {t} in\n  " for n, t in zip(unames, u_texts))
                b = ser.binder()
                st = (f"forall {b}, " if b else "") + "\n  " + "".join(h + " ->\n  " for h in dedup(pre + pre_side)) + lets \
                    + "".join(h + " ->\n  " for h in dedup(post_side)) + " /\\\n  ".join(goals)
                name = "inv_" + sanitize(key_prefix) + f"__{gname}_after_{fname}"
                sp = LemmaSpec(name, st, f"{key_prefix}:{gname}({fname}(x)) = x", "inverse", y=fs, F=uc, law=None)
                out.append(sp)
            except NotHandled:
                continue
            except sx.Unsupported:
                continue
            except Exception:  # pylint: disable=broad-except
                continue
    return out
