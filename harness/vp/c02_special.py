"""C02: deterministic special tuples for the numeric tie (exact rational arguments, no conditioning filter):

* boundary   -- tuples ON the boundary of every comparison the function or its law makes (path conditions of the
                extraction, refusing guards, Piecewise / Min / Max / relational nodes of the closed form), i.e. equal SI
                values written in different units as distinct Quantity objects, and just beside it (rel 1e-6);
* mixed      -- vector functions called with QuantityVectors of different lengths (shorter first, longer first);
                the module's mutual-inverse law functions composed numerically on such vectors;
* long-seq   -- functions over a sequence (IndexedSum / IndexedProduct / loops) called with 1, 2, 99, 100, 101, 150
                elements; the closed form is re-extracted for that length and the law's sum is expanded HERE
                (c02_lemma.expand_indexed), not by the repository's IndexedSum.doit.

The expectation at a tuple: the closed form's branch whose path conditions hold (exactly, rational arithmetic) gives the
value; if no returning branch holds the function must refuse.  +-oo is a legitimate value (Piecewise laws)."""
from __future__ import annotations

import math

import sympy
from sympy.core.relational import Relational
from sympy.physics.units import Quantity as SymQuantity

from . import c02_extract as X
from . import c02_lemma as L
from . import c02_num as N

SEQ_LENGTHS = (1, 2, 99, 100, 101, 150)


# ---------------------------------------------------------------------------------------------
# building a call from exact SI values
# ---------------------------------------------------------------------------------------------

def build_call(ex, env, rng, plan, vec_len=None):
    """kwargs for the real function from exact SI values (`env`: symbol -> sympy number), every dimensional argument
    written in a random unit with an exact number.  vec_len: {param: n} keeps only the first n vector components
    (the others must be 0 in env)."""
    from symplyphysics import Quantity  # pylint: disable=import-outside-toplevel
    from symplyphysics.core.vectors.vectors import QuantityVector  # pylint: disable=import-outside-toplevel
    vec_len = vec_len or {}
    desc = {}

    def leaf(s, d):
        dim, how, _g = plan[s]
        v = sympy.sympify(env[s])
        if how == "int" or (s.is_integer and how != "quantity"):
            d.append("int")
            return int(v)
        if "Rational" in X._LEAF.get(s.name, ""):  # pylint: disable=protected-access
            d.append("rational")
            return sympy.nsimplify(v)
        if how == "number" or (how == "either" and (dim is None or N._dimless(dim)) and rng.random() < 0.5):  # pylint: disable=protected-access
            d.append("number")
            return v
        if dim is None or N._dimless(dim):  # pylint: disable=protected-access
            d.append("dimensionless")
            return Quantity(v)
        q, _si, how_ = N.make_quantity_exact(rng, dim, v)
        d.append(how_)
        return q

    def walk(v, d, param):
        if isinstance(v, X.SVec):
            comps = v.components
            n = vec_len.get(param, len(comps))
            qs = []
            for s in comps[:n]:
                o = leaf(s, d)
                qs.append(o if isinstance(o, SymQuantity) else Quantity(o))
            return QuantityVector(qs)
        if isinstance(v, (list, tuple)):
            out = [walk(x, d, param) for x in v]
            return tuple(out) if isinstance(v, tuple) else out
        if isinstance(v, sympy.Pow) and v.base in plan:      # expression-valued parameter  b ** unknown
            return sympy.sympify(leaf(v.base, d)) ** v.exp
        return leaf(v, d)

    kwargs = {}
    for a in ex.args:
        d: list = []
        kwargs[a.param] = walk(a.value, d, a.param)
        desc[a.param] = d
    return kwargs, desc


def nice_value(sym, plan, rng):
    dim, how, _g = plan[sym]
    if how == "int" or sym.is_integer:
        return sympy.Integer(rng.randint(1, 6))
    if N._is_angle(dim):  # pylint: disable=protected-access
        return sympy.Rational(rng.randint(5, 140), 100)
    v = sympy.Rational(rng.randint(1, 999), 10 ** rng.randint(0, 4)) * sympy.Integer(10) ** rng.randint(-3, 2)
    if not (sym.is_positive or sym.is_nonnegative) and rng.random() < 0.2:
        v = -v
    return v


# ---------------------------------------------------------------------------------------------
# judging one call
# ---------------------------------------------------------------------------------------------

def _num(x, prec=30):
    """sympy/python number -> float | complex | +-inf | nan"""
    try:
        v = sympy.N(sympy.sympify(x), prec)
    except Exception:  # pylint: disable=broad-except
        return float("nan")
    if v in (sympy.oo, sympy.S.Infinity):
        return math.inf
    if v == -sympy.oo:
        return -math.inf
    if v in (sympy.zoo, sympy.nan) or not v.is_number:
        return float("nan")
    c = complex(v)
    return c.real if abs(c.imag) <= 1e-12 * max(1.0, abs(c.real)) else c


def _same(a, b, rel=1e-9):
    if isinstance(a, (list, tuple)) or isinstance(b, (list, tuple)):
        fa, fb = N._flatten(a), N._flatten(b)  # pylint: disable=protected-access
        n = max(len(fa), len(fb))
        fa, fb = fa + [0.0] * (n - len(fa)), fb + [0.0] * (n - len(fb))
        if any(isinstance(x, float) and math.isinf(x) for x in fa + fb):
            return all(_same(x, y, rel) for x, y in zip(fa, fb))
        try:
            sc = max([abs(complex(x)) for x in fa + fb] + [0.0])
        except Exception:  # pylint: disable=broad-except
            return False
        return all(abs(complex(x) - complex(y)) <= rel * sc + 1e-300 for x, y in zip(fa, fb))
    if isinstance(a, float) and isinstance(b, float) and (math.isinf(a) or math.isinf(b)):
        return a == b
    return N.close(a, b, rel)


def _has_nan(x):
    def bad(v):
        if isinstance(v, complex):
            return not (math.isfinite(v.real) and math.isfinite(v.imag))
        return isinstance(v, float) and math.isnan(v)
    return any(bad(v) for v in N._flatten(x))  # pylint: disable=protected-access


def real_outcome(item, kwargs):
    try:
        res = item.fn(**kwargs)
    except Exception as e:  # pylint: disable=broad-except
        return "raise", f"{type(e).__name__}: {str(e)[:140]}"
    from symplyphysics.core.vectors.vectors import QuantityVector  # pylint: disable=import-outside-toplevel
    from symplyphysics import convert_to_si  # pylint: disable=import-outside-toplevel

    def si(x):
        if isinstance(x, QuantityVector):
            return [si(c) for c in x.components]
        if isinstance(x, (tuple, list)):
            return [si(c) for c in x]
        if isinstance(x, SymQuantity):
            try:
                return _num(convert_to_si(x))
            except Exception:  # pylint: disable=broad-except
                return _num(x.scale_factor)
        return _num(x)
    return "value", si(res)


def expected_outcome(ex, env, pick_branch):
    bi = pick_branch(ex, env)
    if bi is None:
        return "refuse", None, None
    b = ex.branches[bi]

    def ev(kind, val):
        if kind == "scalar":
            rep = {s: sympy.sympify(v) for s, v in env.items()}
            e = sympy.sympify(val).xreplace(rep)
            from symplyphysics import convert_to_si  # pylint: disable=import-outside-toplevel
            for q in e.atoms(SymQuantity):
                e = e.xreplace({q: sympy.nsimplify(convert_to_si(q))})
            return _num(e)
        if kind == "vector":
            return [ev("scalar", c) for c in val]
        return [ev(k, v) for k, v in val]
    return "value", ev(b.result_kind, b.result), bi


def direct_law_value(ex, b, env):
    """For a law published in explicit form  unknown = rhs : the law's own value at sigma(env) (handles Piecewise, +-oo)."""
    if len(ex.laws) != 1:
        return None
    law = ex.laws[0][1]
    if not isinstance(law, sympy.Eq) or not law.lhs.is_Symbol:
        return None
    law_syms = {s for s in law.free_symbols if not isinstance(s, SymQuantity)}
    try:
        sigma, multi, _c = L.final_sigma(ex, b, law_syms)
    except Exception:  # pylint: disable=broad-except
        return None
    if multi or (law_syms - set(sigma)) != {law.lhs}:
        return None
    if any(isinstance(a, L.STRUCTURED) and not isinstance(a, sympy.Piecewise) for a in sympy.preorder_traversal(law.rhs)):
        return None
    rep = {k: sympy.sympify(v).xreplace({s: sympy.sympify(x) for s, x in env.items()}) for k, v in sigma.items()}
    e = law.rhs.xreplace(rep)
    from symplyphysics import convert_to_si  # pylint: disable=import-outside-toplevel
    for q in e.atoms(SymQuantity):
        e = e.xreplace({q: sympy.nsimplify(convert_to_si(q))})
    v30, v60 = _num(e), _num(e, 60)
    try:
        if not (isinstance(v30, float) and math.isinf(v30)) and abs(complex(v30) - complex(v60)) > 1e-9 * abs(complex(v60)):
            return None          # the law's own value is not numerically reliable at this point (cancellation)
    except Exception:  # pylint: disable=broad-except
        return None
    return v60


def judge(item, ex, specs, kwargs, env, pick_branch):
    """-> record with status ok | skipped | mismatch (tie) | law-fail (real value differs from the law's own value)"""
    rec = {"env": {str(k): str(v) for k, v in env.items()}}
    kind, got = real_outcome(item, kwargs)
    try:
        ekind, want, bi = expected_outcome(ex, env, pick_branch)
    except Exception as e:  # pylint: disable=broad-except
        rec.update(real=kind, status="skipped", why=f"closed form not evaluable here: {type(e).__name__}: {str(e)[:100]}")
        return rec
    rec.update(real=kind, observed=got if kind == "value" else None, error=got if kind == "raise" else None,
        expected_kind=ekind, closed_form_value=want, branch=bi)
    if ekind == "refuse":
        if kind == "raise":
            rec["status"] = "ok"
        else:
            rec["status"] = "mismatch"
            rec["why"] = "the function returns a value where every path of its extraction refuses"
        return rec
    if _has_nan(want):
        rec["status"] = "skipped"
        rec["why"] = "closed form undefined at this point"
        return rec
    if kind == "raise":
        # a refusal where the closed form has a value: only dimension-independent refusals count
        if got.startswith(("ValueError", "AssertionError")):
            rec["status"] = "mismatch"
            rec["why"] = "the function refuses where its extraction returns a value"
        else:
            rec["status"] = "skipped"
            rec["why"] = "call not accepted: " + got
        return rec
    if _has_nan(got):
        rec["status"] = "skipped"
        rec["why"] = "real function returned an undefined value"
        return rec
    rec["status"] = "ok" if _same(got, want) else "mismatch"
    if rec["status"] == "mismatch":
        # conditioning: the real function evaluates in floating point.  A discrepancy below 10x the closed form's own
        # response to a 1e-12 relative change of the arguments is round-off (cos of 1e7 rad, cancellations); for the
        # float-precision classes (two_point_function / solve after substitution, known findings) up to 1e-4 relative
        try:
            fa, fb = N._flatten(got), N._flatten(want)  # pylint: disable=protected-access
            disc = max(abs(complex(x) - complex(y)) for x, y in zip(fa, fb))
            scale = max([abs(complex(x)) for x in fa + fb] + [1e-300])
            env2 = {k: sympy.sympify(v) * (1 + sympy.Rational(1, 10**12)) for k, v in env.items()}
            _k, want2, _b = expected_outcome(ex, env2, lambda _e, _v: bi)
            delta = max(abs(complex(x) - complex(y)) for x, y in zip(N._flatten(want2), fb))  # pylint: disable=protected-access
            if disc <= 10 * delta or (getattr(ex, "precision_class", False) and disc <= 1e-4 * scale):
                rec["status"] = "skipped"
                rec["why"] = f"ill-conditioned / float-precision point (discrepancy {disc:.3g}, response to 1e-12: {delta:.3g})"
                return rec
        except Exception:  # pylint: disable=broad-except
            pass
    # the law itself at this tuple
    b = ex.branches[bi]
    lawv = None
    if not isinstance(got, (list, tuple)):
        try:
            lawv = direct_law_value(ex, b, env)
        except Exception:  # pylint: disable=broad-except
            lawv = None
    if lawv is not None and not (isinstance(lawv, float) and math.isnan(lawv)) and not isinstance(lawv, complex):
        rec["law_value"] = lawv
        exc = next((s.exception for s in specs if s.branch == bi), "")
        if not exc and not _same(got, lawv) and not (rec["status"] == "ok" and _same(want, lawv, 1e-7)):
            rec["status"] = "law-fail"
    else:
        fenv = {k: (float(v) if sympy.sympify(v).is_Rational and not sympy.sympify(v).is_Integer else v) for k, v in env.items()}
        for sp in specs:
            if sp.branch != bi or (sp.law is None and sp.kind != "law-function"):
                continue
            if any(isinstance(x, float) and math.isinf(x) for x in N._flatten(got)):  # pylint: disable=protected-access
                continue
            try:
                v = L.spec_predicate(sp, env, got)
            except Exception:  # pylint: disable=broad-except
                continue
            rec["residual"] = v
            if v[0] == "fail" and rec["status"] == "ok" and not isinstance(got, (list, tuple)):
                # the float the function returned agrees with its closed form; does the closed form's exact value satisfy
                # the law?  then the residual is round-off amplified by the law, not a wrong value
                try:
                    rep = {s_: sympy.sympify(x) for s_, x in env.items()}
                    wex = sympy.N(sympy.sympify(b.result).xreplace(rep), 40)
                    if wex.is_number and L.spec_predicate(sp, env, wex)[0] == "ok":
                        rec["residual"] = ("ok", "residual of the real float is round-off: the exact closed-form value satisfies the law")
                        continue
                except Exception:  # pylint: disable=broad-except
                    pass
            if v[0] == "fail":
                # is the law's own evaluation reliable here?  (cosh/sinh of huge arguments cancel beyond 30 digits)
                try:
                    N.PREC[0] = 120
                    v120 = L.spec_predicate(sp, env, got)
                finally:
                    N.PREC[0] = 30
                if v120[0] == "ok":
                    rec["residual"] = ("ok", "law residual vanishes at 120 digits")
                    continue
                try:
                    d30, d120 = v[1], v120[1]
                    if any(not _same(d30[k], d120[k]) for k in ("lhs", "rhs") if k in d30 and k in d120):
                        rec["residual"] = ("skipped", "the law's own evaluation is not stable between 30 and 120 digits here")
                        continue
                except Exception:  # pylint: disable=broad-except
                    pass
            if v[0] == "fail":
                rec["status"] = "law-fail"
        del fenv
    return rec


# ---------------------------------------------------------------------------------------------
# boundary tuples
# ---------------------------------------------------------------------------------------------

def comparisons_of(ex):
    rels = []

    def add(r):
        if isinstance(r, Relational) and not isinstance(r, (sympy.Eq, sympy.Ne)) and r not in rels and r.reversed not in rels:
            if not r.atoms(SymQuantity) and r.free_symbols:
                rels.append(r)
    for b in ex.branches:
        for rel, _t in b.path:
            add(rel)
        for c in N._flatten(b.result if b.result_kind != "scalar" else [b.result]):  # pylint: disable=protected-access
            if isinstance(c, tuple):
                continue
            if isinstance(c, sympy.Basic):
                for node in sympy.preorder_traversal(c):
                    if isinstance(node, Relational):
                        add(node)
                    elif isinstance(node, (sympy.Min, sympy.Max)) and len(node.args) == 2:
                        add(sympy.Le(node.args[0], node.args[1]))
    for path, _err in ex.refused:
        for rel, _t in path:
            add(rel)
    return rels


def boundary_points(ex, rel, plan, rng):
    """Exact environments on  rel.lhs == rel.rhs  and just beside it."""
    syms = sorted({s for a in ex.args for s in a.syms}, key=str)
    free = sorted(rel.free_symbols & set(syms), key=str)
    if not free:
        return []
    # solve for a dimensional symbol if there is one
    cand = sorted(free, key=lambda s: (plan[s][1] != "quantity", str(s)))
    for target in cand:
        if plan[target][1] == "int":
            continue
        for _try in range(4):
            env = {s: nice_value(s, plan, rng) for s in syms if s != target}
            try:
                num = sympy.fraction(sympy.together((rel.lhs - rel.rhs).xreplace(env)))[0]
                poly = sympy.Poly(sympy.expand(num), target)
                sols = list(sympy.roots(poly, target).keys()) if 1 <= poly.degree() <= 2 and poly.domain.is_QQ or poly.domain.is_ZZ else []
            except Exception:  # pylint: disable=broad-except
                sols = []
            for sol in sols:
                sol = sympy.nsimplify(sol) if sol.is_Float else sol
                if not sol.is_real or sol.free_symbols or sol == 0:
                    continue
                if (target.is_positive or target.is_nonnegative) and sol < 0:
                    continue
                out = []
                for f, label in ((1, "on"), (1 + sympy.Rational(1, 10**6), "above"), (1 - sympy.Rational(1, 10**6), "below")):
                    e = dict(env)
                    e[target] = sol * f
                    out.append((label, e))
                return out
    return []


def boundary_stream(item, ex, specs, plan, rng, pick_branch, limit=4):
    recs = []
    for rel in comparisons_of(ex)[:limit]:
        for label, env in boundary_points(ex, rel, plan, rng):
            try:
                kwargs, desc = build_call(ex, env, rng, plan)
            except Exception as e:  # pylint: disable=broad-except
                recs.append({"status": "skipped", "why": f"call not constructible: {type(e).__name__}: {e}"[:160]})
                continue
            r = judge(item, ex, specs, kwargs, env, pick_branch)
            r.update(stream="boundary", comparison=str(rel), position=label, units=desc)
            atomic = all(side.is_Symbol or side.is_number for side in (rel.lhs, rel.rhs))
            if label == "on" and not atomic and r["status"] in ("mismatch", "law-fail"):
                # the compared quantity is *computed* in floating point by the function: exactly on the boundary its
                # round-off may fall on either side; only comparisons of arguments with each other / with constants are
                # decisive there (the +-1e-6 neighbours are always decisive)
                r["status"] = "skipped"
                r["why"] = "exact boundary of a computed expression: float round-off decides the side"
            recs.append(r)
    return recs


# ---------------------------------------------------------------------------------------------
# vectors of different lengths
# ---------------------------------------------------------------------------------------------

def mixed_length_stream(item, ex, specs, plan, rng, pick_branch):
    vec_args = [a for a in ex.args if isinstance(a.value, X.SVec)]
    if len(vec_args) < 1:
        return []
    recs = []
    syms = sorted({s for a in ex.args for s in a.syms}, key=str)
    patterns = []
    if len(vec_args) >= 2:
        patterns = [{vec_args[0].param: 2}, {vec_args[1].param: 2}, {vec_args[0].param: 1, vec_args[1].param: 3}]
    else:
        patterns = [{vec_args[0].param: 2}]
    for pat in patterns:
        env = {s: nice_value(s, plan, rng) for s in syms}
        for a in vec_args:
            n = pat.get(a.param, 3)
            for s in a.value.components[n:]:
                env[s] = sympy.Integer(0)
        try:
            kwargs, desc = build_call(ex, env, rng, plan, vec_len=pat)
        except Exception as e:  # pylint: disable=broad-except
            recs.append({"status": "skipped", "why": f"call not constructible: {type(e).__name__}: {e}"[:160]})
            continue
        r = judge(item, ex, specs, kwargs, env, pick_branch)
        r.update(stream="mixed-length", lengths={a.param: pat.get(a.param, 3) for a in vec_args}, units=desc)
        recs.append(r)
    return recs


def inverse_numeric(module, rng):
    """g(f(x, others), others) == x (zero padded) on numeric vectors of different lengths, for the module's law functions."""
    from symplyphysics import Vector  # pylint: disable=import-outside-toplevel
    recs = []
    for fname, f, gname, g, fparams, gparams, fs, gs, hints_f, hints_g in L.iter_inverse_pairs(module):
        vec_params = [p for p in fparams if getattr(hints_f.get(p), "__name__", "") == "Vector"]
        if not vec_params:
            continue
        for short in vec_params[:2]:
            vals, plain = {}, {}
            ok = True
            for p in fparams:
                ann = getattr(hints_f.get(p), "__name__", "")
                if ann == "Vector":
                    n = 2 if p == short else 3
                    comp = [sympy.Rational(rng.randint(1, 99), rng.randint(1, 9)) * rng.choice([1, -1]) for _ in range(n)]
                    vals[p] = Vector(comp)
                    plain[p.rstrip("_")] = comp + [sympy.S.Zero] * (3 - n)
                elif ann in ("Expr", "Quantity", "float", "Symbol"):
                    vals[p] = sympy.Rational(rng.randint(1, 99), rng.randint(1, 9))
                    plain[p.rstrip("_")] = vals[p]
                else:
                    ok = False
            if not ok:
                continue
            try:
                u = f(**vals)
                gargs = {}
                for p in gparams:
                    b = p.rstrip("_")
                    gargs[p] = u if b == fs else vals[[q for q in fparams if q.rstrip("_") == b][0]]
                w = g(**gargs)
                wc = L._components(w)  # pylint: disable=protected-access
                x = plain[gs]
                xs = x if isinstance(x, list) else [x]
                free = set().union(*[sympy.sympify(c).free_symbols for c in wc]) if wc else set()
                rep = {s: sympy.Rational(rng.randint(2, 9), rng.randint(1, 5)) for s in sorted(free, key=str)}
                from symplyphysics import convert_to_si  # pylint: disable=import-outside-toplevel
                for c in wc:
                    for q in sympy.sympify(c).atoms(SymQuantity):
                        rep[q] = sympy.nsimplify(convert_to_si(q))
                # module scalars (mass, ...) are shared by f and g: the same substitution on both sides
                wv = [_num(sympy.sympify(c).xreplace(rep)) for c in wc] + [0.0] * (len(xs) - len(wc))
                xv = [_num(c) for c in xs] + [0.0] * (len(wc) - len(xs))
                if _has_nan(wv) or any(isinstance(v, complex) for v in wv):
                    status = "skipped"
                else:
                    status = "ok" if _same(wv, xv) else "mismatch"
                recs.append({"stream": "inverse-mixed-length", "pair": f"{gname}({fname}(x))", "short": short, "status": status,
                    "observed": wv, "closed_form_value": xv, "env": {k: str(v) for k, v in plain.items()}})
            except Exception as e:  # pylint: disable=broad-except
                recs.append({"stream": "inverse-mixed-length", "pair": f"{gname}({fname}(x))", "status": "skipped",
                    "why": f"{type(e).__name__}: {str(e)[:120]}"})
    return recs


# ---------------------------------------------------------------------------------------------
# long sequences
# ---------------------------------------------------------------------------------------------

def has_sequence_arg(ex) -> bool:
    for a in ex.args:
        if isinstance(a.value, list):
            return True
    return False


def long_sequence_stream(item, build_lemmas, rng, pick_branch, lengths=SEQ_LENGTHS):
    recs = []
    old = X.SEQ_LEN
    try:
        for n in lengths:
            X.SEQ_LEN = n
            ex = X.extract(item)
            if ex.status != "ok":
                recs.append({"stream": "long-sequence", "length": n, "status": "skipped", "why": "not extracted: " + ex.reason[:120]})
                continue
            specs, _nol = build_lemmas(ex)
            plan = N.leaf_plan(ex)
            syms = sorted({s for a in ex.args for s in a.syms}, key=str)
            env = {s: nice_value(s, plan, rng) for s in syms}
            try:
                kwargs, desc = build_call(ex, env, rng, plan)
            except Exception as e:  # pylint: disable=broad-except
                recs.append({"stream": "long-sequence", "length": n, "status": "skipped", "why": f"{type(e).__name__}: {e}"[:160]})
                continue
            r = judge(item, ex, specs, kwargs, env, pick_branch)
            r.update(stream="long-sequence", length=n)
            if len(r["env"]) > 12:
                keys = sorted(r["env"])
                r["env_head"] = {k: r["env"][k] for k in keys[:3] + keys[-3:]}
            r["units_sample"] = {k: v[:3] for k, v in desc.items()}
            recs.append(r)
    finally:
        X.SEQ_LEN = old
    return recs


# ---------------------------------------------------------------------------------------------
# round 3: aliasing, orderings / angles outside the first period, chosen values of the raw solution
# ---------------------------------------------------------------------------------------------

def build_call_aliased(ex, env, rng, plan, group):
    """Like build_call, but every leaf symbol of `group` is represented by ONE shared object (the same Quantity, or the
    same QuantityVector when the group is a set of vector stand-ins): callers that key on object identity collapse them."""
    from symplyphysics import Quantity  # pylint: disable=import-outside-toplevel
    from symplyphysics.core.vectors.vectors import QuantityVector  # pylint: disable=import-outside-toplevel
    shared = {}
    desc = {}
    gids = {id(g) for g in group}

    def leaf(s, d):
        key = "scalar" if s in group else None
        if key and key in shared:
            d.append("same-object")
            return shared[key]
        one, dd = build_call_leaf(s, env, rng, plan)
        d += dd
        if key:
            shared[key] = one
        return one

    def walk(v, d):
        if isinstance(v, X.SVec):
            if id(v) in gids:
                if "vec" not in shared:
                    shared["vec"] = QuantityVector([(lambda o: o if isinstance(o, SymQuantity) else Quantity(o))(leaf(s, d)) for s in v.components])
                else:
                    d.append("same-vector-object")
                return shared["vec"]
            return QuantityVector([(lambda o: o if isinstance(o, SymQuantity) else Quantity(o))(leaf(s, d)) for s in v.components])
        if isinstance(v, (list, tuple)):
            out = [walk(x, d) for x in v]
            return tuple(out) if isinstance(v, tuple) else out
        if isinstance(v, sympy.Pow) and v.base in plan:
            return sympy.sympify(leaf(v.base, d)) ** v.exp
        return leaf(v, d)

    kwargs = {}
    for a in ex.args:
        d: list = []
        kwargs[a.param] = walk(a.value, d)
        desc[a.param] = d
    return kwargs, desc


def build_call_leaf(s, env, rng, plan):
    class _One:      # a one-argument extraction-like shell so that build_call's leaf logic is reused
        args = []
    from .c02_extract import Arg  # pylint: disable=import-outside-toplevel
    shell = _One()
    shell.args = [Arg("p", "scalar", [s], s)]
    kw, d = build_call(shell, env, rng, plan)
    return kw["p"], d["p"]


def alias_groups(ex, plan, limit=4):
    """Groups of stand-ins that may be passed as one object: elements of one sequence parameter; scalar parameters of the
    same declared dimension; vector parameters (or vector elements of a sequence) of the same dimension."""
    groups = []
    scal = {}
    vecs = {}

    def visit(v, param, in_seq):
        if isinstance(v, X.SVec):
            vecs.setdefault(str(v.dimension), []).append(v)
        elif isinstance(v, (list, tuple)):
            elems = [x for x in v if isinstance(x, sympy.Symbol)]
            if len(elems) >= 2 and len({(str(plan[x][0]), plan[x][1]) for x in elems}) == 1 and plan[elems[0]][1] != "int":
                groups.append(("elements of " + param, elems))
            for x in v:
                if not isinstance(x, sympy.Symbol):
                    visit(x, param, True)
        elif isinstance(v, sympy.Symbol) and not in_seq:
            dim, how, _g = plan[v]
            if how in ("quantity", "either") and dim is not None:
                scal.setdefault(str(dim), []).append(v)
    for a in ex.args:
        visit(a.value, a.param, False)
    for dim, ss in sorted(scal.items()):
        if len(ss) >= 2:
            groups.append((f"scalar parameters of dimension {dim}", ss))
    for dim, vs in sorted(vecs.items()):
        if len(vs) >= 2:
            groups.append((f"vector parameters of dimension {dim}", vs))
    return groups[:limit]


def aliasing_stream(item, ex, specs, plan, rng, pick_branch, limit=4):
    recs = []
    syms = sorted({s for a in ex.args for s in a.syms}, key=str)
    for label, group in alias_groups(ex, plan, limit):
        env = {s: nice_value(s, plan, rng) for s in syms}
        if isinstance(group[0], X.SVec):
            for v in group[1:]:
                for s0, s in zip(group[0].components, v.components):
                    env[s] = env[s0]
        else:
            for s in group[1:]:
                env[s] = env[group[0]]
        try:
            kwargs, desc = build_call_aliased(ex, env, rng, plan, group)
        except Exception as e:  # pylint: disable=broad-except
            recs.append({"stream": "aliasing", "status": "skipped", "why": f"call not constructible: {type(e).__name__}: {e}"[:160]})
            continue
        r = judge(item, ex, specs, kwargs, env, pick_branch)
        r.update(stream="aliasing", aliased=label, units=desc)
        recs.append(r)
    return recs


def ordering_stream(item, ex, specs, plan, rng, pick_branch, limit=3):
    """Same-dimension scalar arguments in both orders (a < b, a > b; a == b is the aliasing stream) and angles outside
    the first period / negative (-30 deg, 200 deg, 2 pi + 0.4)."""
    recs = []
    syms = sorted({s for a in ex.args for s in a.syms}, key=str)
    scal = {}
    for s in syms:
        dim, how, _g = plan[s]
        if how in ("quantity", "either", "number") and not s.is_integer:
            scal.setdefault(str(dim), []).append(s)
    cases = []
    for _dim, ss in sorted(scal.items()):
        for i in range(len(ss) - 1):
            cases.append(("order", ss[i], ss[i + 1]))
    cases = cases[:limit]
    for s in syms:
        if N._is_angle(plan[s][0]):  # pylint: disable=protected-access
            angles = [(-sympy.pi / 6, "-30 deg"), (sympy.pi * 10 / 9, "200 deg"), (2 * sympy.pi + sympy.Rational(2, 5), "2 pi + 0.4")]
            if limit < 3:
                angles = [angles[rng.randrange(3)], angles[1]] if limit == 2 else [angles[1]]
            for val, lab in dict.fromkeys(angles):
                if not ((s.is_positive or s.is_nonnegative) and val.is_negative):
                    cases.append(("angle", s, (val, lab)))
    for kind, a, b in cases[: limit + 6]:
        variants = []
        if kind == "order":
            base = nice_value(a, plan, rng)
            variants = [({a: base, b: base * sympy.Rational(5, 2)}, f"{a} < {b}"), ({a: base * sympy.Rational(5, 2), b: base}, f"{a} > {b}")]
            if base < 0:
                variants = [({a: base * sympy.Rational(5, 2), b: base}, f"{a} < {b}"), ({a: base, b: base * sympy.Rational(5, 2)}, f"{a} > {b}")]
        else:
            variants = [({a: b[0]}, f"{a} = {b[1]}")]
        for fix, label in variants:
            env = {s: nice_value(s, plan, rng) for s in syms}
            env.update(fix)
            try:
                kwargs, desc = build_call(ex, env, rng, plan)
            except Exception as e:  # pylint: disable=broad-except
                recs.append({"stream": "ordering", "status": "skipped", "why": f"{type(e).__name__}: {e}"[:160]})
                continue
            r = judge(item, ex, specs, kwargs, env, pick_branch)
            r.update(stream="ordering", case=label, units=desc)
            recs.append(r)
    return recs


class _Limit(BaseException):
    pass


def limited(seconds, fn, default):
    """fn() under a nested alarm (the enclosing budget of the driver is restored afterwards)."""
    import signal  # pylint: disable=import-outside-toplevel
    import time  # pylint: disable=import-outside-toplevel
    old_handler = signal.getsignal(signal.SIGVTALRM)

    def h(*_a):
        raise _Limit()
    del time
    remaining, _i = signal.setitimer(signal.ITIMER_VIRTUAL, 0)
    signal.signal(signal.SIGVTALRM, h)
    signal.setitimer(signal.ITIMER_VIRTUAL, seconds)
    try:
        return fn()
    except _Limit:
        return default
    except Exception:  # pylint: disable=broad-except
        return default
    finally:
        left, _i = signal.setitimer(signal.ITIMER_VIRTUAL, 0)
        signal.signal(signal.SIGVTALRM, old_handler)
        if remaining:
            signal.setitimer(signal.ITIMER_VIRTUAL, max(0.5, remaining - (seconds - left)))


TARGETS = (sympy.Rational(-5, 2), sympy.Integer(-1), sympy.Integer(0), sympy.Integer(3), sympy.Rational(5, 2), sympy.Integer(60))


def target_value_stream(item, ex, specs, plan, rng, pick_branch):
    """Functions that post-process the solved law (ceiling / int / abs / max / min): one argument is solved so that the RAW
    solution takes chosen values -- negative, zero, an exact integer, a half-integer, large."""
    recs = []
    raw = None
    for sp in specs:
        if sp.exception in ("ceiling", "abs", "trunc") and isinstance(sp.F, sympy.Basic):
            raw = sp.F
            break
    if raw is None:
        return recs
    syms = sorted({s for a in ex.args for s in a.syms}, key=str)
    cands = [s for s in sorted(raw.free_symbols & set(syms), key=str) if plan[s][1] != "int" and not s.is_integer]
    for T in TARGETS:
        done = False
        for target in cands:
            if done:
                break
            env = {s: nice_value(s, plan, rng) for s in syms if s != target}
            sols = limited(4, lambda: sympy.solve(sympy.Eq(raw.xreplace(env), T), target), [])
            for sol in sols:
                if sol.free_symbols or not sol.is_real or sol.has(sympy.I) or sol == 0:
                    continue
                if (target.is_positive or target.is_nonnegative) and sol.is_negative:
                    continue
                e = dict(env)
                e[target] = sol
                try:
                    kwargs, desc = build_call(ex, e, rng, plan)
                except Exception:  # pylint: disable=broad-except
                    continue
                r = judge(item, ex, specs, kwargs, e, pick_branch)
                r.update(stream="target-value", raw_solution=str(T), solved_for=str(target), units=desc)
                if T.is_Integer and r["status"] in ("mismatch", "law-fail"):
                    try:      # exact integers: float round-off of the real function may fall on either side of ceil/int
                        g, w = r.get("observed"), r.get("closed_form_value")
                        if isinstance(g, float) and isinstance(w, float) and abs(g - w) <= 1 + 1e-9 and T != 0:
                            r["status"], r["why"] = "skipped", "exact-integer solution: round-off decides the side of the rounding"
                    except Exception:  # pylint: disable=broad-except
                        pass
                recs.append(r)
                done = True
                break
    return recs


# ---------------------------------------------------------------------------------------------
# round 4: vector arguments written in cylindrical / spherical coordinates, law judged geometrically
# ---------------------------------------------------------------------------------------------

def _to_cartesian(kind: str, c):
    """Plain float arithmetic, independent of the repository's vector code (conventions of CoordinateSystem:
    cylindrical (r, theta, z); spherical (r, theta = azimuth, phi = polar angle))."""
    c = [float(x) for x in c] + [0.0] * (3 - len(c))
    if kind == "CYLINDRICAL":
        r, th, z = c
        return [r * math.cos(th), r * math.sin(th), z]
    if kind == "SPHERICAL":
        r, th, ph = c
        return [r * math.sin(ph) * math.cos(th), r * math.sin(ph) * math.sin(th), r * math.cos(ph)]
    return c[:3]


def _from_cartesian(kind: str, v):
    x, y, z = [float(t) for t in v]
    if kind == "CYLINDRICAL":
        return [math.hypot(x, y), math.atan2(y, x), z]
    r = math.sqrt(x * x + y * y + z * z)
    return [r, math.atan2(y, x), math.acos(z / r)]


def curvilinear_stream(item, ex, specs, plan, rng, pick_branch, fixed=None):
    """Every vector argument is the same geometric vector written in CoordinateSystem(CYLINDRICAL) / (SPHERICAL) (angle slots
    as angle quantities in radian or degree, one shared coordinate-system object); the result is converted to Cartesian
    components HERE and compared with the law function / closed form evaluated at the Cartesian components."""
    from symplyphysics import Quantity, units, convert_to_si  # pylint: disable=import-outside-toplevel
    from symplyphysics.core.coordinate_systems.coordinate_systems import CoordinateSystem  # pylint: disable=import-outside-toplevel
    from symplyphysics.core.vectors.vectors import QuantityVector  # pylint: disable=import-outside-toplevel
    from symplyphysics.core.dimensions import dimension_to_si_unit  # pylint: disable=import-outside-toplevel
    vec_args = [a for a in ex.args if isinstance(a.value, X.SVec)]
    if not vec_args or any(not isinstance(a.value, (X.SVec, sympy.Symbol)) for a in ex.args):
        return []
    recs = []
    syms = sorted({s for a in ex.args for s in a.syms}, key=str)
    for kind in (("CYLINDRICAL", "SPHERICAL") if fixed is None else (fixed[0],)):
        env = {s: nice_value(s, plan, rng) for s in syms}
        for a in vec_args:                      # generic direction: no zero component, azimuth not a multiple of pi
            for s, v in zip(a.value.components, (rng.randint(1, 9), -rng.randint(1, 9), rng.randint(1, 9))):
                env[s] = sympy.Rational(v * rng.randint(1, 9), rng.randint(1, 4))
        if fixed is not None:                   # replay of a recorded tuple
            env = dict(fixed[1])
        cs = CoordinateSystem(getattr(CoordinateSystem.System, kind))
        try:
            kwargs, desc = build_call(ex, env, rng, plan)
            shown = {}
            for a in vec_args:
                comps = _from_cartesian(kind, [env[s] for s in a.value.components])
                dim = a.value.dimension
                unit = dimension_to_si_unit(dim) if dim is not None else 1
                qs = []
                for i, c in enumerate(comps):
                    if CoordinateSystem.is_angle_component(cs.coord_system_type, i):
                        qs.append(Quantity(sympy.Float(math.degrees(c)) * units.degree) if rng.random() < 0.5
                            else Quantity(sympy.Float(c) * units.radian))
                    else:
                        qs.append(Quantity(sympy.Float(c) * unit))
                kwargs[a.param] = QuantityVector(qs, cs)
                shown[a.param] = comps
        except Exception as e:  # pylint: disable=broad-except
            recs.append({"stream": "curvilinear", "system": kind, "status": "skipped", "why": f"call not constructible: {type(e).__name__}: {e}"[:160]})
            continue
        rec = {"stream": "curvilinear", "system": kind, "env": {str(k): str(v) for k, v in env.items()}, "components_passed": shown}
        try:
            res = item.fn(**kwargs)
        except Exception as e:  # pylint: disable=broad-except
            rec.update(status="skipped", real="raise", why=f"not accepted in {kind.lower()} coordinates: {type(e).__name__}: {str(e)[:100]}")
            recs.append(rec)
            continue
        try:
            if isinstance(res, QuantityVector):
                rk = res.coordinate_system.coord_system_type.name
                got_native = [float(convert_to_si(q)) for q in res.components]
                got = _to_cartesian(rk, got_native)
                rec.update(result_system=rk, result_components=got_native)
            else:
                got = real_value_of(res)
            _k, want, bi = expected_outcome(ex, env, pick_branch)
        except Exception as e:  # pylint: disable=broad-except
            rec.update(status="skipped", why=f"result not comparable: {type(e).__name__}: {str(e)[:100]}")
            recs.append(rec)
            continue
        rec.update(real="value", observed=got, closed_form_value=want, branch=bi)
        if want is None or _has_nan(want) or _has_nan(got):
            rec["status"] = "skipped"
            rec["why"] = "undefined value"
        elif _same(got, want, 1e-9):
            rec["status"] = "ok"
        else:
            # the closed form at the Cartesian components IS the law function's value when the law-function lemma holds
            lawfn = any(sp.kind == "law-function" and sp.branch == bi for sp in specs)
            rec["status"] = "law-fail" if lawfn else "mismatch"
            rec["why"] = (f"converted to Cartesian components the result is {got}, the law at the Cartesian components of the "
                f"arguments gives {want}")
        recs.append(rec)
    return recs


def real_value_of(res):
    from symplyphysics import convert_to_si  # pylint: disable=import-outside-toplevel
    if isinstance(res, SymQuantity):
        return _num(convert_to_si(res))
    if isinstance(res, (list, tuple)):
        return [real_value_of(r) for r in res]
    return _num(res)
