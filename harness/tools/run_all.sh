#!/bin/bash
# Development helper: run every registered check (quick tier by default) on /repo, one after the other, and summarise.
tier=${1:-quick}
cd /verif
for p in $(python3 -c "import json; print(' '.join(c['property_id'] for c in json.load(open('/verif/MANIFEST.json'))['checks']))"); do
  s=$(date +%s)
  ./check $p --tier $tier > /verif/build/runall_$p.log 2>&1; rc=$?
  echo "$p exit=$rc violations=$(grep -c '^VIOLATION' /verif/build/runall_$p.log) known=$(grep -c '^KNOWN-FINDING' /verif/build/runall_$p.log) $(( $(date +%s) - s ))s"
done
