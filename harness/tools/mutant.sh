#!/bin/bash
# Development helper (not a registered command): run one property's check against a patch applied to a scratch worktree.
#   mutant.sh <PROP> <worktree> <patch.diff> [tier]      prints the exit code and the VIOLATION lines
prop=$1; wt=$2; patch=$3; tier=${4:-quick}; tag="mut_${prop}_$$"
git -C "$wt" checkout -q -- . && git -C "$wt" clean -fdq ; git -C "$wt" apply "$patch" || { echo "patch does not apply"; exit 3; }
out=/verif/build/scratch.$tag.log; mkdir -p /verif/build
VERIF_SCRATCH=$tag VERIF_REPO=$wt PYTHONPATH=$wt PYTHONHASHSEED=0 PYTHONDONTWRITEBYTECODE=1 SYMPLYPHYSICS_VERIF=1 \
  timeout 1800 /venv/bin/python /verif/harness/main.py "$prop" --tier "$tier" > "$out" 2>&1
rc=$?
git -C "$wt" checkout -q -- . && git -C "$wt" clean -fdq
echo "exit=$rc"; grep -E "^(VIOLATION|KNOWN-FINDING)" "$out" | cut -c1-200 | head -8; grep -E "violation:" "$out" | cut -c1-260 | head -5
tail -1 "$out" | cut -c1-200
