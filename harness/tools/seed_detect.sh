#!/bin/bash
# Development helper: run the property's quick check on seeded change <PROP> <k>, record the outcome next to the patch.
prop=$1; k=$2; root=${MUTROOT:-/tmp/mut}; out=$root/${prop}_out
/verif/harness/tools/mutant.sh "$prop" $root/$prop "$out/patch_$k.diff" quick > "$out/detect_$k.txt" 2>&1
python3 - "$prop" "$k" "$root" <<'PY'
import json, re, sys
prop, k, root = sys.argv[1], sys.argv[2], sys.argv[3]
txt = open(f"{root}/{prop}_out/detect_{k}.txt").read()
m = re.search(r"^exit=(\d+)", txt, re.M)
lines = [l[:300] for l in txt.splitlines() if l.strip()]
json.dump({"check": f"./check {prop} --tier quick", "exit": int(m.group(1)) if m else -1,
           "violation_lines": [l for l in lines if l.startswith("VIOLATION")][:3],
           "first_reports": [l for l in lines if "violation:" in l][:3]},
          open(f"{root}/{prop}_out/detect_{k}.json", "w"), indent=1)
print(f"{prop}-{k} exit={m.group(1) if m else '?'}")
PY
