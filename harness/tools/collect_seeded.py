#!/usr/bin/env python3
"""Assemble /verif/seeded/<PROP>-<k>/ from the red-team output directories /tmp/mut/<PROP>_out (development helper)."""
import json, shutil, sys
from pathlib import Path

SEEDED = Path("/verif/seeded")
# changes that stopped being changes: their demonstration exposed a defect of the CLEAN tree, which has since been repaired in
# /repo, and the repair makes the seeded change ineffective
NOTES = {
    "C06-r3-2": "not kept: the demonstration (wrappers of arguments that print alike share one cached symbol) failed on the clean tree "
                "too -- a genuine defect, repaired by /repo commit f39c340; after the repair the change has no effect",
    "C16-r3-1": "not kept: after /repo commit d09ee8b (a power of a vector expression is not a scalar factor) the weakened denominator "
                "guard no longer lets b/(2*a) through; its demonstration passes with and without the change",
}
rows = []
outs = [(o, "") for o in sorted(Path("/tmp/mut").glob("C*_out"))] + [(o, "r2-") for o in sorted(Path("/tmp/mut2").glob("C*_out"))] + [(o, "r3-") for o in sorted(Path("/tmp/mut3").glob("C*_out"))] + [(o, "r4-") for o in sorted(Path("/tmp/mut4").glob("C*_out"))] + [(o, "r5-") for o in sorted(Path("/tmp/mut5").glob("C*_out"))]
for out, tag in outs:
    prop = out.name[:3]
    for k in (1, 2, 3):
        patch, demo, meta, conf, det = (out / f"patch_{k}.diff", out / f"demo_{k}.py", out / f"meta_{k}.json",
            out / f"confirm_{k}.json", out / f"detect_{k}.json")
        if not (patch.exists() and demo.exists() and conf.exists()):
            continue
        c = json.loads(conf.read_text())
        ok = c.get("applies") and "2568 passed" in c.get("tests", "") and c.get("demo_exit_with_change") not in (0, None) \
            and c.get("demo_exit_without_change") == 0
        if not ok:
            rows.append((f"{prop}-{tag}{k}", NOTES.get(f"{prop}-{tag}{k}", "NOT KEPT (could not be confirmed: %s)" % c), ""))
            continue
        d = SEEDED / f"{prop}-{tag}{k}"
        d.mkdir(parents=True, exist_ok=True)
        shutil.copy(patch, d / "patch.diff")
        shutil.copy(demo, d / "demo.py")
        m = json.loads(meta.read_text()) if meta.exists() else {}
        det_j = json.loads(det.read_text()) if det.exists() else None
        other = {}
        for f in out.glob(f"detect_{k}_by_*.txt"):
            import re as _re
            t = f.read_text()
            mm = _re.search(r"^exit=(\d+)", t, _re.M)
            other[f.stem.split("_by_")[1]] = {"exit": int(mm.group(1)) if mm else -1,
                "first_reports": [l[:300] for l in t.splitlines() if "violation:" in l][:2]}
        m2 = {
            "id": f"{prop}-{tag}{k}", "property": prop,
            "summary": m.get("summary"), "what_breaks": m.get("what_breaks"),
            "needs_to_manifest": m.get("needs_to_manifest"), "files_changed": m.get("files_changed"),
            "author": "independent sub-agent given only the property text and a scratch worktree",
            "confirmed_by_main": {"how": "harness/tools/confirm_mutant.sh in a scratch worktree: full test suite with the change; "
                                         "demo.py with and without the change", **c},
            "detection": det_j,
            "detected_by_other_checks": other,
            "how_to_run": f"git -C /repo apply /verif/seeded/{prop}-{tag}{k}/patch.diff && (cd /verif && ./check {prop}); git -C /repo checkout -- .",
        }
        (d / "meta.json").write_text(json.dumps(m2, indent=1) + "\n")
        caught = "caught (exit %s)" % det_j["exit"] if det_j and det_j["exit"] == 1 else ("MISSED" if det_j else "not evaluated")
        for oc, od in other.items():
            if od["exit"] == 1:
                caught += f"; caught by ./check {oc}"
        rows.append((f"{prop}-{tag}{k}", (m.get("summary") or "")[:110], caught))
lines = ["# Seeded changes", "",
    "Each directory holds one source change written by an independent sub-agent that saw only the property text and its own",
    "scratch worktree, never /verif.  All keep the package importable and the 2568-test suite green (confirmed again by the",
    "main session, see meta.json).  `detection` in meta.json is the result of the property's quick check on the change.", "",
    "| id | change | quick check |", "|---|---|---|"]
for r in rows:
    lines.append(f"| {r[0]} | {r[1]} | {r[2]} |")
(SEEDED / "README.md").write_text("\n".join(lines) + "\n")
print("\n".join(lines[-len(rows):]))
