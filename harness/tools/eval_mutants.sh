#!/bin/bash
# Development helper: confirm and detect every patch_k of <ROOT> <PROP> sequentially (worktree moved to /repo's HEAD first)
root=$1; p=$2; head=$(git -C /repo rev-parse HEAD)
git -C $root/$p checkout -q -- . ; git -C $root/$p clean -fdq; git -C $root/$p checkout -q --detach $head
export MUTROOT=$root
for k in 1 2 3 4; do [ -f $root/${p}_out/patch_$k.diff ] && /verif/harness/tools/confirm_mutant.sh $p $k >/dev/null 2>&1; done
for k in 1 2 3 4; do [ -f $root/${p}_out/patch_$k.diff ] && /verif/harness/tools/seed_detect.sh $p $k; done
echo -n "confirmed: "; cat $root/${p}_out/confirm_?.json | grep -c '"demo_exit_with_change": 1, "demo_exit_without_change": 0'
