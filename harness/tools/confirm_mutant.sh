#!/bin/bash
# Development helper: confirm a seeded change independently -- the full test suite passes with it, its demonstration
# fails with it and passes without it.   confirm_mutant.sh <PROP> <k>   (works in the scratch worktree /tmp/mut/<PROP>)
prop=$1; k=$2; root=${MUTROOT:-/tmp/mut}; wt=$root/$prop; out=$root/${prop}_out
git -C "$wt" checkout -q -- . ; git -C "$wt" clean -fdq
git -C "$wt" apply "$out/patch_$k.diff" || { echo "{\"applies\": false}" > "$out/confirm_$k.json"; exit 3; }
( cd "$wt" && PYTHONPATH=$wt PYTHONDONTWRITEBYTECODE=1 /venv/bin/python -m pytest -q -p no:cacheprovider --timeout=900 test 2>&1 | tail -1 ) > "$out/confirm_${k}_tests.txt"
( cd "$out" && PYTHONPATH=$wt PYTHONHASHSEED=0 PYTHONDONTWRITEBYTECODE=1 timeout 600 /venv/bin/python demo_$k.py > "$out/confirm_${k}_demo_mut.txt" 2>&1 ); rc_mut=$?
git -C "$wt" checkout -q -- . ; git -C "$wt" clean -fdq
( cd "$out" && PYTHONPATH=$wt PYTHONHASHSEED=0 PYTHONDONTWRITEBYTECODE=1 timeout 600 /venv/bin/python demo_$k.py > "$out/confirm_${k}_demo_clean.txt" 2>&1 ); rc_clean=$?
tests=$(cat "$out/confirm_${k}_tests.txt" | tr -d '"')
echo "{\"applies\": true, \"tests\": \"$tests\", \"demo_exit_with_change\": $rc_mut, \"demo_exit_without_change\": $rc_clean}" > "$out/confirm_$k.json"
cat "$out/confirm_$k.json"
