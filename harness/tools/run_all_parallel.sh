#!/bin/bash
# Development helper: run every registered check (tier $1, default quick) on /repo, $2 at a time (default 4), and summarise.
tier=${1:-quick}; par=${2:-4}; skip=${3:-}
cd /verif
props=$(python3 -c "import json; print(' '.join(c['property_id'] for c in json.load(open('/verif/MANIFEST.json'))['checks']))")
run_one() { p=$1; tier=$2; s=$(date +%s); ./check $p --tier $tier > /verif/build/runall_$p.log 2>&1; rc=$?
  echo "$p exit=$rc violations=$(grep -c '^VIOLATION' /verif/build/runall_$p.log) known=$(grep -c '^KNOWN-FINDING' /verif/build/runall_$p.log) $(( $(date +%s) - s ))s"; }
export -f run_one
for p in $props; do case " $skip " in *" $p "*) continue;; esac; echo $p; done | xargs -P $par -I{} bash -c "run_one {} $tier"
