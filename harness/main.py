#!/venv/bin/python
"""Entry point:  ./check <ID> [--tier quick|thorough] [--replay path]"""
from __future__ import annotations

import argparse
import hashlib
import importlib
import json
import os
import sys
import time
import traceback
from pathlib import Path

HERE = Path(__file__).resolve().parent
sys.path.insert(0, str(HERE))

from vp import common, findings  # noqa: E402  pylint: disable=wrong-import-position


def main() -> int:
    ap = argparse.ArgumentParser()
    ap.add_argument("prop")
    ap.add_argument("--tier", default=os.environ.get("VERIF_TIER", "quick"), choices=["quick", "thorough"])
    ap.add_argument("--replay", default=None)
    args = ap.parse_args()
    prop = args.prop.upper()
    # `kill -USR1 <pid>` prints where a long run currently is (development aid)
    import faulthandler  # pylint: disable=import-outside-toplevel
    import signal  # pylint: disable=import-outside-toplevel
    faulthandler.register(signal.SIGUSR1, all_threads=True)
    seed = int(os.environ.get("VERIF_SEED", "20261001") or 20261001)

    # the implementation under test is /repo's working tree
    sys.path.insert(0, str(common.REPO))
    os.environ.setdefault(common.GUARD, "1")

    # two runs of the same property (same scratch tag) share a build directory and an evidence file: serialise them
    import fcntl  # pylint: disable=import-outside-toplevel
    common.BUILD.mkdir(exist_ok=True)
    lock = open(common.BUILD / f".lock.{prop}.{common.SCRATCH or 'main'}", "w")
    fcntl.flock(lock, fcntl.LOCK_EX)
    ctx = common.Ctx(prop=prop, tier=args.tier, seed=seed)
    if not args.replay:
        for old in common.REPLAYS.glob(f"{prop}_*.json"):
            old.unlink()
    mod = importlib.import_module(f"props.{prop.lower()}")
    try:
        impl = common.assert_repo_on_path()
        ctx.coverage["implementation"] = impl
        if args.replay:
            return mod.replay(ctx, json.loads(Path(args.replay).read_text()))
        mod.run(ctx)
    except Exception as e:  # pylint: disable=broad-except
        tb = traceback.format_exc()
        ctx.log("driver exception:\n" + tb)
        ctx.violation(f"{prop}:driver-exception:{type(e).__name__}",
            f"check machinery could not complete: {type(e).__name__}: {e}",
            {"kind": "broken-tie", "theorem_or_tie": "driver", "traceback": tb[-4000:]}, found_input=False)

    known = findings.load(prop)
    n_new = 0
    lines = []
    for v in ctx.violations:
        e = known.get(v.key)
        if e is not None and e.get("status") == "known":
            lines.append(f"KNOWN-FINDING: property={prop} {e.get('what', v.what)} [key={v.key}]")
            continue
        n_new += 1
        h = hashlib.sha1(v.key.encode()).hexdigest()[:10]
        path = common.REPLAYS / f"{prop}_{h}.json"
        rep = {"property": prop, "key": v.key, "what": v.what, "seed": seed, "tier": args.tier,
            "found_failing_input": v.found_input,
            "how_to_replay": f"cd /verif && ./check {prop} --replay {path}"}
        rep.update(v.replay)
        common.dump_json(path, rep)
        tail = "" if v.found_input else " no-failing-input-found"
        lines.append(f"VIOLATION property={prop} replay={path}{tail}")
        ctx.log("violation:", v.key, "--", v.what)

    cov = ctx.coverage
    cov.setdefault("checker_cmd", f"coqc 8.16.1 (-Q /verif/coq/theories VP) via ./check {prop} --tier {args.tier}")
    cov["known_findings_matched"] = [v.key for v in ctx.violations if v.key in known and known[v.key].get("status") == "known"]
    cov["new_violation_keys"] = [v.key for v in ctx.violations if not (v.key in known and known[v.key].get("status") == "known")]
    if not cov.get("samples"):
        cov["samples"] = ["(no sample recorded)"]
    ev = {
        "property_id": prop,
        "tier": args.tier,
        "seed": seed,
        "level": ctx.level,
        "coverage": cov,
        "assumptions": ctx.assumptions,
        "wall_s": round(time.time() - ctx.t0, 2),
        "violations": n_new,
    }
    common.dump_json(common.EVIDENCE / f"{prop}.json", ev)
    for ln in lines:
        print(ln, flush=True)
    print(f"[{prop}] tier={args.tier} seed={seed} obligations={cov['obligations']} discharged={cov['discharged']} "
        f"evaluations={cov['evaluations']} violations={n_new} wall={ev['wall_s']}s", flush=True)
    return 1 if n_new else 0


if __name__ == "__main__":
    sys.exit(main())
