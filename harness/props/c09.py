"""C09 -- distinct symbols never alias; clones keep dimension and assumptions; printing shows display names.

static theorems : coq/theories/Properties/C09.v   (about Model/Ids.v and Model/Symbols.v)
tie             : correspondence -- seeded operation sequences are executed by the real library and by the
                  Gallina model (inside Coq, vm_compute); every observed string / dimension / assumption set /
                  equality matrix / printed sum / algebra result is compared exactly.
search          : specification predicates written from the property text are evaluated on the implementation's
                  observations of every sequence (not only after a disagreement)."""
from __future__ import annotations

import hashlib
import json

from vp import coqrun, symgen
from vp.symgen import gstr, glist

STATIC = ["C09_next_id_monotone", "C09_decode_unique", "C09_names_fresh", "C09_repo_prefixes_digit_free",
    "created_pairwise_distinct", "created_pairwise_distinct_from", "created_never_alias",
    "subs_non_interference", "subs_unmentioned", "diff_unmentioned", "subs_lin2", "diff_lin2", "solve_lin2_sound",
    "clone_creates", "clone_keeps_dimension", "clone_keeps_display_when_not_overridden", "clone_subscript",
    "clone_assumptions", "clone_assumptions_passed", "printing_uses_display", "display_is_given", "printing_shows_given_display"]

import re as _re
GEN_LABEL = _re.compile(r"(SYM|FUN|QTY|SYS|VEC|C)\d+")
# entry points that show the generated name on the UNCHANGED tree and are not observation points of the property (recorded as
# observations in the design note): str()/repr() go through SymPy's StrPrinter, which prints an applied undefined function by its class name.
# (print_expression of an unapplied Function used to be here too: it was a genuine violation, repaired in /repo 032cba4, now enforced.)
BASELINE_LEAKS = {("fun", "*", "str"), ("fun", "*", "repr")}

CODE_NAMES = {1: "objects", 2: "counters", 3: "aliasing", 4: "printed-sums", 5: "algebra"}
CLONE_FN = {"csym": "clone_as_symbol", "cfun": "clone_as_function", "cidx": "clone_as_indexed"}


# ---------------------------------------------------------------------------------------------
# specification predicates (from the property text; evaluated on the implementation's observations)
# ---------------------------------------------------------------------------------------------

def truthy(s):
    return s is not None and s != ""


def spec_failures(case):
    """list of (key, what, detail) for every way this executed sequence contradicts the property text"""
    out = []
    seen, ops, objs = case["seen"], case["ops"], case["objs"]
    names = [r["name"] for r in seen]

    # (1) every created object is a distinct mathematical object
    for i, j in case["alias"]:
        out.append((f"C09:alias:{seen[i]['kind']}/{seen[j]['kind']}",
            f"two separately created objects compare equal: #{i} {ops[i]} and #{j} {ops[j]}",
            {"i": i, "j": j, "names": [names[i], names[j]]}))
    for i in case["not_self_equal"]:
        out.append((f"C09:not-self-equal:{seen[i]['kind']}", f"object #{i} is not equal to itself", {"i": i}))
    if len(set(zip((r["kind"] in ("sym", "idx") for r in seen), names))) != len(names):
        dup = sorted({n for n in names if names.count(n) > 1})
        kinds = sorted({seen[i]["kind"] for i, n in enumerate(names) if n in dup})
        out.append((f"C09:duplicate-internal-name:{'/'.join(kinds)}", f"generated internal names repeat: {dup[:5]}",
            {"names": dup[:20]}))

    # (1b) every minted name is beyond the counter state the sequence started from (ids are never re-used)
    import re  # pylint: disable=import-outside-toplevel
    for i, r in enumerate(seen):
        m = re.match(r"^(SYM|FUN|QTY|SYS|VEC|C|)(\d+)$", r["name"])
        if m and int(m.group(2)) <= case["ids_before"].get(m.group(1), 0):
            out.append((f"C09:ids-not-increasing:{r['kind']}", f"object #{i} got the internal name {r['name']} although the {m.group(1)!r} counter "
                f"already stood at {case['ids_before'].get(m.group(1), 0)} before the sequence: the id was handed out before (it names an older live object)",
                {"i": i, "counter_state": {m.group(1): case["ids_before"].get(m.group(1), 0)}, "name": r["name"]}))
            break

    # (2) substitution / differentiation / solving for one object never touch another
    for r in case["algebra"]:
        ia, ix, ib, iy = r["idx"]
        if "raw" not in r:
            continue
        t = case["t"]
        A, X, B, Y = (objs[i].term(t) for i in (ia, ix, ib, iy))
        r_subs, r_diff, r_solve = r["raw"]
        ok_subs = (r_subs - (7 * A + B * Y)) == 0 and r_subs.has(Y) and not r_subs.has(X)
        ok_diff = (r_diff - A) == 0
        ok_solve = len(r_solve) == 1 and (r_solve[0] - (-B * Y / A)) == 0
        if not (ok_subs and ok_diff and ok_solve):
            which = [n for n, ok in (("subs", ok_subs), ("diff", ok_diff), ("solve", ok_solve)) if not ok]
            out.append((f"C09:algebra:{'+'.join(which)}:{seen[ix]['kind']}/{seen[iy]['kind']}",
                f"{'/'.join(which)} with respect to object #{ix} (display {seen[ix]['display']!r}) affected another object "
                f"in a*x + b*y with positions {r['idx']}: {r['texts']}", {"idx": r["idx"], "texts": r["texts"]}))

    # (3) clones
    for i, op in enumerate(ops):
        if op["op"] not in CLONE_FN:
            continue
        fn = CLONE_FN[op["op"]]
        s, c = seen[op["src"]], seen[i]
        if c["dim"] != s["dim"]:
            out.append((f"C09:{fn}:dimension", f"{fn} changed the dimension of its source (#{op['src']} -> #{i})",
                {"op": op, "source": s["display"], "dims": [str(s["dim"]), str(c["dim"])]}))
        sub = op.get("subscript")
        base_d = op["display"] if truthy(op["display"]) else s["display"]
        base_l = op["latex"] if truthy(op["latex"]) else s["latex"]
        if truthy(sub):
            want_d, want_l = f"{base_d}_{sub}", f"{base_l}_{{{sub}}}"
        else:
            want_d, want_l = base_d, base_l
        if base_d != "" and c["display"] != want_d:
            kind = "subscript-code" if truthy(sub) else "display"
            out.append((f"C09:{fn}:{kind}", f"{fn}: code name is {c['display']!r}, expected {want_d!r}", {"op": op, "source": s["display"]}))
        if base_l != "" and c["latex"] != want_l:
            kind = "subscript-latex" if truthy(sub) else "latex"
            out.append((f"C09:{fn}:{kind}", f"{fn}: LaTeX name is {c['latex']!r}, expected {want_l!r}", {"op": op, "source": s["latex"]}))
        passed = tuple(tuple(x) for x in op["assumptions"])
        if c.get("assum_raw") is None or s.get("assum_raw") is None:
            continue
        got_raw = dict(c["assum_raw"])
        if not passed:
            # no assumptions passed: the clone's FULL assumption dict equals the source's (True and False facts alike)
            src_raw = dict(s["assum_raw"])
            if fn == "clone_as_function" and src_raw.get("commutative") is True:
                src_raw.pop("commutative")       # the default of every function, not recorded by SymPy for functions
            if got_raw != src_raw:
                lost = {k: v for k, v in src_raw.items() if got_raw.get(k) != v}
                out.append((f"C09:{fn}:assumptions-not-inherited",
                    f"{fn} without assumption keywords: the clone's assumptions differ from its source's; source created with "
                    f"{dict(ops[op['src']].get('assumptions') or [])} (closure of {s['assum']}), facts lost or changed: {lost}",
                    {"op": op, "source_op": ops[op["src"]], "source_assumptions": s["assum"], "clone_assumptions": c["assum"], "lost": lost}))
            qs, qc = s.get("queries") or {}, c.get("queries") or {}
            bad_q = {q: (qs[q], qc.get(q)) for q in qs if qc and qs[q] is not qc.get(q)}
            if bad_q:
                out.append((f"C09:{fn}:assumption-queries",
                    f"{fn} without assumption keywords: derived queries differ between source and clone (source, clone): {bad_q}; "
                    f"source created with {dict(ops[op['src']].get('assumptions') or [])}",
                    {"op": op, "source_op": ops[op["src"]], "queries": {k: [str(x) for x in v] for k, v in bad_q.items()}}))
        else:
            # assumptions passed: they replace the source's -- the clone has exactly the closure of what was passed
            want = case["tabs"][{"clone_as_symbol": "sym", "clone_as_function": "fun", "clone_as_indexed": "idx"}[fn]][symgen.ASSUMS.index(passed)] \
                if passed in symgen.ASSUMS else None
            if want is not None and got_raw != want:
                out.append((f"C09:{fn}:passed-assumptions", f"{fn} with assumptions {dict(passed)}: the clone has {c['assum']} "
                    f"(differs from what SymPy derives from the passed facts)", {"op": op, "clone_assumptions": c["assum"]}))

    # (4) printing shows display names, never generated internal names
    has_given = []
    for i, (op, r) in enumerate(zip(ops, seen)):
        # a display name is "given" when the caller passed one, or (clones) the source had one
        has_given.append(truthy(op.get("display")) or (op["op"] in CLONE_FN and has_given[op["src"]]))
        if r["kind"] in ("sys", "qvec") or not has_given[i]:
            continue
        if r["kind"] == "qty" and "QTY" in r["display"]:
            continue
        for which in ("pp", "code"):
            txt = r[which]
            if r["name"] in txt or not txt.startswith(r["display"]):
                out.append((f"C09:printing:{which}:{r['kind']}", f"{which} of object #{i} with display name {r['display']!r} "
                    f"is {txt!r} (internal name {r['name']})", {"op": op, "printed": txt}))
    # (4b) every shape of every kind through every entry point: where a display name was given, the generated label never shows
    for m in case.get("matrix", []):
        i = m["i"]
        r = seen[i]
        if not has_given[i] or (r["kind"] == "qty" and "QTY" in r["display"]) or GEN_LABEL.fullmatch(r["display"] or ""):
            continue
        if (r["kind"], m["form"], m["entry"]) in BASELINE_LEAKS or (r["kind"], "*", m["entry"]) in BASELINE_LEAKS:
            continue
        if m["form"].startswith("unapplied") and m["text"].startswith("<raised"):
            continue            # code_str refuses a Function class that was created without an argument list
        if r["name"] in m["text"] or r["display"] not in m["text"]:
            out.append((f"C09:printing:{m['entry']}:{r['kind']}:{m['form']}",
                f"{m['entry']} of object #{i} ({r['kind']}, display name {r['display']!r}) in the shape '{m['form']}' gives {m['text']!r}: "
                f"the generated label {r['name']} shows / the display name does not", {"op": ops[i], "i": i, "form": m["form"], "entry": m["entry"],
                "printed": m["text"]}))
    # (1c) wrappers of different objects that print alike are different objects with their own argument and dimension
    for w in case.get("wrappers", []):
        if "error" in w:
            continue
        if w["same_object"] or w["equal"] or not w["factor_own"] or not w["dim_own"]:
            out.append((f"C09:wrapper-alias:{w['cls']}", f"{w['cls']}(a) and {w['cls']}(b) for two different symbols a, b with the same display name "
                f"{seen[w['i']]['display']!r}: same object={w['same_object']}, equal={w['equal']}, keep own factor={w['factor_own']}, own dimension={w['dim_own']}",
                {"i": w["i"], "j": w["j"], "wrapper": w}))
    for s in case["sums"]:
        want = sorted(_term_text(seen[i]) for i in s["idx"])
        if sorted(s["terms"]) != want:
            out.append((f"C09:printing:sum:{s['printer']}", f"{s['printer']} of the sum of objects {s['idx']} is {s['text']!r}; expected the "
                f"display names {want}", {"sum": {k: v for k, v in s.items()}, "idx": list(s["idx"])}))
    return out


def _term_text(r):
    d = r["display"]
    return d + {"idx": "[i]", "fun": "(t)"}.get(r["kind"], "")


# ---------------------------------------------------------------------------------------------

def clone_function_example(ctx):
    """SymbolsProofs.ex_clone_function_inherits replayed on the real code (regression guard for the defect repaired in
    /repo 5aaf018: clone_as_function used to ignore source.assumptions0)"""
    import sympy  # pylint: disable=import-outside-toplevel
    from symplyphysics import Symbol  # pylint: disable=import-outside-toplevel
    from symplyphysics.core.symbols.symbols import clone_as_function  # pylint: disable=import-outside-toplevel
    x = Symbol("x", positive=True)
    t = sympy.Symbol("t")
    f, g = clone_as_function(x), clone_as_function(x, real=True)
    inherited = f(t).is_positive is True and g(t).is_real is True and g(t).is_positive is None
    ctx.coverage["clone_as_function_example"] = {"source": "Symbol('x', positive=True)", "clone(t).is_positive": str(f(t).is_positive),
        "clone(real=True)(t).is_positive": str(g(t).is_positive)}
    if not inherited:
        ctx.violation("C09:clone_as_function:assumptions-not-inherited",
            "clone_as_function(Symbol('x', positive=True)) is not positive (or passed assumptions do not replace the source's)",
            {"kind": "violation", "input": "clone_as_function(Symbol('x', positive=True))(t).is_positive",
             "observed": str(f(t).is_positive), "expected": "True", "theorem_or_tie": "clone_assumptions / ex_clone_function_inherits"}, True)
    return inherited


def wrapper_example(ctx):
    """two wrappers of one class whose arguments print alike ('T' for temperature and for period) are distinct objects that keep
    their own argument and dimension (regression guard for /repo f39c340)"""
    from symplyphysics import symbols  # pylint: disable=import-outside-toplevel
    from symplyphysics.core.operations.symbolic import Average  # pylint: disable=import-outside-toplevel
    a, b = Average(symbols.temperature), Average(symbols.period)
    ok = a is not b and a != b and a.factor is symbols.temperature and b.factor is symbols.period and a.dimension != b.dimension
    ctx.coverage["wrapper_example"] = {"Average(temperature) is Average(period)": a is b, "equal": bool(a == b), "texts": [str(a), str(b)],
        "dimensions": [str(a.dimension), str(b.dimension)]}
    if not ok:
        ctx.violation("C09:wrapper-alias:Average", "Average(symbols.temperature) and Average(symbols.period) are not two distinct objects with their "
            f"own argument and dimension: same object={a is b}, equal={a == b}, factors {a.factor}/{b.factor}, dimensions {a.dimension}/{b.dimension}",
            {"kind": "violation", "input": "Average(symbols.temperature), Average(symbols.period)", "observed": ctx.coverage["wrapper_example"],
             "expected": "two different objects; factor and dimension of each its own"}, True)


def store_stream(ctx, n_cases, max_ops):
    import sympy  # pylint: disable=import-outside-toplevel
    rng = ctx.rng
    t = sympy.Symbol("t")
    cases = []
    for k in range(n_cases):
        n_ops = rng.choice([3, 8, 20, 50, 100, max_ops]) if k else max_ops
        c = symgen.run_sequence(rng, n_ops, t)
        c["t"] = t
        cases.append(c)
    bad = coqrun.eval_cases(ctx, "store", symgen.PREAMBLE, [c["lit"] for c in cases], "check_case", per_file=max(1, len(cases) // 16 + 1),
        timeout=900)
    n_spec = 0
    hist = {}
    for i, c in enumerate(cases):
        for o in c["ops"]:
            hist[o["op"]] = hist.get(o["op"], 0) + 1
        fails = spec_failures(c)
        n_spec += len(fails)
        for key, what, detail in fails:
            if any(v.key == key for v in ctx.violations):
                continue
            small = shrink(c, key, detail, t)
            ctx.violation(key, what, {"kind": "violation", "case_index": i, "ids_before": c["ids_before"],
                "ops": small if small is not None else c["ops"], "minimised": small is not None,
                "detail": detail, "theorem_or_tie": "specification predicate of C09 on the implementation"}, True)
        if i in bad and not fails:
            code = coqrun.eval_terms(ctx, f"code_{i}", symgen.PREAMBLE, [f"check_case_code {c['lit']}"])[0]
            code = int(code.replace("%N", "").strip() or 0)
            digest = hashlib.sha1(json.dumps(c["ops"], sort_keys=True, default=str).encode()).hexdigest()[:12]
            ctx.violation(f"C09:disagree:{CODE_NAMES.get(code, code)}:{digest}",
                f"model and implementation disagree on the {CODE_NAMES.get(code, code)} of a creation sequence of {len(c['ops'])} operations",
                {"kind": "disagreement", "part": CODE_NAMES.get(code, code), "ids_before": c["ids_before"], "ops": c["ops"],
                 "observed": [{k: v for k, v in r.items() if k != "assum_raw"} for r in c["seen"]][:60],
                 "ids_after": c["ids_after"], "theorem_or_tie": "correspondence Model/Symbols.v ~ symbols.py/quantities.py"}, False)
    ctx.coverage["store_disagreements"] = len(bad)
    ctx.coverage["spec_failures"] = n_spec
    ctx.coverage["op_histogram"] = dict(sorted(hist.items()))
    n_objs = sum(len(c["objs"]) for c in cases)
    coll = 0
    for c in cases:
        ds = [r["display"] for r in c["seen"]]
        coll += sum(1 for d in set(ds) if ds.count(d) > 1)
    ctx.coverage["objects_created"] = n_objs
    ctx.coverage["display_names_shared_by_several_objects"] = coll
    ctx.coverage["pairs_compared"] = sum(len(c["objs"]) * (len(c["objs"]) - 1) // 2 for c in cases)
    ctx.coverage["hash_equal_distinct_pairs"] = sum(c["hash_equal_offdiag"] for c in cases)
    ctx.coverage["sums_printed"] = sum(len(c["sums"]) for c in cases)
    ctx.coverage["algebra_probes"] = sum(len(c["algebra"]) for c in cases)
    ctx.coverage["counter_bumps_to_boundaries"] = sum(len(c["bumped"]) for c in cases)
    distinct = len({json.dumps(c["ops"], sort_keys=True, default=str) for c in cases if any(o["op"] in CLONE_FN for o in c["ops"])})
    ctx.evaluated(len(cases), distinct)
    c0 = cases[-1]
    ctx.sample({"stream": "store", "ids_before": c0["ids_before"], "ops": c0["ops"][:6],
        "observed": [{k: str(v) for k, v in r.items() if k in ("kind", "name", "display", "latex", "assum", "pp", "code")} for r in c0["seen"][:6]]})
    return cases


def ancestors(ops, idx):
    need = set()
    todo = list(idx)
    while todo:
        i = todo.pop()
        if i in need:
            continue
        need.add(i)
        if ops[i]["op"] in CLONE_FN:
            todo.append(ops[i]["src"])
    return sorted(need)


def shrink(case, key, detail, t):
    """the creations a failure depends on (the objects involved and the sources they were cloned from), re-executed to
    make sure the failure is still there"""
    ops = case["ops"]
    idx = []
    if "i" in detail:
        idx = [detail["i"]] + ([detail["j"]] if "j" in detail else [])
    elif "idx" in detail:
        idx = list(detail["idx"])
    elif "op" in detail:
        idx = [k for k, o in enumerate(ops) if o is detail["op"]]
    if not idx:
        return None
    if key.split(":")[1] in CLONE_FN.values() and "op" in detail and len(idx) == 1:
        # two operations: the source re-created directly with the facts it ended up with, then the failing clone
        cl = ops[idx[0]]
        root = cl["src"]
        while ops[root]["op"] in CLONE_FN:
            root = ops[root]["src"]
        src_seen = case["seen"][cl["src"]]
        two = [{"op": src_seen["kind"], "display": src_seen["display"], "latex": src_seen["latex"],
                "assumptions": [list(x) for x in (src_seen["assum"] or ())], "dimension": ops[root]["dimension"]}, dict(cl, src=0)]
        try:
            if any(k == key for k, _, _ in spec_failures(replay_ops(two, t))):
                return two
        except Exception:  # pylint: disable=broad-except
            pass
    keep = ancestors(ops, idx)
    remap = {old: new for new, old in enumerate(keep)}
    small = []
    for old in keep:
        o = dict(ops[old])
        if o["op"] in CLONE_FN:
            o["src"] = remap[o["src"]]
        small.append(o)
    probe = {}
    if key.startswith("C09:algebra"):
        probe["algebra"] = [[remap[i] for i in detail["idx"]]]
    if key.startswith("C09:printing:sum"):
        probe["sums"] = [[remap[i] for i in detail["idx"]]]
    try:
        again = spec_failures(replay_ops(small, t, probe))
    except Exception:  # pylint: disable=broad-except
        return None
    if not any(k == key for k, _, _ in again):
        return None
    detail["probe"] = probe
    return small


def run(ctx):
    ctx.level = "proof"
    ctx.static(STATIC)
    ctx.trust("Coq 8.16.1 kernel incl. vm_compute (no native_compute)",
        "harness/vp/symgen.py: operation-sequence generator, observation canonicaliser and Gallina literal writer",
        "SymPy: Symbol/IndexedBase/UndefinedFunction/Quantity identity (==, hash), assumption closure (assumptions0), subs/diff/solve "
        "-- observed through the tie, not modelled beyond (kind, internal name, passed assumptions)",
        "Python str(int) and string comparison are modelled by Ids.dec / Ids.str_ltb (tied by the ids stream)")
    ctx.assume("SymPy decides equality of library-created atoms by (class, internal name, assumptions)",
        "objects are created only through the modelled constructors / clone helpers (IndexedSymbol(name_or_symbol=<Symbol>) "
        "deliberately re-uses a name and is outside the model)")
    found = symgen.tie_prefixes(ctx)
    symgen.ids_stream(ctx, ctx.pick(300, 3000), found)
    clone_function_example(ctx)
    wrapper_example(ctx)
    store_stream(ctx, ctx.pick(80, 400), 200)
    ctx.coverage["rule"] = ("store stream: seeded sequences of 3..200 creations/clones (Symbol, IndexedSymbol, Function, Quantity, "
        "CoordinateSystem/transform/rotate, VectorSymbol, QuantityVector, clone_as_symbol/function/indexed) with display names from a pool "
        "of 8 (collisions frequent), optional latex/subscript incl. '' and None, 20 signed assumption sets (True and False facts: positive, real, integer, "
        "nonnegative, zero=False, real=False+complex, negative=False, integer=False, positive=False, nonzero, even, odd, commutative=False, ...), counters bumped to 10^m - j; distinct = distinct operation lists; non-trivial = contains a clone. "
        "ids stream: random next_id/next_name/last_id histories over the source's prefixes from boundary counter states.")


def replay(ctx, rep):
    """re-executes the recorded operation list on /repo and prints what the property demands vs what is observed"""
    import sympy  # pylint: disable=import-outside-toplevel
    print(json.dumps({k: rep.get(k) for k in ("key", "what", "detail", "input", "observed", "expected")}, indent=1, default=str))
    if rep.get("key", "").startswith("C09:clone_as_function:assumptions-not-inherited") and "ops" not in rep:
        ok = clone_function_example(ctx)
        print("replayed: clone inherits positivity =", ok)
        return 0 if ok else 1
    if rep.get("key", "").startswith("C09:wrapper-alias") and "ops" not in rep:
        n0 = len(ctx.violations)
        wrapper_example(ctx)
        print("REPRODUCED" if len(ctx.violations) > n0 else "not reproduced on this tree")
        return 1 if len(ctx.violations) > n0 else 0
    if rep.get("key", "").startswith("C09:ids-not-increasing"):
        from symplyphysics import Symbol, Function, Quantity  # pylint: disable=import-outside-toplevel
        from symplyphysics.core.symbols import id_generator  # pylint: disable=import-outside-toplevel
        (pfx, val), = (rep.get("detail") or {}).get("counter_state", {}).items()
        id_generator._ids[pfx] = val  # pylint: disable=protected-access
        obj = {"FUN": Function, "QTY": Quantity}.get(pfx, Symbol)()
        nm = str(obj.name)
        print(f"counter {pfx!r} pre-set to {val}; the next object is named {nm}")
        again = nm[len(pfx):].isdigit() and int(nm[len(pfx):]) <= val
        print("REPRODUCED: the id was handed out before" if again else "not reproduced on this tree")
        return 1 if again else 0
    ops = rep.get("ops")
    if not ops:
        return 1
    from symplyphysics import Symbol, Function, Quantity  # pylint: disable=import-outside-toplevel,unused-import
    from symplyphysics.core.symbols import id_generator  # pylint: disable=import-outside-toplevel
    for k, v in (rep.get("ids_before") or {}).items():
        if id_generator._ids.get(k, 0) < v:  # pylint: disable=protected-access
            id_generator._ids[k] = v  # pylint: disable=protected-access
    case = replay_ops(ops, sympy.Symbol("t"), (rep.get("detail") or {}).get("probe") if rep.get("minimised") else None)
    fails = [f for f in spec_failures(case) if f[0] == rep.get("key")]
    for key, what, _ in fails[:5]:
        print("REPRODUCED", key, "--", what)
    if not fails:
        print("not reproduced on this tree")
    return 1 if fails else 0


def replay_ops(ops, t, probe=None):
    """deterministic re-execution of a recorded operation list (same constructors as symgen.run_sequence)"""
    # pylint: disable=import-outside-toplevel,too-many-locals,too-many-branches
    from sympy.physics.units import Dimension
    from symplyphysics import Symbol, Function, Quantity
    from symplyphysics.core.symbols.symbols import IndexedSymbol, clone_as_symbol, clone_as_function, clone_as_indexed
    from symplyphysics.core.symbols import id_generator
    from symplyphysics.docs.printer_code import code_str
    from symplyphysics import print_expression
    from vp import qx
    dims = {str(d): (d, u) for d, u in symgen.dim_pool()}
    tabs = symgen.assum_tables()
    objs, kept = [], []
    before = dict(id_generator._ids)  # pylint: disable=protected-access
    for op in ops:
        d, u = dims.get(op.get("dimension"), (Dimension(1), 1))
        kw = {k: v for k, v in op.get("assumptions", [])}
        k = op["op"]
        if k == "sym":
            objs.append(symgen.Created("sym", Symbol(op["display"], d, display_latex=op["latex"], **kw), op))
        elif k == "idx":
            objs.append(symgen.Created("idx", IndexedSymbol(op["display"], None, d, display_latex=op["latex"], **kw), op))
        elif k == "fun":
            objs.append(symgen.Created("fun", Function(op["display"], None, d, display_latex=op["latex"], **kw), op))
        elif k == "qty":
            objs.append(symgen.Created("qty", Quantity(u, display_symbol=op["display"], display_latex=op["latex"]), op))
        elif k in CLONE_FN:
            if op["src"] >= len(objs) or objs[op["src"]].kind not in ("sym", "idx"):
                continue
            src = objs[op["src"]].handle
            if k == "csym":
                objs.append(symgen.Created("sym", clone_as_symbol(src, display_symbol=op["display"], display_latex=op["latex"],
                    subscript=op.get("subscript"), **kw), op))
            elif k == "cfun":
                objs.append(symgen.Created("fun", clone_as_function(src, None, display_symbol=op["display"], display_latex=op["latex"],
                    subscript=op.get("subscript"), **kw), op))
            else:
                objs.append(symgen.Created("idx", clone_as_indexed(src, None, display_symbol=op["display"], display_latex=op["latex"], **kw), op))
        else:
            # coordinate systems / vectors do not take part in the specification predicates that can fail on replay;
            # keep positions aligned with a placeholder symbol
            objs.append(symgen.Created("sym", Symbol(None), dict(op, op="sym", display=None, latex=None, assumptions=[])))
        kept.append(objs[-1].op)
    seen = []
    for o in objs:
        h = o.handle
        rec = {"kind": o.kind, "name": str(h.name), "display": h.display_name, "latex": h.display_latex, "dim": qx.dim_vec(h.dimension)}
        raw = dict(h.assumptions0) if o.kind in ("sym", "idx") else symgen.function_kwargs(h) if o.kind == "fun" else {}
        rec["assum_raw"] = raw
        rec["assum"] = symgen.classify_assumptions(raw, tabs.get(o.kind, tabs["sym"])) if o.kind in tabs else ()
        term = o.term(t)
        rec["pp"], rec["code"] = print_expression(term), code_str(term)
        rec["queries"] = {q: getattr(term, q, None) for q in symgen.QUERIES} if o.kind in symgen.SCALAR else {}
        seen.append(rec)
    alias = [(i, j) for i in range(len(objs)) for j in range(i + 1, len(objs)) if objs[i].handle == objs[j].handle]
    import sympy
    sums, algebra = [], []
    for idx in (probe or {}).get("sums", []):
        e = sympy.Add(*[objs[i].term(t) for i in idx])
        for pr in (print_expression, code_str):
            txt = pr(e)
            sums.append({"idx": list(idx), "printer": pr.__name__, "text": txt, "terms": txt.split(" + ")})
    for idx in (probe or {}).get("algebra", []):
        A, X, B, Y = (objs[i].term(t) for i in idx)
        e = A * X + B * Y
        raw = (e.subs(X, 7), sympy.diff(e, X), sympy.solve(e, X))
        algebra.append({"idx": tuple(idx), "raw": raw, "texts": [str(r) for r in raw]})
    import random
    return {"seen": seen, "ops": kept, "objs": objs, "alias": alias, "not_self_equal": [], "algebra": algebra, "sums": sums, "t": t,
        "ids_before": before, "tabs": tabs, "matrix": symgen.printing_matrix(objs, seen, t, random.Random(0), limit=10**6),
        "wrappers": symgen.wrapper_probe(objs, seen, random.Random(0), pairs=6)}
