"""C12 -- gradient, divergence and curl are the true operators in all three coordinate systems.

static theorems : coq/theories/Properties/C12.v  (about Model/Ops.v, derivatives by our own D of Model/DiffAlg.v)
tie             : translator, output equality per shape and for all values.  The REAL gradient_operator /
                  divergence_operator / curl_operator are run on generic fields (undefined SymPy functions of the
                  three base scalars) for every system and component count 0..3; SymPy's output (after *its* diff)
                  is serialised with every Derivative node mapped to the jet it denotes and
                      Lemma corr_<op>_<sys>_<n>_<i> : forall rho, side -> impl_output = ev rho (Ops.<op>_<sys> D generic_n)
                  is closed by ring/field.  So operators.py's formulas ARE the model's formulas and SymPy's diff is
                  cross-checked against D.  Concrete trigonometric-polynomial fields are tied the same way
                  (corr_concrete_*) and run numerically against the specification (value-obliviousness, search).
spec predicate  : written from the property text, evaluated on the real code with concrete fields:
                  curl(grad f) = 0, div(curl F) = 0, curvilinear result = Cartesian operator (plain sympy.diff of the
                  Cartesian expression) in the local orthonormal basis, short field = zero-padded field."""
from __future__ import annotations

import sympy
from sympy import Function, Rational, cos, pi, sin

from vp import coqrun, sx
from vp.jets import JetSer, to_tx

STATIC = ["C12_" + n for n in (
    "curl_grad_zero_cart", "curl_grad_zero_cyl", "curl_grad_zero_sph",
    "div_curl_zero_cart", "div_curl_zero_cyl", "div_curl_zero_sph", "div_sph_code_eq", "div_curl_zero_sph_code",
    "grad_cyl_is_cart", "grad_sph_is_cart", "div_cyl_is_cart", "div_sph_is_cart", "curl_cyl_is_cart",
    "curl_sph_is_cart", "basis_orthonormal_cyl", "basis_orthonormal_sph", "basis_tangent_cyl", "basis_tangent_sph",
    "padding_div", "padding_curl", "padding_div_code", "padding_zero_components",
    "D_jet_commute", "Dvia_chain_rule", "D_correct",
    "div_grad_cart_is_laplacian", "curl_curl_cart", "div_grad_cyl_is_cart", "div_grad_sph_is_cart", "grad_div_cyl_is_cart",
    "grad_div_sph_is_cart", "curl_curl_cyl_is_cart", "curl_curl_sph_is_cart")]

SYSTEMS = ["cart", "cyl", "sph"]
COQ_SYS = {"cart": "Cart", "cyl": "Cyl", "sph": "Sph"}

PREAMBLE = """From Coq Require Import ZArith Reals List Lra Lia Field.
From VP Require Import Model.DiffAlg Model.Ops Proofs.OpsProofs.
Import ListNotations.
Local Open Scope R_scope.
Definition c3 (i : nat) (v : tx3) : tx :=
  match i with 0%nat => fst (fst v) | 1%nat => snd (fst v) | _ => snd v end.
Ltac c12_rw := repeat match goal with H : vj _ _ _ _ _ = _ |- _ => try rewrite !H; clear H end.
Ltac c12_tie_const := intros; unfold tan, Rdiv; cbv [c3]; ev_cbn; c12_rw;
  first [ solve [ring] | solve [field; repeat split; auto] | solve [field_simplify_eq; [ring | repeat split; auto ..]] ].
Ltac c12_tie := intros; unfold tan, Rdiv; cbv [c3]; ev_cbn;
  first [ solve [ring] | solve [field; repeat split; auto] | solve [field_simplify_eq; [ring | repeat split; auto ..]] ].
"""


# ---------------------------------------------------------------------------------------------
# the implementation under test
# ---------------------------------------------------------------------------------------------

def impl():
    from symplyphysics.core.coordinate_systems.coordinate_systems import CoordinateSystem
    from symplyphysics.core.fields.operators import curl_operator, divergence_operator, gradient_operator
    from symplyphysics.core.fields.scalar_field import ScalarField
    from symplyphysics.core.fields.vector_field import VectorField
    return CoordinateSystem, ScalarField, VectorField, gradient_operator, divergence_operator, curl_operator


# user-supplied inner CoordSys3D: the operators are POSITIONAL (base_scalars()[0..2]), whatever the variables are called
INNER_NAMES = {
    "cart": (("y", "z", "x"), ("e1", "e2", "e3")),
    "cyl": (("theta", "z", "r"), ("a", "b", "c")),
    "sph": (("r", "phi", "theta"), ("e_r", "e_phi", "e_theta")),     # ISO-style names: 2nd = azimuth called phi
}
VARIANTS = ["default", "inner"]
_INNER_COUNT = [0]


def make_cs(name, variant="default"):
    CoordinateSystem = impl()[0]
    st = {"cart": CoordinateSystem.System.CARTESIAN, "cyl": CoordinateSystem.System.CYLINDRICAL,
        "sph": CoordinateSystem.System.SPHERICAL}[name]
    if variant == "inner":
        from sympy.vector import CoordSys3D  # pylint: disable=import-outside-toplevel
        _INNER_COUNT[0] += 1
        var, vec = INNER_NAMES[name]
        cs = CoordinateSystem(st, CoordSys3D(f"VPU{_INNER_COUNT[0]}", variable_names=var, vector_names=vec))
    else:
        cs = CoordinateSystem(st)
    return cs, list(cs.coord_system.base_scalars())


class WrongSystem(Exception):
    """an operator result is not tagged with the coordinate-system object of its operand"""


def same_system(result, cs, what):
    if result.coordinate_system is not cs:
        raise WrongSystem(f"{what}: result.coordinate_system is {result.coordinate_system.coord_system_type.name} "
            f"{result.coordinate_system.coord_system}, the operand's is {cs.coord_system_type.name} {cs.coord_system}")
    return result


def coords_of(p):
    return [p.coordinate(0), p.coordinate(1), p.coordinate(2)]


VPATHS = ["lambda", "list", "from_vector", "from_sympy_vector"]     # every way a VectorField can be constructed
SPATHS = ["lambda", "value", "from_expression"]                     # every way a ScalarField can be constructed


def py_number(e):
    """a SymPy number as the plain Python int / float a user's callable would return"""
    e = sympy.sympify(e)
    if not e.is_number:
        raise ValueError(f"construction path needs a constant, got {e}")
    return int(e) if e.is_Integer else float(e)


def scalar_field(cs, fn, path="lambda"):
    """fn : three coordinate expressions -> expression.  `path` = how the ScalarField object is constructed:
    point function, stored value (number or expression in the base scalars), ScalarField.from_expression."""
    ScalarField = impl()[1]
    if path == "lambda":
        return ScalarField(lambda p: fn(*coords_of(p)), cs)
    e = sympy.sympify(fn(*cs.coord_system.base_scalars()))
    if path == "pynum":          # a callable that returns a plain Python int / float (ScalarField.__call__ does not sympify)
        v = py_number(e)
        return ScalarField(lambda p: v, cs)
    if path == "missing":        # a callable that returns a coordinate the point does not have: Point.coordinate -> int 0
        if e != 0:
            raise ValueError("the 'missing' path builds the zero field")
        return ScalarField(lambda p: p.coordinate(3), cs)
    if path == "value":
        return ScalarField(e, cs)
    if path == "from_expression":
        return ScalarField.from_expression(e, cs)
    raise ValueError(path)


def vector_field(cs, fns, path="lambda"):
    """`path` = how the VectorField object is constructed: point function, stored value list (numbers or expressions
    in the base scalars = components in the local basis), VectorField.from_vector, VectorField.from_sympy_vector."""
    VectorField = impl()[2]
    if path == "lambda":
        return VectorField(lambda p: [fn(*coords_of(p)) for fn in fns], cs)
    es = [sympy.sympify(fn(*cs.coord_system.base_scalars())) for fn in fns]
    if path == "pynum":          # a callable returning a list of plain Python numbers
        vs = [py_number(e) for e in es]
        return VectorField(lambda p: list(vs), cs)
    if path == "missing":        # zero components are coordinates the point does not have (Python int 0), others Python numbers
        vs = [None if e == 0 else py_number(e) for e in es]
        return VectorField(lambda p: [p.coordinate(3 + k) if v is None else v for k, v in enumerate(vs)], cs)
    if path == "list":
        return VectorField(es, cs)
    if path == "from_vector":
        from symplyphysics.core.vectors.vectors import Vector  # pylint: disable=import-outside-toplevel
        return VectorField.from_vector(Vector(es, cs))
    if path == "from_sympy_vector":
        from sympy.vector import Vector as SymVector  # pylint: disable=import-outside-toplevel
        v = SymVector.zero
        for e, b in zip(es, cs.coord_system.base_vectors()):
            v = v + e * b
        return VectorField.from_sympy_vector(v, cs)
    raise ValueError(path)


def comps3(v):
    out = list(v.components)
    return out + [sympy.S.Zero] * (3 - len(out))


def run_grad(cs, fn, path="lambda"):
    return comps3(same_system(impl()[3](scalar_field(cs, fn, path)), cs, "gradient_operator"))


def run_div(cs, fns, path="lambda"):
    return impl()[4](vector_field(cs, fns, path))


def curl_of(cs, field):
    """curl_operator, with the result's system checked and the result field applied to the basis"""
    c = same_system(impl()[5](field), cs, "curl_operator")
    return c, comps3(same_system(c.apply_to_basis(), cs, "curl_operator(...).apply_to_basis()"))


def run_curl(cs, fns, path="lambda"):
    return curl_of(cs, vector_field(cs, fns, path))[1]


def run_curlgrad(cs, fn, path="lambda"):
    VectorField = impl()[2]
    g = same_system(impl()[3](scalar_field(cs, fn, path)), cs, "gradient_operator")
    return curl_of(cs, VectorField.from_vector(g))[1]


def run_divcurl(cs, fns, path="lambda"):
    return impl()[4](curl_of(cs, vector_field(cs, fns, path))[0])


# second-order compositions through the real code
def run_curlcurl(cs, fns, path="lambda"):
    return curl_of(cs, curl_of(cs, vector_field(cs, fns, path))[0])[1]


def run_divgrad(cs, fn, path="lambda"):
    VectorField = impl()[2]
    g = same_system(impl()[3](scalar_field(cs, fn, path)), cs, "gradient_operator")
    return impl()[4](VectorField.from_vector(g))


def run_graddiv(cs, fns, path="lambda"):
    ScalarField = impl()[1]
    d = impl()[4](vector_field(cs, fns, path))
    return comps3(same_system(impl()[3](ScalarField.from_expression(d, cs)), cs, "gradient_operator"))


# ---------------------------------------------------------------------------------------------
# generic run -> tie lemmas
# ---------------------------------------------------------------------------------------------

GEN = [Function(f"vpf{k}") for k in range(4)]     # field 0 = the scalar field, 1..3 = vector components


def side_hyps(sysname, exprs):
    hyps = []
    if sysname != "cart":
        hyps.append("vq rho 0%nat <> 0")
    if sysname == "sph":
        hyps.append("sin (vq rho 2%nat) <> 0")
        if any(sympy.sympify(e).has(sympy.tan) for e in exprs):
            hyps.append("cos (vq rho 2%nat) <> 0")
    return hyps


def div_model(s, out):
    """the spherical formula is written with tan in operators.py (Ops.div_sph_code); when the phi-component is
    absent/zero SymPy drops the term and the output is tied to Ops.div_sph (same formula with cos/sin), so that no
    hypothesis on cos(phi) is needed"""
    if s == "sph" and sympy.sympify(out).has(sympy.tan):
        return "div_sph_code D"
    return f"div {COQ_SYS[s]} D"


def stmt(hyps, lhs, rhs):
    h = "".join(f"{x} -> " for x in hyps)
    return f"forall rho : val, {h}{lhs} = {rhs}"


def generic_lemmas(ctx):
    """Run the real operators on generic fields; one lemma per output component."""
    lemmas, outputs = [], {}
    for s in SYSTEMS:
        try:
            generic_lemmas_system(ctx, s, lemmas, outputs)
        except WrongSystem as ex:
            ctx.violation(f"C12:tie:result-system:{s}:first-order", f"operators in {s}: {ex}",
                {"kind": "broken-tie", "theorem_or_tie": f"result system [{s}]", "observed": str(ex)}, found_input=False)
    return lemmas, outputs


def generic_lemmas_system(ctx, s, lemmas, outputs):
    if True:
        cs, q = make_cs(s)
        ser = lambda: JetSer(q, {GEN[k]: k for k in range(4)})   # noqa: E731
        gen = [(lambda *a, k=k: GEN[k](*a)) for k in range(4)]
        S = COQ_SYS[s]

        def add(name, expr, model, item, all_exprs):
            js = ser()
            try:
                t = js.term(expr)
            except sx.Unsupported as e:
                ctx.violation(f"C12:tie:{name}", f"output of {item} left the translated vocabulary: {e}",
                    {"kind": "broken-tie", "theorem_or_tie": name, "item": item, "observed": str(expr)}, found_input=False)
                return
            lemmas.append(coqrun.Lemma(name, stmt(side_hyps(s, all_exprs), t, model), "c12_tie.", item))
            outputs[name] = expr

        for sp in SPATHS:
            sfx = "" if sp == "lambda" else f"_{sp}"
            g = run_grad(cs, gen[0], sp)
            for i, e in enumerate(g[:3]):
                add(f"corr_grad_{s}_{i}{sfx}", e, f"ev rho (c3 {i} (grad {S} D gen_scalar))",
                    f"gradient_operator[{s}] component {i}, ScalarField built by {sp}", g)
            # composition through the real code (from_vector / apply_to_basis substitution path)
            cg = run_curlgrad(cs, gen[0], sp)
            for i, e in enumerate(cg[:3]):
                add(f"corr_curlgrad_{s}_{i}{sfx}", e, f"ev rho (c3 {i} (curl {S} D (list3 (grad {S} D gen_scalar))))",
                    f"curl_operator(gradient_operator f)[{s}] component {i}, ScalarField built by {sp}", cg)
        # divergence / curl for every component count and every way of constructing the field
        for vp in VPATHS:
            sfx = "" if vp == "lambda" else f"_{vp}"
            for n in range(4):
                d = run_div(cs, gen[1:1 + n], vp)
                add(f"corr_div_{s}_{n}{sfx}", d, f"ev rho ({div_model(s, d)} (gen_vector {n}))",
                    f"divergence_operator[{s}] on {n} components, VectorField built by {vp}", [d])
                c = run_curl(cs, gen[1:1 + n], vp)
                for i, e in enumerate(c[:3]):
                    add(f"corr_curl_{s}_{n}_{i}{sfx}", e, f"ev rho (c3 {i} (curl {S} D (gen_vector {n})))",
                        f"curl_operator[{s}] on {n} components, component {i}, VectorField built by {vp}", c)
            dc = run_divcurl(cs, gen[1:4], vp)
            add(f"corr_divcurl_{s}{sfx}", dc, f"ev rho ({div_model(s, dc)} (list3 (curl {S} D (gen_vector 3))))",
                f"divergence_operator(curl_operator F)[{s}], VectorField built by {vp}", [dc])
        cg = run_curlgrad(cs, gen[0])
        dc = run_divcurl(cs, gen[1:4])
        # constant components c1 c2 c3 in the local basis (stored values / value lists): the field whose jets of order
        # >= 1 vanish -- the curvilinear terms of the model (F_r/r, 2F_r/r, F_phi cot(phi)/r, ...) must appear
        consts = sympy.symbols("vpc0 vpc1 vpc2 vpc3")
        cjs = lambda: JetSer(q, {}, symbols={c_: f"k{k}" for k, c_ in enumerate(consts)})   # noqa: E731

        def add_const(name, expr, model, item, all_exprs, ks):
            hy = side_hyps(s, all_exprs)
            for k in ks:
                hy += [f"vj rho {k} 0 0 0 = k{k}", f"vj rho {k} 1 0 0 = 0", f"vj rho {k} 0 1 0 = 0", f"vj rho {k} 0 0 1 = 0"]
            try:
                t = cjs().term(expr)
            except sx.Unsupported as e:
                ctx.violation(f"C12:tie:{name}", f"output of {item} left the translated vocabulary: {e}",
                    {"kind": "broken-tie", "theorem_or_tie": name, "item": item, "observed": str(expr)}, found_input=False)
                return
            h = "".join(f"{x} -> " for x in hy)
            lemmas.append(coqrun.Lemma(name, f"forall (rho : val) (k0 k1 k2 k3 : R), {h}{t} = {model}", "c12_tie_const.", item))
            outputs[name] = expr

        cfn = [(lambda *a_, c_=c_: c_) for c_ in consts]
        for sp in ("value", "from_expression"):
            g = run_grad(cs, cfn[0], sp)
            for i, e in enumerate(g[:3]):
                add_const(f"corr_const_grad_{s}_{i}_{sp}", e, f"ev rho (c3 {i} (grad {S} D gen_scalar))",
                    f"gradient_operator[{s}] of a constant ScalarField built by {sp}, component {i}", g, [0])
        for vp in ("list", "from_vector", "from_sympy_vector"):
            for n in range(1, 4):
                d = run_div(cs, cfn[1:1 + n], vp)
                dm = "div_sph_code D" if (s == "sph" and sympy.sympify(d).has(sympy.tan)) else f"div {S} D"
                add_const(f"corr_const_div_{s}_{n}_{vp}", d, f"ev rho ({dm} (gen_vector {n}))",
                    f"divergence_operator[{s}] of the constant value list c1..c{n} built by {vp}", [d], range(1, n + 1))
                c = run_curl(cs, cfn[1:1 + n], vp)
                for i, e in enumerate(c[:3]):
                    add_const(f"corr_const_curl_{s}_{n}_{i}_{vp}", e, f"ev rho (c3 {i} (curl {S} D (gen_vector {n})))",
                        f"curl_operator[{s}] of the constant value list c1..c{n} built by {vp}, component {i}", c, range(1, n + 1))
        # the identities stated directly about the implementation's output
        js = ser()
        try:
            lemmas.append(coqrun.Lemma(f"impl_divcurl_zero_{s}", stmt(side_hyps(s, [dc]), js.term(dc), "0"), "c12_tie.",
                f"divergence_operator(curl_operator F)[{s}] = 0"))
            for i, e in enumerate(cg[:3]):
                lemmas.append(coqrun.Lemma(f"impl_curlgrad_zero_{s}_{i}", stmt(side_hyps(s, cg), ser().term(e), "0"),
                    "c12_tie.", f"curl_operator(gradient_operator f)[{s}] component {i} = 0"))
        except sx.Unsupported:
            pass   # already reported by add()
        # coordinate map of coordinate_systems.py = the model's X
        if s != "cart":
            CoordinateSystem = impl()[0]
            tr = cs.transformation_to_system(CoordinateSystem.System.CARTESIAN)
            for k_, e in enumerate(tr):
                add(f"corr_map_{s}_{k_}", e, f"ev rho (X_of {S} {k_})", f"transformation_to_system[{s}->cartesian] component {k_}", tr)
        # repeated components: two or three structurally IDENTICAL generic components, in every position pair
        jl = lambda ks: "[" + "; ".join(f"TJ {k} 0 0 0" for k in ks) + "]"    # noqa: E731
        for ks in ((1, 1, 2), (1, 2, 1), (2, 1, 1), (1, 1, 1), (1, 1)):
            tag = "".join(map(str, ks))
            for vp in ("lambda", "list"):
                sfx = "" if vp == "lambda" else f"_{vp}"
                fns_ = [gen[k] for k in ks]
                d = run_div(cs, fns_, vp)
                add(f"corr_div_{s}_rep{tag}{sfx}", d, f"ev rho ({div_model(s, d)} {jl(ks)})",
                    f"divergence_operator[{s}] on components (f{', f'.join(map(str, ks))}) with repeats, built by {vp}", [d])
            c = run_curl(cs, [gen[k] for k in ks])
            for i, e in enumerate(c):
                add(f"corr_curl_{s}_rep{tag}_{i}", e, f"ev rho (c3 {i} (curl {S} D {jl(ks)}))",
                    f"curl_operator[{s}] on components (f{', f'.join(map(str, ks))}) with repeats, component {i}", c)
        gdr = run_graddiv(cs, [gen[1], gen[1], gen[2]])
        dsr = "div_sph_code D" if s == "sph" else f"div {S} D"
        for i, e in enumerate(gdr):
            add(f"corr_graddiv_{s}_rep112_{i}", e, f"ev rho (c3 {i} (grad {S} D ({dsr} {jl((1, 1, 2))})))",
                f"gradient_operator(divergence_operator (f1, f1, f2))[{s}] component {i}", gdr + [sympy.tan(q[2])] * (s == "sph"))
        # second-order compositions through the real code, tied to the composed model formulas (all values)
        dsph = "div_sph_code D" if s == "sph" else f"div {S} D"
        try:
            cc = run_curlcurl(cs, gen[1:4])
            for i, e in enumerate(cc):
                add(f"corr_curlcurl_{s}_{i}", e, f"ev rho (c3 {i} (curl {S} D (list3 (curl {S} D (gen_vector 3)))))",
                    f"curl_operator(curl_operator F)[{s}] component {i}", cc)
            dg = run_divgrad(cs, gen[0])
            add(f"corr_divgrad_{s}", dg, f"ev rho ({dsph} (list3 (grad {S} D gen_scalar)))",
                f"divergence_operator(gradient_operator f)[{s}]", [dg, sympy.tan(q[2])] if s == "sph" else [dg])
            gd = run_graddiv(cs, gen[1:4])
            for i, e in enumerate(gd):
                add(f"corr_graddiv_{s}_{i}", e, f"ev rho (c3 {i} (grad {S} D ({dsph} (gen_vector 3))))",
                    f"gradient_operator(divergence_operator F)[{s}] component {i}", gd + [sympy.tan(q[2])] * (s == "sph"))
        except WrongSystem as ex:
            ctx.violation(f"C12:tie:result-system:{s}", f"second-order composition in {s}: {ex}",
                {"kind": "broken-tie", "theorem_or_tie": f"result system [{s}]", "observed": str(ex)}, found_input=False)
        # the same operators on a system built around a user-supplied inner CoordSys3D with renamed / permuted variable
        # and vector names: the operators are positional
        cs, q = make_cs(s, "inner")
        try:
            g = run_grad(cs, gen[0])
            for i, e in enumerate(g):
                add(f"corr_grad_{s}_{i}_inner", e, f"ev rho (c3 {i} (grad {S} D gen_scalar))",
                    f"gradient_operator[{s}, inner CoordSys3D {INNER_NAMES[s][0]}] component {i}", g)
            d = run_div(cs, gen[1:4])
            add(f"corr_div_{s}_3_inner", d, f"ev rho ({div_model(s, d)} (gen_vector 3))",
                f"divergence_operator[{s}, inner CoordSys3D {INNER_NAMES[s][0]}]", [d])
            c = run_curl(cs, gen[1:4])
            for i, e in enumerate(c):
                add(f"corr_curl_{s}_3_{i}_inner", e, f"ev rho (c3 {i} (curl {S} D (gen_vector 3)))",
                    f"curl_operator[{s}, inner CoordSys3D {INNER_NAMES[s][0]}] component {i}", c)
            cg = run_curlgrad(cs, gen[0])
            for i, e in enumerate(cg):
                add(f"corr_curlgrad_{s}_{i}_inner", e, f"ev rho (c3 {i} (curl {S} D (list3 (grad {S} D gen_scalar))))",
                    f"curl_operator(gradient_operator f)[{s}, inner CoordSys3D] component {i}", cg)
            dc = run_divcurl(cs, gen[1:4])
            add(f"corr_divcurl_{s}_inner", dc, f"ev rho ({div_model(s, dc)} (list3 (curl {S} D (gen_vector 3))))",
                f"divergence_operator(curl_operator F)[{s}, inner CoordSys3D]", [dc])
        except WrongSystem as ex:
            ctx.violation(f"C12:tie:result-system:{s}:inner", f"operators on an inner CoordSys3D in {s}: {ex}",
                {"kind": "broken-tie", "theorem_or_tie": f"result system [{s}, inner]", "observed": str(ex)}, found_input=False)


# ---------------------------------------------------------------------------------------------
# concrete fields
# ---------------------------------------------------------------------------------------------

X, Y, Z = sympy.symbols("x y z", real=True)
Q = sympy.symbols("q0 q1 q2")     # no assumptions: sqrt(q**2) must stay as written, like on the base scalars


def rand_poly(rng, vars_, deg=2, nterms=3):
    e = sympy.S.Zero
    for _ in range(nterms):
        m = sympy.Integer(rng.choice([-3, -2, -1, 1, 2, 3, 5]))
        for _ in range(rng.randint(0, deg)):
            m = m * rng.choice(vars_)
        e = e + m
    return e


def rand_cart_field(rng):
    """polynomial / trigonometric expression of the Cartesian point"""
    e = rand_poly(rng, [X, Y, Z], deg=rng.choice([1, 2, 2, 3]))
    r = rng.random()
    if r < 0.25:
        e = e + rng.choice([sin(X), cos(Y), sin(Z) * X, cos(X + Y)])
    elif r < 0.35:
        e = e * rng.choice([X, Y, Z])
    return e


def rand_curv_field(rng, s):
    """trigonometric polynomial in the system's own coordinates (bare sin/cos of the angles)"""
    if s == "cart":
        atoms = [Q[0], Q[1], Q[2], sin(Q[0]), cos(Q[1]), sin(Q[2])]
    elif s == "cyl":
        atoms = [Q[0], Q[0], Q[2], sin(Q[1]), cos(Q[1])]
    else:
        atoms = [Q[0], Q[0], sin(Q[1]), cos(Q[1]), sin(Q[2]), cos(Q[2])]
    return rand_poly(rng, atoms, deg=rng.choice([1, 2, 3]), nterms=rng.choice([1, 2, 3]))


def rand_nonsmooth_field(rng, s):
    """even roots and inequalities of ONE coordinate (smooth away from that coordinate's zero), times a monomial:
    (q**2)**(3/2) = |q|^3, sqrt(q**2) = |q|, Piecewise on the sign.  Signed coordinates: every Cartesian one, the
    azimuth, the cylindrical z; the spherical polar angle is shifted (q2 - 1) so that it changes sign too."""
    i = rng.randrange(3)
    u = Q[i] - 1 if (s == "sph" and i == 2) else Q[i]
    core = rng.choice([(u**2)**Rational(3, 2), sympy.sqrt(u**2), sympy.Piecewise((u**2, u > 0), (-2 * u**2, True)),
        sympy.sqrt(u**2) * u])
    other = Q[(i + rng.choice([1, 2])) % 3]
    if s != "cart" and other in (Q[1],) + ((Q[2],) if s == "sph" else ()):
        other = sympy.cos(other)
    return sympy.Integer(rng.choice([-2, 1, 3])) * core * rng.choice([sympy.Integer(1), Q[0], other]) + rng.choice([0, 1]) * Q[0]


def signed_point(rng, s, negative):
    """a point off every coordinate's zero; `negative`: the signed coordinates (x y z / azimuth / cylindrical z) are < 0"""
    mag = lambda: Rational(rng.randint(3, 28), 10)     # noqa: E731
    sg = lambda: -1 if negative else rng.choice([-1, 1])    # noqa: E731
    if s == "cart":
        return [sg() * mag(), sg() * mag(), sg() * mag()]
    if s == "cyl":
        return [mag(), sg() * mag(), sg() * mag()]
    ph = rng.choice([Rational(4, 10), Rational(7, 10), Rational(16, 10), Rational(23, 10)])
    return [mag(), sg() * mag(), ph]


def coord_map(s, q):
    if s == "cart":
        return [q[0], q[1], q[2]]
    if s == "cyl":      # q = (r, theta, z)
        return [q[0] * cos(q[1]), q[0] * sin(q[1]), q[2]]
    # q = (r, theta = azimuth, phi = polar angle)
    return [q[0] * cos(q[1]) * sin(q[2]), q[0] * sin(q[1]) * sin(q[2]), q[0] * cos(q[2])]


def local_basis(s, q):
    """rows = unit vectors along the coordinate lines, Cartesian components (from the property text:
    'the local orthonormal basis' of the coordinate map above)"""
    if s == "cart":
        return [[1, 0, 0], [0, 1, 0], [0, 0, 1]]
    if s == "cyl":
        return [[cos(q[1]), sin(q[1]), 0], [-sin(q[1]), cos(q[1]), 0], [0, 0, 1]]
    return [[cos(q[1]) * sin(q[2]), sin(q[1]) * sin(q[2]), cos(q[2])],
            [-sin(q[1]), cos(q[1]), 0],
            [cos(q[1]) * cos(q[2]), sin(q[1]) * cos(q[2]), -sin(q[2])]]


def at_cart(e, pt):
    return sympy.sympify(e).subs({X: pt[0], Y: pt[1], Z: pt[2]}, simultaneous=True)


def cart_fn(e):
    return lambda a, b, c: sympy.sympify(e).subs({X: a, Y: b, Z: c}, simultaneous=True)


def q_fn(e):
    return lambda a, b, c: sympy.sympify(e).subs({Q[0]: a, Q[1]: b, Q[2]: c}, simultaneous=True)


def rand_point(rng, s, special=False):
    r = Rational(rng.randint(1, 40), 10)
    if s == "cart":
        return [Rational(rng.randint(-30, 30), 10), Rational(rng.randint(-30, 30), 10), Rational(rng.randint(-30, 30), 10)]
    th = Rational(rng.randint(-30, 30), 10)
    if s == "cyl":
        return [r, th, Rational(rng.randint(-30, 30), 10)]
    ph = pi / 2 if special else Rational(rng.randint(2, 29), 10)
    return [r, th, ph]


TT = sympy.Symbol("t", real=True)            # a parameter (time) the field may depend on
PARAM = {TT: Rational(7, 3)}


def num(e, q, pt):
    e = sympy.sympify(e)
    e = e.xreplace({f: sympy.Rational(f) for f in e.atoms(sympy.Float)})      # a Python float is the dyadic rational it denotes
    v = e.subs(dict(zip(q, pt)), simultaneous=True).subs(PARAM)
    v = sympy.N(v, 40)
    if not (v.is_number and v.is_finite):
        return None
    return v


def close(a, b, tol="1e-25"):
    if a is None or b is None:
        return False
    return bool(abs(a - b) <= sympy.Float(tol) * (1 + abs(b)))


def inverse_map(s):
    """the system's coordinates of the Cartesian point (x, y, z), off the singular sets"""
    if s == "cart":
        return [X, Y, Z]
    if s == "cyl":
        return [sympy.sqrt(X**2 + Y**2), sympy.atan2(Y, X), Z]
    rr = sympy.sqrt(X**2 + Y**2 + Z**2)
    return [rr, sympy.atan2(Y, X), sympy.acos(Z / rr)]


def spec_case(kind, s, fields, pts, path="lambda", sysobj=None, variant="default"):
    """Evaluate the specification on the real code.  Returns None when it holds at all points, otherwise a dict
    describing the first failing point.  `fields` are expressions (strings are sympified); `path` says how the
    ScalarField / VectorField object is constructed; `sysobj` = (CoordinateSystem, base scalars) to use an existing
    coordinate-system object (history stream) instead of a fresh one."""
    cs, q = sysobj if sysobj is not None else make_cs(s, variant)
    extra = []      # (observed, expected) pairs of already numeric values, appended to the comparison
    fields = [sympy.sympify(f, locals={"x": X, "y": Y, "z": Z, "q0": Q[0], "q1": Q[1], "q2": Q[2], "t": TT,
        "Piecewise": sympy.Piecewise, "sqrt": sympy.sqrt}) for f in fields]
    Xq = coord_map(s, q)
    E = local_basis(s, q)
    if kind == "grad":          # fields = [g(x,y,z)]
        g = fields[0]
        got = run_grad(cs, lambda a, b, c: cart_fn(g)(*coord_map(s, [a, b, c])), path)
        cg = [at_cart(sympy.diff(g, v), Xq) for v in (X, Y, Z)]
        want = [sum(E[i][k] * cg[k] for k in range(3)) for i in range(3)]
    elif kind in ("div", "curl"):   # fields = [G1, G2, G3] of the Cartesian point
        G = fields
        def comp_fn(i):
            return lambda a, b, c: sum(local_basis(s, [a, b, c])[i][k] * cart_fn(G[k])(*coord_map(s, [a, b, c])) for k in range(3))
        fns = [comp_fn(i) for i in range(3)]
        if kind == "div":
            got = [run_div(cs, fns, path)]
            want = [at_cart(sympy.diff(G[0], X) + sympy.diff(G[1], Y) + sympy.diff(G[2], Z), Xq)]
        else:
            got = run_curl(cs, fns, path)
            cc = [sympy.diff(G[2], Y) - sympy.diff(G[1], Z), sympy.diff(G[0], Z) - sympy.diff(G[2], X),
                sympy.diff(G[1], X) - sympy.diff(G[0], Y)]
            cc = [at_cart(c_, Xq) for c_ in cc]
            want = [sum(E[i][k] * cc[k] for k in range(3)) for i in range(3)]
    elif kind == "curlgrad":    # fields = [f(q0,q1,q2)] in the system's own coordinates
        got = run_curlgrad(cs, q_fn(fields[0]), path)
        want = [0, 0, 0]
    elif kind == "divcurl":     # fields = [F1,F2,F3](q)
        got = [run_divcurl(cs, [q_fn(f) for f in fields], path)]
        want = [0]
    elif kind in ("curlcurl_local", "divgrad_local", "graddiv_local"):
        # second-order compositions through the real code against the Cartesian composition of the re-expressed field
        inv = inverse_map(s)
        to_cart = lambda e: sympy.sympify(e).subs(dict(zip(Q, inv)), simultaneous=True)    # noqa: E731
        ccurl = lambda H: [sympy.diff(H[2], Y) - sympy.diff(H[1], Z), sympy.diff(H[0], Z) - sympy.diff(H[2], X),   # noqa: E731
            sympy.diff(H[1], X) - sympy.diff(H[0], Y)]
        proj = lambda vec: [sum(E[i][k] * at_cart(vec[k], Xq) for k in range(3)) for i in range(3)]   # noqa: E731
        if kind == "divgrad_local":
            got = [run_divgrad(cs, q_fn(fields[0]), path)]
            gc = to_cart(fields[0])
            want = [at_cart(sum(sympy.diff(gc, v, 2) for v in (X, Y, Z)), Xq)]
        else:
            comps = list(fields) + [sympy.S.Zero] * (3 - len(fields))
            Einv = local_basis(s, inv)
            G = [sum(to_cart(comps[i]) * Einv[i][k] for i in range(3)) for k in range(3)]
            fns = [q_fn(f) for f in fields]
            if kind == "curlcurl_local":
                got = run_curlcurl(cs, fns, path)
                want = proj(ccurl(ccurl(G)))
            else:
                got = run_graddiv(cs, fns, path)
                dv = sympy.diff(G[0], X) + sympy.diff(G[1], Y) + sympy.diff(G[2], Z)
                want = proj([sympy.diff(dv, v) for v in (X, Y, Z)])
    elif kind in ("grad_local", "div_local", "curl_local"):
        # fields are given in the system's OWN coordinates (scalar f(q) / local-basis components F_i(q), possibly
        # constants).  Truth: re-express as a field of the Cartesian point through the inverse coordinate map, apply the
        # Cartesian operator with plain sympy.diff, go back to the point and project on the local basis.
        inv = inverse_map(s)
        to_cart = lambda e: sympy.sympify(e).subs(dict(zip(Q, inv)), simultaneous=True)    # noqa: E731
        if kind == "grad_local":
            got = run_grad(cs, q_fn(fields[0]), path)
            gc = to_cart(fields[0])
            cg = [at_cart(sympy.diff(gc, v), Xq) for v in (X, Y, Z)]
            want = [sum(E[i][k] * cg[k] for k in range(3)) for i in range(3)]
        else:
            comps = list(fields) + [sympy.S.Zero] * (3 - len(fields))
            Einv = local_basis(s, inv)
            G = [sum(to_cart(comps[i]) * Einv[i][k] for i in range(3)) for k in range(3)]
            fns = [q_fn(f) for f in fields]
            if kind == "div_local":
                got = [run_div(cs, fns, path)]
                want = [at_cart(sympy.diff(G[0], X) + sympy.diff(G[1], Y) + sympy.diff(G[2], Z), Xq)]
            else:
                cfield, got = curl_of(cs, vector_field(cs, fns, path))
                cc = [sympy.diff(G[2], Y) - sympy.diff(G[1], Z), sympy.diff(G[0], Z) - sympy.diff(G[2], X),
                    sympy.diff(G[1], X) - sympy.diff(G[0], Y)]
                cc = [at_cart(c_, Xq) for c_ in cc]
                want = [sum(E[i][k] * cc[k] for k in range(3)) for i in range(3)]
                # the returned FIELD evaluated at a point (apply) = its basis expression at that point
                for pt in pts:
                    pt_ = [sympy.sympify(c) for c in pt]
                    at_pt = comps3(cfield.apply(pt_))
                    extra += [(num(a, q, pt_), num(b, q, pt_)) for a, b in zip(at_pt, got)]
    elif kind.startswith("pad_"):   # fields = n components (q); short field vs explicitly padded field
        op = kind[4:]
        fns = [q_fn(f) for f in fields]
        zero = lambda a, b, c: sympy.S.Zero    # noqa: E731
        full = fns + [zero] * (3 - len(fns))
        if op == "div":
            got, want = [run_div(cs, fns, path)], [run_div(cs, full, path)]
        else:
            got, want = run_curl(cs, fns, path), run_curl(cs, full, path)
    else:
        raise ValueError(kind)
    # the result must be expressed in the base scalars of the field's OWN coordinate-system object
    from sympy.vector import BaseScalar  # pylint: disable=import-outside-toplevel
    for i, a in enumerate(got):
        foreign = [b for b in sympy.sympify(a).atoms(BaseScalar) if b not in q]
        if foreign:
            return {"component": i, "point": None, "observed": str(a), "expected": f"an expression in {q}",
                "foreign_base_scalars": [str(b) for b in foreign], "observed_expr": str(a)}
    for i, (va, vb) in enumerate(extra):
        if not close(va, vb, "1e-12"):      # apply(point) may already have evaluated Python floats in double precision
            return {"component": i % 3, "point": "result field applied to the point", "observed": str(va), "expected": str(vb),
                "observed_expr": "curl_operator(F).apply(point)"}
    for pt in pts:
        pt = [sympy.sympify(c) for c in pt]
        for i, (a, b) in enumerate(zip(got, want)):
            va, vb = num(a, q, pt), num(b, q, pt)
            if not close(va, vb):
                return {"component": i, "point": [str(c) for c in pt], "observed": str(va), "expected": str(vb),
                    "observed_expr": str(a)}
    return None


CURATED_SCALAR = {"cart": "q0**2*q1 + q1*q2**2 + q0*q2", "cyl": "q0**2*sin(q1) + q0*q2*cos(q1) + q1*q2",
    "sph": "q0**2*sin(q2)*cos(q1) + q0*q1 + q0*cos(q2)"}
CURATED_VECTOR = {"cart": ["q0*q1 + q2**2", "q1*q2 - q0**2", "q0*q2 + q1"],
    "cyl": ["q0**2*cos(q1) + q2", "q0*q2*sin(q1)", "q0*q2 + cos(q1)"],
    "sph": ["q0**2*sin(q2)", "q0*cos(q1)*sin(q2) + q0**2", "q0*cos(q2) + q0*sin(q1)"]}
CURATED_VECTOR2 = dict(CURATED_VECTOR, sph=["q0**2*sin(q2)", "q0*cos(q1)", "q0**2"])     # second-order kinds (cheaper truth)
CURATED_POINTS = {"cart": [["7/5", "-6/5", "-1/2"]], "cyl": [["13/10", "-4/5", "-3/2"]], "sph": [["17/10", "-9/10", "11/10"]]}


def curated_cases(only=None):
    """Deterministic cases run first on every tier: every first- and second-order kind in every system, the first-order
    ones also on a system built around a user-supplied inner CoordSys3D with renamed / permuted variable names."""
    out = []
    for s in SYSTEMS:
        for kind, variant in [("grad_local", "inner"), ("div_local", "inner"), ("curl_local", "inner"), ("curlgrad", "inner"),
                ("divcurl", "inner"), ("curl_local", "default"), ("curlcurl_local", "default"), ("divgrad_local", "default"),
                ("graddiv_local", "default")]:
            if only is not None and (kind, s) not in only:
                continue
            scalar = kind in ("grad_local", "curlgrad", "divgrad_local")
            out.append({"kind": kind, "sys": s, "variant": variant, "path": "lambda", "flavour": "curated",
                "fields": [CURATED_SCALAR[s]] if scalar else (CURATED_VECTOR2 if kind.endswith("_local") and kind[:2] in ("cu", "gr")
                    and kind != "curl_local" else CURATED_VECTOR)[s], "points": CURATED_POINTS[s]})
        # two or three IDENTICAL non-constant components, in every position pair
        e1, e2 = CURATED_VECTOR[s][0], CURATED_VECTOR[s][2]
        reps = [[e1, e1, e2], [e1, e2, e1], [e2, e1, e1], [e1, e1, e1], [e1, e1]]
        for k, f in enumerate(reps):
            for kind in ("div_local", "curl_local") + (("graddiv_local", "divcurl") if k == 0 else ()):
                if only is None or (kind, s) in only:
                    out.append({"kind": kind, "sys": s, "variant": VARIANTS[k % 2], "path": VPATHS[k % len(VPATHS)],
                        "flavour": "curated-repeated", "fields": f, "points": CURATED_POINTS[s]})
        # callables that return plain Python numbers (int, float) or a coordinate the point does not have (int 0)
        for kind, fields, path in [("grad_local", ["5"], "pynum"), ("grad_local", ["1/2"], "pynum"), ("grad_local", ["0"], "missing"),
                ("curlgrad", ["5"], "pynum"), ("divgrad_local", ["1/2"], "pynum"), ("divgrad_local", ["0"], "missing"),
                ("div_local", ["1", "1/2", "0"], "pynum"), ("div_local", ["0", "2", "0"], "missing"),
                ("div_local", ["3"], "pynum"), ("curl_local", ["1", "1/2", "-2"], "pynum"),
                ("curl_local", ["0", "0", "3/2"], "missing"), ("divcurl", ["1", "1/2", "-2"], "pynum"),
                ("pad_curl", ["2", "1/2"], "pynum")]:
            if only is None or (kind, s) in only:
                out.append({"kind": kind, "sys": s, "variant": "default", "path": path, "flavour": "curated-pynumber",
                    "fields": fields, "points": CURATED_POINTS[s]})
    return out


def spec_stream(ctx, n_per, only=None):
    """Seeded concrete fields through the real operators, against the specification."""
    rng = ctx.rng
    cases = curated_cases(only)
    for s in SYSTEMS:      # seeded second-order cases (thorough only: the inverse-map truth is expensive)
        for kind in ("curlcurl_local", "divgrad_local", "graddiv_local"):
            if ctx.quick or (only is not None and (kind, s) not in only):
                continue
            for j in range(max(1, n_per // 10)):
                nf = 1 if kind == "divgrad_local" else 3
                cases.append({"kind": kind, "sys": s, "variant": VARIANTS[j % 2], "path": (SPATHS if nf == 1 else VPATHS)[j % 3],
                    "fields": [str(rand_curv_field(rng, s)) for _ in range(nf)],
                    "points": [[str(c) for c in signed_point(rng, s, False)]]})
    for s in SYSTEMS:
        for kind in ("grad", "div", "curl", "curlgrad", "divcurl", "pad_div", "pad_curl", "grad_local", "div_local", "curl_local"):
            if only is not None and (kind, s) not in only:
                continue
            for j in range(n_per):
                if kind == "grad":
                    fields = [rand_cart_field(rng)]
                elif kind in ("div", "curl"):
                    fields = [rand_cart_field(rng) for _ in range(3)]
                elif kind == "curlgrad":
                    fields = [rand_curv_field(rng, s)]
                elif kind == "divcurl":
                    fields = [rand_curv_field(rng, s) for _ in range(3)]
                elif kind.startswith("pad_"):
                    fields = [rand_curv_field(rng, s) for _ in range(j % 3)]
                elif kind == "grad_local":
                    fields = [sympy.Integer(rng.choice([-2, 1, 3])) if j == 0 else rand_curv_field(rng, s)]
                else:   # div_local / curl_local: constant local components first, then expressions, 1..3 components
                    nc = 3 if j < 2 else 1 + j % 3
                    fields = [sympy.Integer(rng.choice([-3, -1, 1, 2])) if j % 2 == 0 else rand_curv_field(rng, s)
                        for _ in range(nc)]
                if j % 5 == 4 and len(fields) == 3 and kind != "grad":       # repeat one component in a seeded position pair
                    a_, b_ = rng.sample(range(3), 2)
                    fields[b_] = fields[a_]
                # every way of constructing the field object is rotated through; stored values / value lists first
                scalar_kind = kind in ("grad", "curlgrad", "grad_local")
                paths = SPATHS if scalar_kind else VPATHS
                path = paths[(j + 1) % len(paths)]
                pts = [rand_point(rng, s) for _ in range(2)]
                if s == "sph" and j % 2 == 0:
                    pts.append(rand_point(rng, s, special=True))      # the plane phi = pi/2
                cases.append({"kind": kind, "sys": s, "path": path, "variant": VARIANTS[1 if j % 3 == 2 else 0],
                    "fields": [str(f) for f in fields],
                    "points": [[str(c) for c in p] for p in pts]})
    # non-smooth fields (even roots / inequalities of a coordinate) at points whose signed coordinates are negative
    n_ns = max(2, n_per // 3)
    for s in SYSTEMS:
        for kind in ("grad_local", "div_local", "curl_local"):
            if only is not None and (kind, s) not in only:
                continue
            for j in range(n_ns):
                nf = 1 if kind == "grad_local" else 3
                fields = [rand_nonsmooth_field(rng, s) if (k == j % nf or kind == "grad_local") else rand_curv_field(rng, s)
                    for k in range(nf)]
                paths = SPATHS if kind == "grad_local" else VPATHS
                cases.append({"kind": kind, "sys": s, "path": paths[j % len(paths)], "flavour": "nonsmooth",
                    "fields": [str(f) for f in fields],
                    "points": [[str(c) for c in signed_point(rng, s, True)], [str(c) for c in signed_point(rng, s, False)]]})
    bad = []
    for c in cases:
        try:
            r = spec_case(c["kind"], c["sys"], c["fields"], c["points"], c.get("path", "lambda"),
                variant=c.get("variant", "default"))
        except Exception as e:  # pylint: disable=broad-except
            r = {"exception": f"{type(e).__name__}: {e}"}
        if r is not None:
            bad.append((c, r))
    return cases, bad


HISTORY_FIELDS = {
    "grad_local": [["5"], ["t**2"], ["q0*q2 + t"]],
    "div_local": [["1", "0", "0"], ["3"], ["2", "-1", "5"], ["t", "0", "2*t"], ["0", "0", "1"], ["q0", "1", "q2"]],
    "curl_local": [["0", "1", "0"], ["3"], ["2", "-1", "5"], ["t", "0", "2*t"], ["0", "0", "1"], ["q0", "1", "q2"]],
}


def history_stream(ctx):
    """Several coordinate-system OBJECTS of the same type in one process; the same scalar-free (constant /
    parameter-only) field is evaluated in system A, then B, then C, then A again.  Every result must be expressed in
    the base scalars of its own system and satisfy the specification -- i.e. be what the same call gives first."""
    cases, bad = [], []
    for s in SYSTEMS:
        systems = [make_cs(s) for _ in range(3)]
        for kind, flist in HISTORY_FIELDS.items():
            paths = SPATHS if kind == "grad_local" else VPATHS
            for fi, fields in enumerate(flist):
                for path in (paths if not ctx.quick else [paths[(fi + 1) % len(paths)], paths[(fi + 2) % len(paths)]]):
                    pts = [[str(c) for c in signed_point(ctx.rng, s, False)]]
                    c = {"kind": kind, "sys": s, "path": path, "fields": fields, "points": pts, "flavour": "history",
                        "history": "the same field in 3 coordinate-system objects of this type, order A B C A"}
                    cases.append(c)
                    for step, k in enumerate((0, 1, 2, 0)):
                        try:
                            r = spec_case(kind, s, fields, pts, path, sysobj=systems[k])
                        except Exception as e:  # pylint: disable=broad-except
                            r = {"exception": f"{type(e).__name__}: {e}"}
                        if r is not None:
                            r["history_step"] = f"system object #{k} (step {step} of A B C A)"
                            bad.append((c, r))
                            break
    return cases, bad


def object_history_case(s, vpath, spath, variant="default"):
    """ONE field object, used several times and in different orders (operators, apply_to_basis, apply at a point):
    every result must equal the result of the same call on a FRESH object built the same way (whose agreement with the
    model is the business of the other streams).  Returns None or a dict describing the first differing step."""
    cs, q = make_cs(s, variant)
    pt = [sympy.sympify(c) for c in CURATED_POINTS[s][0]]
    vf = [q_fn(sympy.sympify(f, locals={"q0": Q[0], "q1": Q[1], "q2": Q[2]})) for f in CURATED_VECTOR[s]]
    sf = q_fn(sympy.sympify(CURATED_SCALAR[s], locals={"q0": Q[0], "q1": Q[1], "q2": Q[2]}))
    ops = {
        "div": lambda F: [impl()[4](F)],
        "curl": lambda F: curl_of(cs, F)[1],
        "basis": lambda F: comps3(F.apply_to_basis()),
        "apply": lambda F: comps3(F.apply(pt)),
        "grad": lambda F: comps3(same_system(impl()[3](F), cs, "gradient_operator")),
        "sbasis": lambda F: [F.apply_to_basis()],
        "sapply": lambda F: [F.apply(pt)],
    }
    for label, mk, seq in (("VectorField built by " + vpath, lambda: vector_field(cs, vf, vpath),
            ["div", "curl", "div", "basis", "curl", "apply", "basis", "div"]),
            ("ScalarField built by " + spath, lambda: scalar_field(cs, sf, spath), ["grad", "sbasis", "grad", "sapply", "grad"])):
        obj = mk()
        for step, op in enumerate(seq):
            got, want = ops[op](obj), ops[op](mk())
            if len(got) != len(want) or not all(close(num(a, q, pt), num(b, q, pt)) for a, b in zip(got, want)):
                return {"object": label, "sequence": seq[:step + 1], "failing_step": f"{step}: {op}",
                    "observed": [str(a) for a in got], "expected_fresh_object": [str(b) for b in want], "point": [str(c) for c in pt]}
    return None


def object_history_stream(ctx):
    cases, bad = [], []
    for s in SYSTEMS:
        for k, vpath in enumerate(VPATHS):
            c = {"kind": "object_history", "sys": s, "path": vpath, "spath": SPATHS[k % len(SPATHS)],
                "variant": VARIANTS[k % 2], "flavour": "objhistory", "fields": CURATED_VECTOR[s] + [CURATED_SCALAR[s]],
                "points": CURATED_POINTS[s]}
            cases.append(c)
            try:
                r = object_history_case(s, vpath, c["spath"], c["variant"])
            except Exception as e:  # pylint: disable=broad-except
                r = {"exception": f"{type(e).__name__}: {e}"}
            if r is not None:
                bad.append((c, r))
    return cases, bad


def replay_history(c):
    s = c["sys"]
    systems = [make_cs(s) for _ in range(3)]
    for step, k in enumerate((0, 1, 2, 0)):
        r = spec_case(c["kind"], s, c["fields"], c["points"], c.get("path", "lambda"), sysobj=systems[k])
        if r is not None:
            r["history_step"] = f"system object #{k} (step {step} of A B C A)"
            return r
    return None


OP_OF_KIND = {"grad": "grad", "div": "div", "curl": "curl", "curlgrad": "curlgrad", "divcurl": "divcurl",
    "pad_div": "div", "pad_curl": "curl", "grad_local": "grad", "div_local": "div", "curl_local": "curl",
    "curlcurl_local": "curlcurl", "divgrad_local": "divgrad", "graddiv_local": "graddiv"}


def report_spec(ctx, c, r):
    key = f"C12:{'history' if c.get('flavour') == 'history' else 'spec'}:{c['kind']}:{c['sys']}"
    if c.get("flavour") == "objhistory":
        ctx.violation(f"C12:objhistory:{c['sys']}:{c['path']}", f"re-using one field object in {c['sys']} coordinates "
            f"({c['path']} / {c['spath']}, fields {c['fields']}) changes the results: {r}",
            {"kind": "spec", "item": f"object history [{c['sys']}]", "input": c, "observed": r,
                "expected": "every use of the same field object gives what a fresh object gives",
                "theorem_or_tie": "field objects are immutable under operators / apply / apply_to_basis"}, found_input=True)
        return
    what = (f"{c['kind']} in {c['sys']} coordinates contradicts the property on the field {c['fields']} (field object built by "
        f"{c.get('path', 'lambda')}, {c.get('variant', 'default')} coordinate-system object) at "
        f"{r.get('point')}: component {r.get('component')} is {r.get('observed')}, expected {r.get('expected')}"
        if "exception" not in r else f"{c['kind']} in {c['sys']} coordinates raised {r['exception']} on {c['fields']} (field object built by "
        f"{c.get('path', 'lambda')}, {c.get('variant', 'default')} coordinate-system object)")
    ctx.violation(key, what, {"kind": "spec", "item": f"{c['kind']}[{c['sys']}]", "input": c, "observed": r,
        "expected": "see property text", "theorem_or_tie": "specification predicate on the real operators"}, found_input=True)


def concrete_lemmas(ctx, n_per):
    """Concrete trigonometric-polynomial fields: the real operators' output = the model with its own D applied
    to the same bodies.  Also the generic output instantiated at the bodies (value-obliviousness)."""
    rng = ctx.rng
    lemmas, obliv_bad, n_obliv = [], [], 0
    for s in SYSTEMS:
        cs, q = make_cs(s)
        S = COQ_SYS[s]
        for j in range(n_per):
            bodies = [rand_curv_field(rng, s) for _ in range(4)]
            if j % 4 == 1:      # integer constants (a stored value / value list of numbers)
                bodies = [sympy.Integer(rng.choice([-3, -2, -1, 1, 2, 5])) for _ in range(4)]
            spath, vpath = SPATHS[(j + 1) % len(SPATHS)], VPATHS[(j + 1) % len(VPATHS)]
            bq = [b.subs(dict(zip(Q, q)), simultaneous=True) for b in bodies]
            try:
                lits = [to_tx(b, q) for b in bq]
            except sx.Unsupported:
                continue
            n = j % 3 + 1 if j % 4 else 3
            try:
                g = run_grad(cs, q_fn(bodies[0]), spath)
                d = run_div(cs, [q_fn(b) for b in bodies[1:1 + n]], vpath)
                c = run_curl(cs, [q_fn(b) for b in bodies[1:1 + n]], vpath)
            except WrongSystem as ex:
                ctx.violation(f"C12:tie:result-system:{s}:concrete", f"operators on concrete fields in {s}: {ex}",
                    {"kind": "broken-tie", "theorem_or_tie": f"result system [{s}]", "observed": str(ex)}, found_input=False)
                continue
            vec = "[" + "; ".join(lits[1:1 + n]) + "]"
            js = lambda: JetSer(q, {})    # noqa: E731
            model_div = div_model(s, d)
            items = [(f"corr_concrete_grad_{s}_{j}_{i}", e, f"ev rho (c3 {i} (grad {S} D {lits[0]}))", g) for i, e in enumerate(g)]
            items.append((f"corr_concrete_div_{s}_{j}", d, f"ev rho ({model_div} {vec})", [d]))
            items += [(f"corr_concrete_curl_{s}_{j}_{i}", e, f"ev rho (c3 {i} (curl {S} D {vec}))", c) for i, e in enumerate(c)]
            for name, e, model, allx in items:
                try:
                    lemmas.append(coqrun.Lemma(name, stmt(side_hyps(s, allx), js().term(e), model), "c12_tie.",
                        f"{name} on bodies {[str(b) for b in bodies[:1 + n]]} (built by {spath} / {vpath})"))
                except sx.Unsupported as ex:
                    ctx.violation(f"C12:tie:{name}", f"concrete output left the vocabulary: {ex}",
                        {"kind": "broken-tie", "theorem_or_tie": name, "observed": str(e)}, found_input=False)
            # value-obliviousness: generic output instantiated = output on the concrete field
            gen = [(lambda *a, k=k: GEN[k](*a)) for k in range(4)]
            inst = {GEN[k](*q): bq[k] for k in range(4)}
            pairs = list(zip(run_grad(cs, gen[0]), g)) + [(run_div(cs, gen[1:1 + n]), d)] + list(zip(run_curl(cs, gen[1:1 + n]), c))
            pts = [rand_point(rng, s) for _ in range(2)]
            for a, b in pairs:
                n_obliv += 1
                ai = sympy.sympify(a).subs(inst).doit()
                for pt in pts:
                    if not close(num(ai, q, pt), num(b, q, pt)):
                        obliv_bad.append({"sys": s, "bodies": [str(x) for x in bodies], "generic": str(a), "concrete": str(b),
                            "point": [str(x) for x in pt]})
                        break
    return lemmas, n_obliv, obliv_bad


# ---------------------------------------------------------------------------------------------
# run
# ---------------------------------------------------------------------------------------------

def parse_lemma(name):
    """corr_<op>_<sys>_... -> (op, sys)"""
    parts = name.split("_")
    for i, p in enumerate(parts):
        if p in SYSTEMS:
            op = parts[i - 1]
            return op, p
    return None, None


def run(ctx):
    ctx.level = "proof"
    ctx.static(STATIC)
    ctx.trust("Coq 8.16.1 kernel; stdlib axioms of the classical reals (see axioms)",
        "Schwarz' theorem: a jet is indexed by derivative COUNTS, so mixed partials commute by construction "
        "(C12_D_jet_commute states it); valid for C^2 fields",
        "a C^k function has arbitrary jets at a point / its jets form a smooth_model (C12_D_correct then says ev (D i t) "
        "is the partial derivative of ev t)",
        "vp/jets.py + vp/sx.py: reading of SymPy nodes (Derivative(f(q), q_i^a ...) is the jet (a,b,c) of f; "
        "tan is Coq's tan = sin/cos)",
        "SymPy 1.14 diff/Add/Mul canonicalisation on the exercised inputs is cross-checked by the corr_* lemmas, not trusted")
    ctx.assume("operators are value-oblivious (no branch on the field's values): checked on seeded concrete fields",
        "the formula field_phi/(r*tan(phi)) is tied where cos(phi) <> 0; on the plane phi = pi/2 the real code is "
        "evaluated on concrete fields (SymPy evaluates 1/tan(pi/2) to 0 = cot(pi/2))")

    # 1. specification on concrete fields through the real code (also the search stream)
    n_per = ctx.pick(6, 40)
    cases, bad = spec_stream(ctx, n_per)
    for c, r in bad:
        report_spec(ctx, c, r)
    spec_bad_keys = {(OP_OF_KIND[c["kind"]], c["sys"]) for c, _ in bad}
    ctx.evaluated(len(cases), len({(c["kind"], c["sys"], tuple(c["fields"])) for c in cases}))
    if cases:
        ctx.sample({"spec_case": cases[0]})
    hcases, hbad = history_stream(ctx)
    for c, r in hbad:
        report_spec(ctx, c, r)
    spec_bad_keys |= {(OP_OF_KIND[c["kind"]], c["sys"]) for c, _ in hbad}
    ctx.evaluated(4 * len(hcases), len(hcases))
    ctx.coverage["history_cases"] = len(hcases)
    ctx.coverage["history_failures"] = len(hbad)
    ocases, obad = object_history_stream(ctx)
    for c, r in obad:
        report_spec(ctx, c, r)
    ctx.evaluated(13 * len(ocases), len(ocases))
    ctx.coverage["object_history_cases"] = len(ocases)
    ctx.coverage["object_history_failures"] = len(obad)
    ctx.coverage["spec_cases"] = len(cases)
    ctx.coverage["spec_failures"] = len(bad)
    ctx.log(f"spec stream: {len(cases)} cases, {len(bad)} failing")

    # 2. generic run -> tie lemmas; concrete ties
    lemmas, outputs = generic_lemmas(ctx)
    clem, n_obliv, obliv_bad = concrete_lemmas(ctx, ctx.pick(4, 16))
    for ob in obliv_bad:
        ctx.violation(f"C12:oblivious:{ob['sys']}", "operator output on a concrete field differs from the generic output "
            f"instantiated at it: {ob}", {"kind": "broken-tie", "theorem_or_tie": "generic-run adequacy", "input": ob},
            found_input=False)
    ctx.evaluated(n_obliv, n_obliv)
    ctx.coverage["generic_lemmas"] = len(lemmas)
    ctx.coverage["concrete_lemmas"] = len(clem)
    ctx.coverage["obliviousness_checks"] = n_obliv
    res = coqrun.prove_lemmas(ctx, "c12", PREAMBLE, lemmas + clem, per_file=12, timeout=600)
    ok = sum(v == "ok" for v in res.values())
    ctx.obligations(len(res), ok)
    ctx.log(f"tie lemmas: {ok}/{len(res)} closed")
    if lemmas:
        ctx.sample({"lemma": lemmas[len(lemmas) // 2].name, "statement": lemmas[len(lemmas) // 2].statement[:400]})

    # 3. decide failed lemmas
    failed = [(lm, res[lm.name]) for lm in lemmas + clem if res.get(lm.name) != "ok"]
    need_search = {}
    for lm, err in failed:
        op, s = parse_lemma(lm.name)
        kinds = {"grad": ["grad", "grad_local"], "div": ["div", "div_local", "pad_div"], "curl": ["curl", "curl_local", "pad_curl"],
            "curlgrad": ["curlgrad", "grad", "curl"], "divcurl": ["divcurl", "div", "curl"],
            "curlcurl": ["curlcurl_local", "curl_local"], "divgrad": ["divgrad_local", "grad_local", "div_local"],
            "graddiv": ["graddiv_local", "grad_local", "div_local"], "map": ["grad"]}.get(op, ["grad", "div", "curl", "grad_local", "div_local", "curl_local"])
        if any((OP_OF_KIND[k], s) in spec_bad_keys for k in kinds):
            continue    # a concrete failing input for this operator/system is already reported
        need_search.setdefault((tuple(kinds), s), []).append((lm, err))
    for (kinds, s), lms in need_search.items():
        _, bad2 = spec_stream(ctx, ctx.pick(10, 30), only={(k, s) for k in kinds})
        if bad2:
            c, r = bad2[0]
            report_spec(ctx, c, r)
            continue
        for lm, err in lms:
            ctx.violation(f"C12:corr:{lm.name}", f"tie lemma {lm.name} ({lm.item}) is not closed: the formula of operators.py "
                "no longer equals the model's formula", {"kind": "broken-proof", "theorem_or_tie": lm.name, "item": lm.item,
                    "statement": lm.statement[:1500], "coq_error": err[-600:],
                    "observed": str(outputs.get(lm.name, ""))}, found_input=False)

    ctx.coverage["rule"] = ("generic: 3 systems x (gradient, divergence and curl on 0..3 components, curl(grad), div(curl), "
        "coordinate map) enumerated exhaustively, one lemma per output component; concrete: seeded trigonometric "
        "polynomials in the system's coordinates (lemma per component) ; spec cases: seeded Cartesian polynomial/"
        "trigonometric fields pulled back to the system, evaluated at 2-3 seeded points incl. phi = pi/2; distinct = "
        "distinct (kind, system, field) triples")


def replay(ctx, rep):
    if rep.get("kind") == "spec" and rep["input"].get("flavour") == "objhistory":
        c = rep["input"]
        r = object_history_case(c["sys"], c["path"], c["spath"], c.get("variant", "default"))
        print(f"replay object history [{c['sys']}] {c['path']} / {c['spath']} fields={c['fields']}")
        print("every re-use agrees with a fresh object now" if r is None else f"still failing: {r}")
        return 0 if r is None else 1
    if rep.get("kind") == "spec" and rep["input"].get("flavour") == "history":
        c = rep["input"]
        r = replay_history(c)
        print(f"replay history {c['kind']}[{c['sys']}] built by {c.get('path')} fields={c['fields']} in 3 system objects (A B C A)")
        print("specification holds now" if r is None else f"still failing: {r}")
        return 0 if r is None else 1
    if rep.get("kind") == "spec":
        c = rep["input"]
        r = spec_case(c["kind"], c["sys"], c["fields"], c["points"], c.get("path", "lambda"), variant=c.get("variant", "default"))
        print(f"replay {c['kind']}[{c['sys']}, {c.get('variant', 'default')} system] built by {c.get('path', 'lambda')} fields={c['fields']} points={c['points']}")
        if r is None:
            print("specification holds now")
            return 0
        print("still failing:", r)
        return 1
    # tie / proof: re-run the generic translation and the named lemma
    ctx.static(STATIC)
    lemmas, _ = generic_lemmas(ctx)
    name = rep.get("theorem_or_tie")
    sel = [lm for lm in lemmas if lm.name == name] or lemmas
    res = coqrun.prove_lemmas(ctx, "replay", PREAMBLE, sel, per_file=12)
    badl = {k: v for k, v in res.items() if v != "ok"}
    print("lemmas re-checked:", len(res), "failing:", sorted(badl))
    return 1 if badl or ctx.violations else 0
