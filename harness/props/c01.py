"""C01 -- every published law equation is dimensionally homogeneous.

static theorems : coq/theories/Properties/C01.v   (infer sound + complete for the judgment Homog of Model/Homog.v)
tie (translator): every public Relational (or list/tuple of them) of every module under laws/, definitions/,
                  conditions/ is serialised by vp/dx.py to a `dexpr` with leaf dimensions read from the live objects;
                  build/C01/gen/*.v holds `Definition eq_i`, `catalogue_homogeneous_k` (vm_compute) and the kernel-checked
                  `C01_catalogue_k : Forall (fun e => exists d, Homog e d) [...]`.  Exhaustive over the catalogue.
self-checks     : (a) the property's specification predicate evaluated directly on the SymPy object (dx.spec_dim) must
                  give the same verdict and the same side dimensions as `infer` on the serialised tree;
                  (b) the repository's own collect_expression_and_dimension, where it succeeds on a side, must agree;
                  (c) accepted equations are numerically invariant under a change of base units (dx.rescale_witness);
                  (d) every item that cannot be serialised / modelled must be in data/c01_unmodelled.json.
search          : dx.spec_dim names the offending sub-term and the two dimensions; dx.rescale_witness evaluates the real
                  equation at a random positive valuation and with one base unit doubled."""
from __future__ import annotations

import importlib
import json
import pkgutil
import re
from concurrent.futures import ThreadPoolExecutor
from fractions import Fraction
from pathlib import Path

import sympy
from sympy.core.relational import Relational

from vp import coqrun, dx, findings, qx

DATA = Path(__file__).resolve().parents[1] / "data" / "c01_unmodelled.json"

STATIC = ["infer_sound", "infer_complete", "check_rel_iff", "check_rel_false_iff", "homog_functional",
    "catalogue_forall", "rel_sides", "scaling_invariance", "homogeneous_equation_unit_invariant",
    "inhomogeneous_witness"]

TOPS = ("laws", "definitions", "conditions")


# ---------------------------------------------------------------------------------------------
# the catalogue
# ---------------------------------------------------------------------------------------------

def short(modname: str) -> str:
    return modname[len("symplyphysics."):] if modname.startswith("symplyphysics.") else modname


def item_name(modname, attr, idx) -> str:
    return f"{short(modname)}.{attr}" + (f"[{idx}]" if idx is not None else "")


def recover_module(modname):
    """A module whose import raises (an in-module derivation `assert`, typically) still *publishes* equations in its
    source.  Execute its top-level statements one by one in a scratch namespace (never registered in sys.modules,
    nothing written), skipping the ones that raise, so that the equation objects can be examined."""
    import ast  # pylint: disable=import-outside-toplevel
    import importlib.util  # pylint: disable=import-outside-toplevel
    import types  # pylint: disable=import-outside-toplevel
    import __future__  # pylint: disable=import-outside-toplevel
    spec = importlib.util.find_spec(modname)
    src = Path(spec.origin).read_text()
    mod = types.ModuleType(modname)
    mod.__file__ = spec.origin
    mod.__package__ = modname.rpartition(".")[0]
    skipped = []
    for stmt in ast.parse(src).body:
        try:
            code = compile(ast.Module([stmt], type_ignores=[]), spec.origin, "exec", flags=__future__.annotations.compiler_flag)
            exec(code, mod.__dict__)  # pylint: disable=exec-used
        except Exception as e:  # pylint: disable=broad-except
            skipped.append(f"line {stmt.lineno}: {type(e).__name__}: {e}"[:160])
    return mod, skipped


def public_equations(modname, mod):
    out = []
    for name, v in vars(mod).items():
        if name.startswith("_"):
            continue
        if isinstance(v, Relational):
            out.append((modname, name, None, v))
        elif isinstance(v, (list, tuple)) and v and all(isinstance(x, Relational) for x in v):
            out.extend((modname, name, i, x) for i, x in enumerate(v))
    return out


def collect_equations(ctx):
    """[(module name, attribute, index | None, equation)] over every importable module, in a fixed order."""
    failed = {}
    recovered = {}
    eqs = []
    nmod = 0
    for top in TOPS:
        pkg = importlib.import_module(f"symplyphysics.{top}")
        for info in sorted(pkgutil.walk_packages(pkg.__path__, pkg.__name__ + "."), key=lambda i: i.name):
            if info.ispkg:
                continue
            try:
                mod = importlib.import_module(info.name)
            except Exception as e:  # pylint: disable=broad-except
                failed[info.name] = f"{type(e).__name__}: {e}"[:200]
                try:
                    mod, skipped = recover_module(info.name)
                    rec = public_equations(info.name, mod)
                    recovered[info.name] = {"equations": len(rec), "skipped_statements": skipped[:5]}
                    eqs.extend(rec)
                except Exception as e2:  # pylint: disable=broad-except
                    recovered[info.name] = {"equations": 0, "error": f"{type(e2).__name__}: {e2}"[:200]}
                continue
            nmod += 1
            eqs.extend(public_equations(info.name, mod))
    ctx.coverage["equations_recovered_from_modules_failing_import"] = recovered
    return eqs, failed, nmod


def get_equation(modname, attr, idx):
    try:
        mod = importlib.import_module(modname)
    except Exception:  # pylint: disable=broad-except
        mod, _ = recover_module(modname)
    v = getattr(mod, attr)
    return v if idx is None else v[idx]


def repo_inference_covers(e) -> bool:
    """Does collect_expression_and_dimension have a rule for every node of `e`?  (It silently answers
    "dimensionless" for node types outside its table -- Integral, IndexedSum, Laplacian, Piecewise, O() -- and reads the
    dimension of Derivative(f, x) from `f.func`, which is meaningful only when f is an applied function or a symbol.)"""
    from sympy import Abs, Add, Mul, Pow, Min, Max, Derivative  # pylint: disable=import-outside-toplevel
    from sympy import Function as SymFunction  # pylint: disable=import-outside-toplevel
    e = sympy.sympify(e)
    if hasattr(e, "dimension"):
        return True
    if isinstance(e, Derivative):
        return hasattr(e.expr, "dimension") or hasattr(e.expr.func, "dimension")
    if isinstance(e, (Add, Mul, Pow, Abs, Min, Max, SymFunction)):
        return all(repo_inference_covers(a) for a in e.args)
    if isinstance(e, sympy.tensor.indexed.Indexed):
        return False  # N[i] has no `.dimension` attribute (its base has): answered "dimensionless"
    return bool(e.is_Number or isinstance(e, sympy.NumberSymbol) or e is sympy.I or isinstance(e, sympy.Symbol))


def adim_lit(ser, d) -> str:
    """Literal of type `option adim` for a spec_dim / external result."""
    if d is None:
        return "None"
    if d == dx.ANY:
        return "(Some Any)"
    return f"(Some (D {ser.dim_name(tuple(d))}))"


# ---------------------------------------------------------------------------------------------
# generated, kernel-checked catalogue files
# ---------------------------------------------------------------------------------------------

def prove_catalogue(ctx, ser, entries, good, bad, per_file=45):
    """entries: list of dicts with 'lit', 'name'.  Emits gen/catalogue_k.v for the accepted equations and
    gen/refuted.v for the rejected ones; returns (set of proved indices, dict index -> error)."""
    d = ctx.build / "gen"
    d.mkdir(exist_ok=True)
    pre = ser.preamble().replace("From VP Require Import Base.Util Base.Dim Model.Homog.",
        "From VP Require Import Base.Util Base.Dim Model.Homog Proofs.HomogProofs.")
    jobs = []
    shards = [good[i:i + per_file] for i in range(0, len(good), per_file)]
    for k, sh in enumerate(shards):
        lines = [pre]
        for i in sh:
            lines.append(f"(* {entries[i]['name']} *)\nDefinition eq_{i} : dexpr := {entries[i]['lit']}.")
        lst = "[" + "; ".join(f"eq_{i}" for i in sh) + "]"
        lines.append(f"Lemma catalogue_homogeneous_{k} : forallb check_rel {lst} = true.\nProof. vm_compute. reflexivity. Qed.")
        lines.append(f"Theorem C01_catalogue_{k} : Forall (fun e => exists d, Homog e d) {lst}.\n"
            f"Proof. apply catalogue_forall. exact catalogue_homogeneous_{k}. Qed.")
        lines.append(f"Print Assumptions C01_catalogue_{k}.")
        f = d / f"catalogue_{k:03d}.v"
        f.write_text("\n".join(lines) + "\n")
        jobs.append((f, sh, "good"))
    if bad:
        lines = [pre]
        for i in bad:
            lines.append(f"(* {entries[i]['name']} *)\nDefinition eq_{i} : dexpr := {entries[i]['lit']}.")
            lines.append(f"Lemma eq_{i}_inhomogeneous : forall d, ~ Homog eq_{i} d.\n"
                "Proof. apply check_rel_false_iff. vm_compute. reflexivity. Qed.")
            lines.append(f"Print Assumptions eq_{i}_inhomogeneous.")
        f = d / "refuted.v"
        f.write_text("\n".join(lines) + "\n")
        jobs.append((f, bad, "bad"))
    with ThreadPoolExecutor(max_workers=coqrun.NPROC) as ex:
        results = list(ex.map(lambda j: coqrun.coqc(j[0], 600), jobs))
    proved, errors, axioms = set(), {}, set()
    closed = 0
    for (f, sh, _kind), (rc, out, err, _dt) in zip(jobs, results):
        if rc == 0:
            proved.update(sh)
            closed += out.count("Closed under the global context")
            for line in out.splitlines():
                m = re.match(r"^([A-Za-z_][A-Za-z0-9_'.]*)\s*:", line)
                if m and not line.startswith(" "):
                    axioms.add(m.group(1))
        else:
            for i in sh:
                errors[i] = f"{f.name}: rc={rc} {coqrun._flat(err)[-400:]}"  # pylint: disable=protected-access
    ctx.coverage["generated_theorems_closed_under_global_context"] = closed
    ctx.coverage["generated_files"] = len(jobs)
    return proved, errors, sorted(axioms)


# ---------------------------------------------------------------------------------------------
# decision for one rejected equation
# ---------------------------------------------------------------------------------------------

def signature(eq) -> str:
    """What distinguishes one defective state of an equation from another: kind and dimensions of *every* defect found
    (not the positions: SymPy's argument order depends on generated symbol names)."""
    try:
        defects = dx.spec_defects(eq)
    except dx.Unsupported:
        return "unsupported"
    return " ; ".join(sorted(f"{ex.kind}: " + " vs ".join(sorted(dx.show_dim(d) for d in ex.dims)) for ex in defects))


def describe_failure(ctx, entry, eq):
    """Search on the real object: offending sub-term, the two dimensions, numeric rescaling witness."""
    v = dx.spec_verdict(eq)
    rep = {"kind": "violation", "item": entry["name"], "module": entry["module"], "attr": entry["attr"], "index": entry["index"],
        "equation": str(eq), "theorem_or_tie": f"generated lemma: check_rel eq = true for {entry['name']} (refuted: eq_inhomogeneous)"}
    if v[0] == "ok":
        return None, rep
    ex = v[1]
    rep.update({"path": [str(p) for p in ex.path], "offending_subterm": str(dx.locate(eq, ex.path)), "what": ex.what,
        "dimensions": [dx.show_dim(d) for d in ex.dims], "spec_kind": ex.kind})
    try:
        w = dx.rescale_witness(eq, ctx.rng)
    except Exception as e:  # pylint: disable=broad-except
        w = None
        rep["witness_error"] = f"{type(e).__name__}: {e}"[:200]
    rep["rescaling_witness"] = w
    rep["observed"] = ex.what + ("; " + w["problem"] if w else "")
    rep["expected"] = "equal dimensions of all added / compared terms; dimensionless exponents and function arguments"
    return ex, rep


# ---------------------------------------------------------------------------------------------

def full_axioms(ctx):
    """coqrun.parse_print_assumptions misses axioms whose type is printed on the following line; re-read the
    output of the (already copied) property file with a tolerant parser."""
    f = ctx.build / "static" / "C01.v"
    if not f.exists():
        return
    rc, out, _err, _dt = coqrun.coqc(f, timeout=600)
    if rc != 0:
        return
    names = set(re.findall(r"^([A-Za-z_][A-Za-z0-9_']*(?:\.[A-Za-z_][A-Za-z0-9_']*)+)\s*(?::|$)", out, flags=re.M))
    ctx.coverage["axioms"] = sorted(set(ctx.coverage["axioms"]) | names)
    ctx.coverage["theorems_closed_under_global_context"] = out.count("Closed under the global context")


def run(ctx):
    ctx.level = "proof"
    ctx.static(STATIC)
    full_axioms(ctx)
    ctx.trust("Coq 8.16.1 kernel incl. vm_compute (no native_compute)",
        "harness/vp/dx.py: SymPy equation -> dexpr serialiser (vocabulary fail-closed; checked on every run against the "
        "independent Python specification predicate dx.spec_dim and against the repository's own inference)",
        "sympy.physics.units dimsys_SI.get_dimensional_dependencies: declared Dimension -> exponents of the base dimensions",
        "reading of SymPy nodes: Pow/Mul/Add/Derivative/Integral/Piecewise/function classes mean what SymPy documents; "
        "sympy.vector Laplacian divides by length**2; CoordSys3D base scalars are pure numbers; O() matches any dimension")
    ctx.assume("a float exponent denotes the decimal it prints as (0.8 = 4/5)",
        "symbols without a declared dimension (plain sympy Symbol, dsolve constants, undefined sympy functions) and "
        "AnyDimension symbols are wildcards; angles count as dimensionless",
        "an applied symplyphysics Function has its declared dimension whatever its arguments are; the arguments are only "
        "required to be homogeneous themselves",
        "the declared dimension of each symbol is the physically intended one (a law whose two sides are consistently "
        "wrong is not detected)")
    known = findings.load("C01")
    allow = json.loads(DATA.read_text()) if DATA.exists() else {}
    allow_unmod = allow.get("unmodelled", {})
    allow_import = allow.get("modules_failing_import", {})
    allow_cross = allow.get("crosstie_disagreements", {})

    eqs, failed, nmod = collect_equations(ctx)
    ctx.log(f"imported {nmod} modules, {len(eqs)} equations, {len(failed)} import failures")
    ctx.coverage["modules_imported"] = nmod
    ctx.coverage["modules_failing_import"] = failed
    ctx.coverage["equations"] = len(eqs)
    for m, why in failed.items():
        if m not in allow_import:
            ctx.violation(f"C01:import:{short(m)}", f"module {m} no longer imports (its equations are recovered from the source where possible): {why}",
                {"kind": "broken-tie", "item": m, "observed": why, "theorem_or_tie": "translator: import of every catalogue module"},
                found_input=False)

    # ---- serialise + specification predicate on the live objects ------------------------------
    ser = dx.Serialiser()
    entries = []
    unmodelled = {}
    for (m, a, i, eq) in eqs:
        name = item_name(m, a, i)
        ent = {"name": name, "module": m, "attr": a, "index": i, "eq": eq}
        try:
            ent["lit"] = ser.ser(eq)
            ent["spec"] = dx.spec_verdict(eq)
        except dx.Unsupported as e:
            unmodelled[name] = f"serialiser: {e}"
            continue
        except Exception as e:  # pylint: disable=broad-except
            unmodelled[name] = f"serialiser crashed: {type(e).__name__}: {e}"[:200]
            continue
        entries.append(ent)
    ctx.log(f"serialised {len(entries)} equations, {len(ser.dims)} distinct leaf dimensions")

    # ---- the checker inside Coq -------------------------------------------------------------
    pre = ser.preamble()
    bad = coqrun.eval_cases(ctx, "catalogue", pre, [e["lit"] for e in entries], "check_rel", case_type="dexpr", per_file=60)
    badset = set(bad)
    good = [i for i in range(len(entries)) if i not in badset]
    # equations rejected only because of a symbolic exponent on a dimensional base are outside the model
    symexp = [i for i in bad if entries[i]["spec"][0] == "symexp"]
    for i in symexp:
        unmodelled[entries[i]["name"]] = "symbolic exponent on a dimensional base: " + entries[i]["spec"][1].what
    real_bad = [i for i in bad if i not in symexp]

    proved, errors, gen_axioms = prove_catalogue(ctx, ser, entries, good, bad)
    ctx.obligations(len(entries), len(proved))
    ctx.coverage["axioms"] = sorted(set(ctx.coverage["axioms"]) | set(gen_axioms))
    ctx.coverage["equations_proved_homogeneous"] = len([i for i in good if i in proved])
    ctx.coverage["equations_proved_inhomogeneous"] = len([i for i in real_bad if i in proved])
    ctx.coverage["equations_outside_model_rejected_as_serialised"] = len([i for i in symexp if i in proved])
    ctx.coverage["programs"] = nmod
    for i, err in errors.items():
        ctx.violation(f"C01:generated-lemma:{entries[i]['name']}", f"generated catalogue lemma did not compile: {err}",
            {"kind": "broken-proof", "item": entries[i]["name"], "theorem_or_tie": "build/C01/gen", "log": err}, found_input=False)

    # ---- unmodelled items against the allowlist -----------------------------------------------
    ctx.coverage["unmodelled"] = unmodelled
    for name, why in unmodelled.items():
        if name not in allow_unmod:
            ent = next((e for e in entries if e["name"] == name), None)
            found = False
            rep = {"kind": "broken-tie", "item": name, "observed": why,
                "theorem_or_tie": "translator: every baseline equation is inside the modelled vocabulary (data/c01_unmodelled.json)"}
            ctx.violation(f"C01:unmodelled:{name}", f"{name} cannot be modelled and is not in the allowlist: {why}", rep,
                found_input=found)
    stale = [n for n in allow_unmod if n not in unmodelled]
    ctx.coverage["allowlist_stale_entries"] = stale

    # instantiated re-check of the symbolic-exponent items: partial (two rational values of each exponent symbol)
    inst_lits, inst_names = [], []
    for i in symexp:
        eq = entries[i]["eq"]
        expsyms = sorted({s for p in eq.atoms(sympy.Pow) for s in p.exp.free_symbols}, key=str)
        for vals in ([Fraction(7, 5), Fraction(5, 3)], [Fraction(9, 7), Fraction(4, 3)]):
            dx.EXP_SUBST = {s: sympy.Rational(vals[j % 2].numerator + j, vals[j % 2].denominator) for j, s in enumerate(expsyms)}
            try:
                inst_lits.append(ser.ser(eq))
                inst_names.append(entries[i]["name"])
            finally:
                dx.EXP_SUBST = {}
    if inst_lits:
        ibad = coqrun.eval_cases(ctx, "instantiated", ser.preamble(), inst_lits, "check_rel", case_type="dexpr")
        ctx.coverage["symbolic_exponent_items_instantiated_checks"] = {"cases": len(inst_lits), "failed": len(ibad)}
        for j in ibad:
            name = inst_names[j]
            ctx.violation(f"C01:{name}", f"{name}: inhomogeneous for a rational instantiation of its symbolic exponent",
                {"kind": "violation", "item": name, "gallina": inst_lits[j], "theorem_or_tie": "instantiated check_rel"}, True)

    # ---- decide the rejected equations ------------------------------------------------------------
    for i in real_bad:
        ent = entries[i]
        ex, rep = describe_failure(ctx, ent, ent["eq"])
        rep["gallina"] = ent["lit"]
        key = f"C01:{ent['name']}"
        if ex is not None:
            w = rep.get("rescaling_witness")
            ctx.violation(key, f"{ent['name']} is not dimensionally homogeneous: {ex.what}; offending sub-term "
                f"{rep['offending_subterm']}" + (f"; numeric witness: {w['problem']}" if w else ""), rep, found_input=True)
            # a known finding is a *specific* defect: if the same equation now fails differently, say so
            sig = signature(ent["eq"])
            rep["signature"] = sig
            rec = known.get(key, {}).get("signature")
            if rec is not None and rec != sig:
                ctx.violation(f"{key}#{sig}", f"{ent['name']} is listed as a known finding with defect [{rec}] but now fails "
                    f"differently: [{sig}] -- " + "; ".join(d.what for d in dx.spec_defects(ent["eq"])), dict(rep),
                    found_input=True)
        else:
            rep["kind"] = "broken-tie"
            rep["theorem_or_tie"] = "serialiser self-check: Coq check_rel rejects, Python specification predicate accepts"
            ctx.violation(key + ":selfcheck", f"{ent['name']}: Coq checker rejects the serialised tree but the specification "
                "predicate accepts the SymPy object", rep, found_input=False)
    for i in good:
        ent = entries[i]
        if ent["spec"][0] != "ok":
            ex = ent["spec"][1]
            _, rep = describe_failure(ctx, ent, ent["eq"])
            w = rep.get("rescaling_witness")
            rep["theorem_or_tie"] = "serialiser self-check: Coq check_rel accepts, Python specification predicate rejects"
            ctx.violation(f"C01:{ent['name']}", f"{ent['name']}: the specification predicate rejects ({ex.what}) but the "
                "serialised tree is accepted", rep, found_input=bool(w))

    # ---- self-check (a): same dimensions of both sides, spec vs Coq --------------------------------
    sc_lits, sc_idx = [], []
    for i in good:
        eq = entries[i]["eq"]
        if dx.is_matrix(eq.lhs) or dx.is_matrix(eq.rhs):
            continue
        for side, sname in ((eq.lhs, "lhs"), (eq.rhs, "rhs")):
            try:
                d = dx.spec_dim(side)
                sc_lits.append(f"({ser.ser(side)}, {adim_lit(ser, d)})")
                sc_idx.append((i, sname, d))
            except (dx.Unsupported, dx.Inhomogeneous):
                continue
    sbad = coqrun.eval_cases(ctx, "selfcheck", ser.preamble(), sc_lits, "fun c => agrees_strict (fst c) (snd c)",
        case_type="dexpr * option adim", per_file=150)
    ctx.coverage["translator_selfcheck"] = {"sides_compared": len(sc_lits), "disagreements": len(sbad)}
    for j in sbad:
        i, sname, d = sc_idx[j]
        ctx.violation(f"C01:selfcheck:{entries[i]['name']}:{sname}", f"{entries[i]['name']}: dimension of the {sname} differs between "
            f"the serialised tree and the specification predicate on the SymPy object ({dx.show_dim(d)})",
            {"kind": "broken-tie", "item": entries[i]["name"], "side": sname, "gallina": sc_lits[j],
             "theorem_or_tie": "serialiser self-check (spec_dim vs infer)"}, found_input=False)
    ctx.evaluated(len(sc_lits), len({s for s in sc_lits}))

    # ---- cross-tie (b): the repository's own inference ---------------------------------------------
    from symplyphysics.core.dimensions.collect_expression import collect_expression_and_dimension  # pylint: disable=import-outside-toplevel
    ct_lits, ct_idx = [], []
    repo_refused = repo_norule = 0
    for i in good:
        eq = entries[i]["eq"]
        if dx.is_matrix(eq.lhs) or dx.is_matrix(eq.rhs):
            continue
        for side, sname in ((eq.lhs, "lhs"), (eq.rhs, "rhs")):
            if not repo_inference_covers(side):
                repo_norule += 1
                continue
            try:
                _, rd = collect_expression_and_dimension(side)
                vec = dx.dvec(rd)
            except Exception:  # pylint: disable=broad-except
                repo_refused += 1
                continue
            if vec[dx.ANYD] != 0:
                continue
            ct_lits.append(f"({ser.ser(side)}, Some (D {ser.dim_name(vec)}))")
            ct_idx.append((i, sname, vec))
    cbad = coqrun.eval_cases(ctx, "crosstie", ser.preamble(), ct_lits, "fun c => agrees (fst c) (snd c)",
        case_type="dexpr * option adim", per_file=150)
    dis = {}
    for j in cbad:
        i, sname, vec = ct_idx[j]
        dis[f"{entries[i]['name']}:{sname}"] = dx.show_dim(vec)
    ctx.coverage["agreements_with_repo_inference"] = len(ct_lits) - len(cbad)
    ctx.coverage["repo_inference_refused_sides"] = repo_refused
    ctx.coverage["repo_inference_has_no_rule_sides"] = repo_norule
    ctx.coverage["repo_inference_disagreements"] = dis
    for k, rd in dis.items():
        if k not in allow_cross:
            ctx.violation(f"C01:crosstie:{k}", f"{k}: the repository's collect_expression_and_dimension gives [{rd}], `infer` differs",
                {"kind": "disagreement", "item": k, "observed": rd,
                 "theorem_or_tie": "cross-tie infer ~ collect_expression_and_dimension"}, found_input=False)
    ctx.evaluated(len(ct_lits), len(set(ct_lits)))

    # ---- semantic tie (c): accepted equations are numerically unit-invariant --------------------------
    cand = [i for i in good if isinstance(entries[i]["eq"], Relational)]
    sample = cand if not ctx.quick else ctx.rng.sample(cand, min(len(cand), 120))
    n_eval, n_flag, n_units = 0, {}, 0
    for i in sample:
        st = {}
        try:
            w = dx.rescale_witness(entries[i]["eq"], ctx.rng, tries=ctx.pick(1, 2), stats=st)
        except Exception:  # pylint: disable=broad-except
            continue
        if st.get("conclusive_base_units"):
            n_eval += 1
            n_units += st["conclusive_base_units"]
        if w:
            n_flag[entries[i]["name"]] = w["problem"]
    ctx.coverage["numeric_unit_invariance"] = {"equations_sampled": len(sample), "equations_evaluated": n_eval,
        "equation_x_base_unit_evaluations": n_units, "flagged": n_flag}
    for name, prob in n_flag.items():
        ctx.violation(f"C01:numeric:{name}", f"{name} is accepted by the checker but is not numerically invariant under a change "
            f"of units: {prob}", {"kind": "disagreement", "item": name, "observed": prob,
            "theorem_or_tie": "semantic adequacy of Homog (scaling_invariance) vs numeric evaluation of the real equation"},
            found_input=False)
    ctx.evaluated(n_eval, n_eval)

    # ---- history: what the modules publish after their functions were used -------------------------
    state_after_use(ctx)

    # ---- evidence ------------------------------------------------------------------------------
    ctx.coverage["exhaustive"] = True
    ctx.coverage["node_histogram"] = dict(sorted(ser.node_hist.items()))
    ctx.coverage["distinct_leaf_dimensions"] = len(ser.dims)
    und = {}
    for u in ser.undeclared:
        und[u] = und.get(u, 0) + 1
    ctx.coverage["undeclared_symbols_treated_as_wild"] = und
    ctx.coverage["rejected_equations"] = [entries[i]["name"] for i in real_bad]
    ctx.coverage["rule"] = ("one obligation per published equation (every public Relational / list of Relationals of every module "
        "under laws, definitions, conditions); discharged = member of a compiled C01_catalogue_k (homogeneous) or "
        "eq_i_inhomogeneous (refuted); evaluations = sides compared with the Python specification predicate, with the "
        "repository's inference, and equations evaluated numerically under unit rescaling")
    for ent in entries[:2]:
        ctx.sample({"item": ent["name"], "equation": str(ent["eq"]), "gallina": ent["lit"][:300], "spec": str(ent["spec"][0])})
    for i in real_bad[:3]:
        ctx.sample({"item": entries[i]["name"], "equation": str(entries[i]["eq"]), "verdict": "inhomogeneous"})


def state_after_use(ctx):
    """History dimension of the property: re-judge what every module publishes AFTER its calculate_* functions were
    exercised (vp/c01_state.py).  quick: every module publishing a mutable container + a seeded sample; thorough: all."""
    import sys  # pylint: disable=import-outside-toplevel
    from vp import c01_state  # pylint: disable=import-outside-toplevel
    mods = sorted(n for n, m in list(sys.modules.items()) if m is not None
        and n.startswith(tuple(f"symplyphysics.{t}." for t in TOPS)) and not getattr(m, "__file__", "__init__.py").endswith("__init__.py"))
    mutable = [n for n in mods if c01_state.has_mutable_container(sys.modules[n])]
    rest = [n for n in mods if n not in mutable]
    chosen = mutable + (rest if not ctx.quick else sorted(ctx.rng.sample(rest, min(len(rest), 250))))
    argseed = ctx.seed
    t0 = __import__("time").time()
    try:
        res = c01_state.exercise_modules(chosen, argseed, budget_s=ctx.pick(5, 12), overall_s=ctx.pick(300, 900))
    except Exception as e:  # pylint: disable=broad-except
        ctx.violation("C01:state:stage", f"the calls-then-reread stage did not complete: {type(e).__name__}: {e}",
            {"kind": "broken-tie", "theorem_or_tie": "state_after_use (vp/c01_state.py)"}, found_input=False)
        return
    calls = sum(r["calls"] for r in res)
    outcomes = {}
    for r in res:
        for k, v in r["outcomes"].items():
            outcomes[k] = outcomes.get(k, 0) + v
    changed = [(r["module"], c) for r in res for c in r["changed"]]
    lits = [(m, c) for m, c in changed if c["lit"]]
    coq_bad = set()
    if lits:
        pre = dx.Serialiser().preamble()
        coq_bad = set(coqrun.eval_cases(ctx, "after_calls", pre, [c["lit"] for _, c in lits], "check_rel", case_type="dexpr"))
    coq_verdict = {id(c): (j not in coq_bad) for j, (_, c) in enumerate(lits)}
    ctx.coverage["state_after_use"] = {"modules_exercised": len(res), "modules_publishing_mutable_containers": mutable,
        "functions_called": sum(r["functions"] for r in res), "calls": calls, "call_outcomes": outcomes,
        "errors": {r["module"]: r["error"] for r in res if r.get("error")},
        "published_objects_changed": [{"item": f"{short(m)}.{c['item']}", "by": f"{c['function']}({c['variant']})",
            "after": c["after"], "verdict": c["verdict"]} for m, c in changed][:40],
        "wall_s": round(__import__("time").time() - t0, 1)}
    ctx.evaluated(calls, calls)
    for m, c in changed:
        name = f"{short(m)}.{c['item']}"
        call = f"{c['function']}({c['variant']})"
        rep = {"kind": "violation", "stage": "state", "item": name, "module": m, "published": c["item"], "function": c["function"],
            "variant": c["variant"], "args_source": c["args"], "argseed": argseed, "arguments": c["arguments"],
            "call_outcome": c["call_outcome"], "before_srepr": c["before"], "equation_after": c["after"], "observed": c["what"],
            "expected": "the published equation is unchanged by calls of the module's functions, or at least still homogeneous",
            "gallina": c["lit"], "theorem_or_tie": "check_rel on the object published after the call"}
        key = f"C01:{name}@after:{call}"
        ok_coq = coq_verdict.get(id(c))
        if c["verdict"] == "bad" and ok_coq is False:
            ctx.violation(key, f"{name} is no longer dimensionally homogeneous after {short(m)}.{call} with the {c['args']} "
                f"arguments: now {c['after']} -- {c['what']}", rep, found_input=True)
        elif c["verdict"] == "ok" and ok_coq is True:
            continue
        else:
            rep["kind"] = "broken-tie"
            ctx.violation(key + ":unjudged", f"{name} was changed by {call} into {c['after']} and cannot be judged "
                f"(spec: {c['verdict']} {c['what']}; Coq accepts: {ok_coq})", rep, found_input=False)


def replay_state(rep):
    from vp import c01_state  # pylint: disable=import-outside-toplevel
    before, out, args, rows = c01_state.replay_call(rep["module"], rep["function"], rep["variant"], rep["argseed"])
    print("module   :", rep["module"])
    for k, v in before.items():
        print("published:", k, "=", v)
    print(f"call     : {rep['function']}({', '.join(f'{p}={v}' for p, v in args.items())})   [{rep['args_source']} arguments, "
        f"variant {rep['variant']}]  ->  {out}")
    bad = 0
    for k, after, verdict, what in rows:
        print(f"after    : {k} = {after}   [{verdict}: {what}]")
        bad += verdict != "ok"
    if not rows:
        print("after    : every published object is unchanged")
    return 1 if bad else 0


def replay(ctx, rep):
    """Re-evaluate the recorded item on the live repository."""
    if rep.get("stage") == "state":
        return replay_state(rep)
    if "module" not in rep:
        print("replay: this record names a tie / theorem, not an equation:", rep.get("theorem_or_tie"), rep.get("item"))
        return 1
    try:
        eq = get_equation(rep["module"], rep["attr"], rep.get("index"))
    except Exception as e:  # pylint: disable=broad-except
        print(f"replay: cannot load {rep['item']}: {type(e).__name__}: {e}")
        return 1
    print("item     :", rep["item"])
    print("equation :", eq)
    v = dx.spec_verdict(eq)
    if v[0] == "ok":
        print("verdict  : homogeneous, dimension", dx.show_dim(v[1]))
        return 0
    ex = v[1]
    print("verdict  :", ex.what)
    print("sub-term :", dx.locate(eq, ex.path), " at path", list(ex.path))
    import random  # pylint: disable=import-outside-toplevel
    w = dx.rescale_witness(eq, random.Random(rep.get("seed", 0)))
    if w:
        print("witness  :", w["problem"])
        print("valuation:", json.dumps(w["valuation"], default=str)[:1500])
        print("lhs at unit scale 1,2,4:", w["lhs_at_1_2_4"])
        print("rhs at unit scale 1,2,4:", w["rhs_at_1_2_4"])
    return 1
