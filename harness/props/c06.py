"""C06 -- symbolic dimension inference agrees with evaluation on quantities.

static theorems : coq/theories/Properties/C06.v  (about Model/CollectE.v, reusing Model/CollectQ.v)
tie             : correspondence -- collect_expression_and_dimension vs the Gallina model on seeded trees over
                  dimensioned symbols, functions, quantities and numbers; plus (tests, labelled as such) value-equality
                  of the returned expression at rational points and the inference-then-evaluation diagram on the
                  implementation."""
from __future__ import annotations

from fractions import Fraction

import sympy
from sympy import S, Abs, Add, Derivative, Max, Min, Mul, Pow, Rational, cos, exp, log, sin
from sympy.physics import units
from sympy.physics.units import Quantity as SymQuantity

from vp import common, coqrun, qx
from props.c05 import rand_dimvec, unit_expr_from_vec, ZERO, vscale, MAGS
from props.c04 import dimension_from_vec

PREAMBLE = """From Coq Require Import List QArith ZArith NArith Bool.
From VP Require Import Base.Util Base.Dim Base.Val Model.CollectQ Model.CollectE.
Import ListNotations.
Local Open Scope Q_scope.
"""


# ---- serialiser: the tree as collect_expression_and_dimension sees it ---------------------------------

def sexpr_lit(expr) -> str:
    expr = sympy.sympify(expr)
    if isinstance(expr, SymQuantity):
        return f"(SQty {qx.val_lit(qx.val_class(expr.scale_factor))} {qx.dim_lit(qx.dim_vec(expr.dimension))})"
    if hasattr(expr, "dimension"):
        return f"(SDimSym {qx.dim_lit(qx.dim_vec(expr.dimension))})"
    if isinstance(expr, Mul):
        return "(SMul [" + "; ".join(sexpr_lit(a) for a in expr.args) + "])"
    if isinstance(expr, Pow):
        return f"(SPow {sexpr_lit(expr.base)} {sexpr_lit(expr.exp)})"
    if isinstance(expr, Add):
        return "(SAdd [" + "; ".join(sexpr_lit(a) for a in expr.args) + "])"
    if isinstance(expr, Abs):
        return f"(SAbs {sexpr_lit(expr.args[0])})"
    if isinstance(expr, (Min, Max)):
        k = "SMin" if isinstance(expr, Min) else "SMax"
        return f"({k} [" + "; ".join(sexpr_lit(a) for a in expr.args) + "])"
    if isinstance(expr, Derivative):
        func, *args = expr.args
        fdim = getattr(func.func, "dimension", None)
        fd = qx.dim_vec(fdim) if fdim is not None else (Fraction(0),) * qx.NB
        vs = []
        for a, n in args:
            vs.append(f"({sexpr_lit(a)}, {qx.q_lit(Fraction(int(n)))})")
        vanishes = "true" if func.diff(*args) == 0 else "false"
        return f"(SDeriv {qx.dim_lit(fd)} {vanishes} [" + "; ".join(vs) + "])"
    if isinstance(expr, sympy.Function):
        fdim = getattr(expr.func, "dimension", None)
        fd = qx.dim_vec(fdim) if fdim is not None else (Fraction(0),) * qx.NB
        return f"(SFun {qx.dim_lit(fd)} [" + "; ".join(sexpr_lit(a) for a in expr.args) + "])"
    vc = qx.val_class(expr)
    if vc[0] == "Sym":
        return "SPlain"
    return f"(SNum {qx.val_lit(vc)})"


# ---- generator ---------------------------------------------------------------------------------------

class Gen:
    def __init__(self, rng, p_bad=0.0):
        self.rng = rng
        self.p_bad = p_bad
        self.symbols = {}
        self.has_deriv = False
        self.has_fun = False
        self.has_dimensional_fun_arg = False
        self.nozero = 0

    def symbol(self, vec):
        from symplyphysics import Symbol  # pylint: disable=import-outside-toplevel
        # every symbolic leaf is a fresh symbol: distinct symbols never cancel, so a symbolic sum/product is never
        # literally 0 (whether SymPy can cancel is outside the model)
        key = (vec, len(self.symbols))
        if key not in self.symbols:
            # no assumptions: with positive=True SymPy decides Min(-1, s) = -1 and the node becomes a "number"
            self.symbols[key] = Symbol(f"s{len(self.symbols)}", dimension_from_vec(vec, Fraction(0), self.rng))
        return self.symbols[key]

    def other_vec(self, vec):
        for _ in range(10):
            v2, _a = rand_dimvec(self.rng)
            if v2 != vec:
                return v2
        return vec

    def leaf(self, vec):
        from symplyphysics import Quantity  # pylint: disable=import-outside-toplevel
        from symplyphysics.core.operations.symbolic import Average, FiniteDifference  # pylint: disable=import-outside-toplevel
        rng = self.rng
        r = rng.random()
        if all(x == 0 for x in vec) and r < 0.35:
            return sympy.sympify(rng.choice(MAGS + ([] if self.nozero else [0])))
        if r < 0.50:
            return self.symbol(vec)
        if r < 0.58 and not self.nozero:
            return Quantity(S.Zero, dimension=dimension_from_vec(vec, Fraction(0), rng))
        if r < 0.85:
            return Quantity(rng.choice(MAGS) * unit_expr_from_vec(vec, 0, rng))
        if r < 0.93:
            return rng.choice([Average, FiniteDifference])(self.symbol(vec))
        return rng.choice(MAGS) * self.symbol(vec)

    def expr(self, vec, depth):
        from symplyphysics import Function  # pylint: disable=import-outside-toplevel
        rng = self.rng
        if depth <= 0 or rng.random() < 0.22:
            return self.leaf(vec)
        r = rng.random()
        if r < 0.30:
            n = rng.choice([2, 2, 3, 4])
            terms = [self.expr(self.other_vec(vec) if rng.random() < self.p_bad else vec, depth - 1) for _ in range(n)]
            return Add(*terms, evaluate=rng.random() < 0.6)
        if r < 0.55:
            v1, _a = rand_dimvec(rng)
            v2 = tuple(x - y for x, y in zip(vec, v1))
            return Mul(self.expr(v1, depth - 1), self.expr(v2, depth - 1))   # evaluated: an unevaluated `s*0` is a 'number' that is not literally 0
        if r < 0.68:
            if rng.random() < self.p_bad:
                from symplyphysics import Quantity  # pylint: disable=import-outside-toplevel
                ov = self.other_vec(ZERO)
                bad_exp = Quantity(rng.choice([2, 3, 5]) * unit_expr_from_vec(ov, 0, rng))   # (a symbolic exponent makes SymPy rewrite the power)
                return Pow(self.expr(vec, depth - 1), bad_exp)
            if rng.random() < 0.12:
                # a dimensionless base raised to a SYMBOLIC exponent that is dimensionless only after reduction of derived dimensions
                # (frequency x time, energy / (force x length)): inference accepts it, and so must evaluation on quantities
                av, _a = rand_dimvec(rng)
                if any(x != 0 for x in av):
                    s1, s2 = self.symbol(av), self.symbol(tuple(-x for x in av))
                    return Mul(Pow(rng.choice([2, Rational(1, 2), 3]), Mul(s1, s2)), self.expr(vec, depth - 1))
            n = rng.choice([2, 3, -1, -2, Rational(1, 2), Rational(3, 2)])
            nn = Fraction(int(n.p), int(n.q)) if isinstance(n, Rational) else Fraction(n)
            if nn.denominator == 1 and rng.random() < 0.2:
                # the exponent is written as an expression of a dimensionless quantity and a number (gamma - 1, 2*k): inference
                # folds it into a plain number, the dimension of the power is the base dimension to THAT number
                from symplyphysics import Quantity  # pylint: disable=import-outside-toplevel
                k = rng.choice([1, 2, -1, 3])
                if rng.random() < 0.5:
                    written = Quantity(sympy.Integer(int(nn)) + k) - k
                else:
                    written = Quantity(Rational(int(nn), 2)) * 2
                return Pow(self.expr(vscale(vec, 1 / nn), depth - 1), written)
            if nn.denominator != 1:
                # fractional power: positive base only (a negative base gives a complex value that Min/Max cannot compare)
                return Pow(self.symbol(vscale(vec, 1 / nn)), n)
            return Pow(self.expr(vscale(vec, 1 / nn), depth - 1), n)
        if r < 0.74:
            return Abs(self.expr(vec, depth - 1))
        if r < 0.82:
            cls = rng.choice([Min, Max])
            # no zero-valued leaves below Min/Max: whether SymPy decides the minimum to be a literal 0 is outside the model
            self.nozero += 1
            terms = [self.expr(self.other_vec(vec) if rng.random() < self.p_bad else vec, depth - 1) for _ in range(rng.choice([1, 2]))]
            self.nozero -= 1
            # one argument is always a bare fresh symbol (no assumptions): otherwise SymPy can decide an unevaluated Min/Max of
            # numbers and quantities numerically and the whole node counts as a "number" for the inference
            terms.insert(rng.randrange(len(terms) + 1), self.symbol(vec))
            return cls(*terms, evaluate=False)
        if r < 0.90:
            # applied dimensioned function, argument of any dimension (arguments are not checked by inference)
            self.has_fun = True
            av, _a = rand_dimvec(rng)
            arg = self.symbol(av)
            if any(x != 0 for x in av):
                self.has_dimensional_fun_arg = True
            f = Function("f", [arg], dimension_from_vec(vec, Fraction(0), rng))
            if rng.random() < 0.5:
                self.has_deriv = True
                n = rng.choice([1, 1, 2])
                if rng.random() < 0.5:
                    # mixed partial over two DISTINCT variables, half of the time of the SAME dimension
                    bv = av if rng.random() < 0.5 else rand_dimvec(rng)[0]
                    arg2 = self.symbol(bv)
                    m = rng.choice([1, 1, 2])
                    tot = tuple(x + n * y + m * z for x, y, z in zip(vec, av, bv))
                    g = Function("g", [arg, arg2], dimension_from_vec(tot, Fraction(0), rng))
                    return Derivative(g(arg, arg2), (arg, n), (arg2, m))
                # d^n f / d arg^n has dimension vec - n*av; compensate so the node has dimension vec
                if rng.random() < 0.3:
                    # differentiate with respect to an applied dimensioned function q(s) (Lagrangian style)
                    inner = Function("q", [self.symbol(rand_dimvec(rng)[0])], dimension_from_vec(av, Fraction(0), rng))
                    var = inner(*inner.arguments)
                    g = Function("g", [var], dimension_from_vec(tuple(x + n * y for x, y in zip(vec, av)), Fraction(0), rng))
                    return Derivative(g(var), (var, n))
                g = Function("g", [arg], dimension_from_vec(tuple(x + n * y for x, y in zip(vec, av)), Fraction(0), rng))
                return Derivative(g(arg), (arg, n))
            return f(arg)
        if all(x == 0 for x in vec):
            self.has_fun = True
            fn = rng.choice([sin, cos, exp, log])
            # no zero-valued leaves below an elementary function (sin(0*x) is literally 0 for SymPy, cos(0*x) is 1: outside the model)
            self.nozero += 1
            try:
                if rng.random() < self.p_bad:
                    self.has_dimensional_fun_arg = True
                    ov = self.other_vec(ZERO)
                    return fn(self.symbol(ov) + self.expr(ov, depth - 1))
                # the argument always contains a fresh symbol: f(number) is evaluated by SymPy (log(1) = 0, log(-1) complex)
                return fn(self.symbol(ZERO) + self.expr(ZERO, depth - 1))
            finally:
                self.nozero -= 1
        return self.leaf(vec)


def _F(name, args, dim):
    from symplyphysics import Function  # pylint: disable=import-outside-toplevel
    return Function(name, args, dim)


def boundary(rng, k=None):
    from symplyphysics import Quantity, Symbol  # pylint: disable=import-outside-toplevel
    t = Symbol("t", units.time)
    x = Symbol("x", units.length)
    zl = Quantity(0, dimension=units.length)
    zs = Quantity(0 * units.second)
    q5s = Quantity(5 * units.second)
    cases = [
        lambda: zl + t,                       # a zero quantity listed first must not fix the dimension
        lambda: zl + q5s,
        lambda: Add(zl, q5s, t, evaluate=False),
        lambda: zl + zs,
        lambda: Min(zl, t, q5s, evaluate=False),
        lambda: Max(0, x, Quantity(3 * units.meter), evaluate=False),
        lambda: 0 + x,
        lambda: Derivative(_F("L", [_F("v", [t], units.velocity)(t)], units.energy)(_F("v", [t], units.velocity)(t)),
                           _F("v", [t], units.velocity)(t)),
        lambda: Max(0, x, evaluate=False),
        lambda: Min(0, x, evaluate=False),
        lambda: Max(zl, x, Quantity(2 * units.meter), evaluate=False),
        lambda: Min(zs, t, q5s, evaluate=False) * x,
        lambda: Add(0, x, evaluate=False),
        lambda: Add(2, x, evaluate=False),    # non-zero number + length: refused
        lambda: x**t,                         # dimensional exponent
        lambda: Mul(zl, t, x, evaluate=False),
        lambda: Quantity(sympy.oo, dimension=units.mass) + t,
        lambda: Quantity(sympy.nan, dimension=units.mass) + t,
        lambda: Abs(Quantity(-2 * units.volt)) + Symbol("U", units.voltage),
        lambda: x / t - Quantity(3 * units.meter / units.second),
        lambda: x**Quantity(2),                                   # a bare quantity in the exponent stands for its value
        lambda: x**Quantity(2) + Quantity(3 * units.meter**2),
        lambda: x**Quantity(2 * units.second),                    # dimensional: refused
        lambda: Max(t**Quantity(Rational(1, 2)), sympy.sqrt(t), evaluate=False),
    ]
    if k is None:
        k = rng.randrange(len(cases))
    return cases[k % len(cases)]()


# ---- specification predicate (from the property text; used only after a disagreement) -------------------

def spec(expr):
    """nominal dimension vector, or 'refuse', or None when the property is silent"""
    expr = sympy.sympify(expr)
    anyv = lambda v: v in (S.Zero, sympy.oo, -sympy.oo, sympy.nan) or v == 0.0
    zero = (Fraction(0),) * qx.NB
    if isinstance(expr, SymQuantity):
        return ("any" if anyv(expr.scale_factor) else "dim", qx.dim_vec(expr.dimension))
    if hasattr(expr, "dimension"):
        return ("dim", qx.dim_vec(expr.dimension))
    if isinstance(expr, (Add, Min, Max)):
        rs = [spec(a) for a in expr.args]
        if any(r is None for r in rs):
            return None
        if any(r == "refuse" for r in rs):
            return "refuse"
        fixed = [r[1] for r in rs if r[0] == "dim"]
        if any(d != fixed[0] for d in fixed):
            return "refuse"
        return ("dim", fixed[0]) if fixed else ("any", zero)
    if isinstance(expr, Mul):
        rs = [spec(a) for a in expr.args]
        if any(r is None for r in rs):
            return None
        if any(r == "refuse" for r in rs):
            return "refuse"
        if any(r[0] == "any" for r in rs):
            return ("any", zero)
        d = zero
        for r in rs:
            d = tuple(a + b for a, b in zip(d, r[1]))
        return ("dim", d)
    if isinstance(expr, Pow):
        b, e = spec(expr.base), spec(expr.exp)
        if b is None or e is None:
            return None
        if b == "refuse" or e == "refuse":
            return "refuse"
        if e[0] == "dim" and any(x != 0 for x in e[1]):
            return "refuse"
        if all(x == 0 for x in b[1]):
            return b
        if not (getattr(expr.exp, "is_Rational", False) or getattr(expr.exp, "is_Float", False)):
            return None
        q = qx.frac_of(expr.exp)
        return (b[0], tuple(x * q for x in b[1]))
    if isinstance(expr, Abs):
        return spec(expr.args[0])
    if isinstance(expr, Derivative):
        func, *args = expr.args
        fdim = getattr(func.func, "dimension", None)
        d = qx.dim_vec(fdim) if fdim is not None else zero
        for a, n in args:
            r = spec(a)
            if r is None or r == "refuse":
                return None
            d = tuple(x - int(n) * y for x, y in zip(d, r[1]))
        return ("dim", d)
    if isinstance(expr, sympy.Function):
        fdim = getattr(expr.func, "dimension", None)
        return ("dim", qx.dim_vec(fdim) if fdim is not None else zero)
    if getattr(expr, "is_number", False):
        return ("any" if anyv(expr) else "dim", zero)
    return ("dim", zero)


def spec_contradicted(expr, obs):
    try:
        sp = spec(expr)
    except Exception:  # pylint: disable=broad-except
        return None
    if sp is None:
        return None
    if sp == "refuse":
        return None if obs[0] == "err" else f"property requires an error, implementation returned dimension {obs[2]}"
    if obs[0] == "err":
        return f"property requires success with dimension {sp[1]}, implementation raised {obs[2]}"
    if sp[0] == "dim" and tuple(sp[1]) != tuple(obs[2]):
        return f"dimension should be {sp[1]}, got {obs[2]}"
    return None


# ---- dynamic supplements (tests, not proofs) ----------------------------------------------------------

def value_equal(expr, out, rng) -> bool | None:
    """returned expression value-equal to the input at 3 seeded rational points (quantities by scale factor)"""
    funcs = sorted(expr.atoms(sympy.core.function.AppliedUndef) | out.atoms(sympy.core.function.AppliedUndef), key=str)
    if funcs:
        # applied functions (and derivatives of them) are evaluated on a concrete polynomial in their arguments; a function of an
        # applied function (Lagrangian style) is left without a verdict
        if not all(a.is_Symbol for f in funcs for a in f.args):
            return None
        fsub = {}
        for i, f in enumerate(funcs):
            body = S.One
            for k, a in enumerate(f.args):
                body = body * (Rational(2 * k + 3 + i, 2) + a)**5
            fsub[f] = body
        expr = expr.subs(fsub).doit()
        out = out.subs(fsub).doit()
        if expr.has(Derivative) or out.has(Derivative):
            return None
    syms = sorted(expr.free_symbols | out.free_symbols, key=str)
    for _ in range(3):
        env = {}
        for s in syms:
            if isinstance(s, SymQuantity):
                continue
            env[s] = Rational(rng.choice([-1, 1]) * rng.randrange(1, 9), rng.randrange(1, 5))
        def ev(e):
            e = e.subs(env)
            for q in e.atoms(SymQuantity):
                e = e.subs(q, q.scale_factor)
            return sympy.nsimplify(e) if False else e
        a, b = ev(expr), ev(out)
        try:
            d = sympy.N(a - b, 30)
            sc = max(abs(sympy.N(a, 30)), 1)
            if d.is_number and d.is_finite and abs(d) > sc * 10**-20:
                return False
        except Exception:  # pylint: disable=broad-except
            return None
    return True


def diagram_holds(expr, dim, rng):
    """replace every dimensioned symbol by a non-zero quantity of its declared dimension; Quantity(...) must have the
    inferred dimension (or a value of any dimension)"""
    from symplyphysics import Quantity  # pylint: disable=import-outside-toplevel
    from symplyphysics.core.symbols.symbols import DimensionSymbol  # pylint: disable=import-outside-toplevel
    from symplyphysics.core.dimensions import dimension_to_si_unit  # pylint: disable=import-outside-toplevel
    from symplyphysics.core.dimensions.miscellaneous import is_any_dimension  # pylint: disable=import-outside-toplevel
    sub = {}
    for s in expr.free_symbols:
        if isinstance(s, SymQuantity):
            continue
        if isinstance(s, DimensionSymbol):
            sub[s] = Quantity(Rational(rng.randrange(1, 9), rng.randrange(1, 4)) * dimension_to_si_unit(s.dimension), dimension=s.dimension)
        else:
            return None
    try:
        q = Quantity(expr.subs(sub))
    except Exception as e:  # pylint: disable=broad-except
        # only dimension refusals count; "should be an expression made of numbers and quantities" means SymPy could not evaluate
        # the substituted value numerically (exp(exp(8.6e11))): no verdict
        if "Dimension of" in str(e) or "but it should be" in str(e):
            return f"Quantity() raised {type(e).__name__}: {e}"[:200]
        return None   # SymPy refused the concrete values (e.g. Min/Max of a complex number): no verdict
    if is_any_dimension(q.scale_factor):
        return None
    a, b = qx.dim_vec(q.dimension), qx.dim_vec(dim)
    erase = lambda d: d[:7] + (Fraction(0),) + d[8:]
    return None if erase(a) == erase(b) else f"inferred {b}, evaluated {a}"


def wrapper_stream(ctx, n_random):
    """Wrappers (Average, FiniteDifference, differentials) take their dimension from inference on THEIR OWN argument, whatever
    was wrapped before or after in the process: a sequence of wrappers is constructed -- over catalogue symbols that are printed
    alike but declared with different dimensions, and over generated expressions -- and afterwards every wrapper must still
    carry the argument it was built from and the dimension the model infers for that argument."""
    from symplyphysics import symbols as catalogue_symbols  # pylint: disable=import-outside-toplevel
    from symplyphysics.core.symbols.symbols import DimensionSymbol  # pylint: disable=import-outside-toplevel
    from symplyphysics.core.operations import symbolic  # pylint: disable=import-outside-toplevel
    rng = ctx.rng
    classes = [symbolic.Average, symbolic.FiniteDifference, symbolic.ExactDifferential, symbolic.InexactDifferential]
    groups = {}
    for name in sorted(dir(catalogue_symbols)):
        o = getattr(catalogue_symbols, name)
        if isinstance(o, DimensionSymbol) and isinstance(o, sympy.Symbol):
            groups.setdefault(str(o), []).append(o)
    alike = [v for _k, v in sorted(groups.items()) if len({str(o.dimension) for o in v}) > 1]
    plan = []
    for v in alike:
        cls = rng.choice(classes)
        members = list(v)
        rng.shuffle(members)
        for o in members:
            plan.append((cls, o))
        a, b = members[0], members[1]
        other = rng.choice(alike)
        cls2 = rng.choice(classes)
        plan.append((cls2, a * other[0]))
        plan.append((cls2, b * other[-1]))
    for _ in range(n_random):
        g = Gen(rng, 0.0)
        vec, _a = rand_dimvec(rng)
        plan.append((rng.choice(classes), g.expr(vec, rng.choice([0, 1, 2]))))
    built = []
    for cls, arg in plan:
        try:
            lit = sexpr_lit(arg)
        except (qx.Unsupported, Exception):  # pylint: disable=broad-except
            continue
        try:
            w = cls(arg)
        except Exception as e:  # pylint: disable=broad-except
            built.append((cls, arg, lit, None, f"{type(e).__name__}: {e}"[:160]))
            continue
        built.append((cls, arg, lit, w, ""))
    cases = []
    for cls, arg, lit, w, msg in built:     # observed only after EVERY wrapper has been constructed
        if w is None:
            olit, obs = "None", ("err", msg)
        else:
            try:
                obs = ("ok", qx.dim_vec(w.dimension))
            except qx.Unsupported:
                continue
            olit = f"(Some {qx.dim_lit(obs[1])})"
            if sympy.sympify(w.factor) != sympy.sympify(arg):
                ctx.violation(f"C06:wrapper-arg:{cls.__name__}({arg})"[:300],
                    f"{cls.__name__}({arg}) no longer carries the argument it was built from: factor is {w.factor}",
                    {"kind": "violation", "stream": "wrappers", "sequence": [f"{c.__name__}({a})" for c, a, *_ in built][:200],
                     "wrapper": f"{cls.__name__}({arg})", "observed_factor": str(w.factor), "srepr_argument": sympy.srepr(arg)[:1000]})
        cases.append({"lit": f"({lit}, {olit})", "desc": f"{cls.__name__}({arg})"[:300], "obs": obs, "arg": arg})
    # wrappers are leaves of larger expressions: two wrappers of one class over DIFFERENT arguments are different objects even when
    # the arguments print alike, so their sum / quotient is judged like the sum / quotient of two distinct dimensioned symbols
    # (a sum of a wrapped temperature and a wrapped period is refused, their quotient is temperature/time)
    from symplyphysics.core.dimensions import collect_expression_and_dimension as ce  # pylint: disable=import-outside-toplevel
    from symplyphysics.core.dimensions.miscellaneous import is_any_dimension  # pylint: disable=import-outside-toplevel
    combos = []
    ok = [(cls, arg, w) for cls, arg, _lit, w, _m in built if w is not None and isinstance(arg, sympy.Symbol)]
    for (c1, a1, w1), (c2, a2, w2) in zip(ok, ok[1:]):
        if c1 is not c2 or a1 is a2 or str(a1) != str(a2):
            continue
        try:
            d1, d2 = qx.dim_lit(qx.dim_vec(a1.dimension)), qx.dim_lit(qx.dim_vec(a2.dimension))
        except qx.Unsupported:
            continue
        for how, build, intended in (("+", lambda x, y: x + y, f"(SAdd [(SDimSym {d1}); (SDimSym {d2})])"),
                                     ("/", lambda x, y: x / y, f"(SMul [(SDimSym {d1}); (SPow (SDimSym {d2}) (SNum (VQ ((-1) # 1))))])")):
            try:
                out, dim = ce(build(w1, w2))
                obs = ("ok", qx.dim_vec(dim))
                olit = f"(Ok (VSym, {qx.dim_lit(obs[1])}))"
                anyb = "(Some true)" if is_any_dimension(out) else "(Some false)"
            except qx.Unsupported:
                continue
            except Exception as e:  # pylint: disable=broad-except
                obs = ("err", qx.err_class(e), f"{type(e).__name__}: {e}"[:160])
                olit, anyb = f"(Err {obs[1]}%N)", "None"
            combos.append({"lit": f"({intended}, {olit}, {anyb})", "obs": obs,
                "desc": f"{c1.__name__}({a1}) {how} {c1.__name__}({a2})  [arguments printed alike, dimensions {a1.dimension} and {a2.dimension}]"})
    ctx.coverage["wrapper_combinations"] = len(combos)
    bad = coqrun.eval_cases(ctx, "wrapper_combos", PREAMBLE, [c["lit"] for c in combos],
        "fun c : sexpr * eres * option bool => let '(e, o, b) := c in eres_eqb (infer_e e) o b", case_type="sexpr * eres * option bool") if combos else []
    for i in bad[:10]:
        c = combos[i]
        ctx.violation(f"C06:wrapper-combo:{c['desc']}"[:300], f"two wrappers over different arguments are not treated as different leaves: {c['desc']} "
            f"gives {c['obs'][1:]}", {"kind": "violation", "stream": "wrappers", "expression": c["desc"], "gallina": c["lit"], "observed": str(c["obs"]),
            "theorem_or_tie": "correspondence CollectE.infer_e on the tree as written ~ collect_expression_and_dimension on wrappers"}, True)
    return cases


# ---------------------------------------------------------------------------------------------

STATIC = ["C06_unique_dim_ok_iff", "C06_unique_dim_refuses_iff", "C06_unique_dim_order_free", "C06_unique_dim_of_terms",
    "C06_add_dim", "C06_minmax_dim", "C06_child_error", "C06_mul_dim", "C06_pow_refuses_iff", "C06_pow_rational", "C06_pow_quantity",
    "C06_deriv_dim", "C06_deriv_dim2", "C06_fun_dim", "C06_leaves", "C06_zero_first_accepted",
    "C06_infer_then_collect", "C06_infer_then_quantity"]


def run(ctx):
    from symplyphysics.core.dimensions import collect_expression_and_dimension as ce  # pylint: disable=import-outside-toplevel
    from symplyphysics.core.dimensions.miscellaneous import is_any_dimension  # pylint: disable=import-outside-toplevel
    ctx.level = "proof"
    ctx.static(STATIC)
    ctx.trust("Coq 8.16.1 kernel incl. vm_compute (no native_compute)",
        "harness/props/c06.py sexpr_lit: SymPy tree -> sexpr serialiser (reads the tree as the inference receives it), harness/vp/qx.py canonicalisers",
        "SymPy's automatic evaluation before the inference sees the tree; dimsys_SI dependency tables",
        "oracle bit of SDeriv: whether SymPy's .diff of the function by the listed variables vanishes")
    ctx.assume("the inference looks at returned sub-expressions only through `is_any_dimension` (literal 0, +-oo, nan)")
    rng = ctx.rng
    n_valid, n_bad, n_boundary = ctx.pick(1300, 20000), ctx.pick(500, 7000), ctx.pick(100, 800)
    cases = []
    hist = {}
    tests = {"value_equal_checked": 0, "diagram_checked": 0}

    def add(expr, stream, gen=None):
        if stream != "boundary" and sympy.sympify(expr).has(sympy.zoo, sympy.nan, sympy.oo, -sympy.oo):
            # a generated sub-expression evaluated to 1/0 or similar: infinities inside deep trees are outside the modelled domain
            hist[(stream, "skipped-infinite-subexpression")] = hist.get((stream, "skipped-infinite-subexpression"), 0) + 1
            return
        try:
            lit = sexpr_lit(expr)
        except (qx.Unsupported, Exception):  # pylint: disable=broad-except
            hist[(stream, "unserialisable")] = hist.get((stream, "unserialisable"), 0) + 1
            return
        try:
            out, dim = ce(expr)
            obs = ("ok", bool(is_any_dimension(out)), qx.dim_vec(dim))
            olit = f"(Ok (VSym, {qx.dim_lit(obs[2])}))"
            # Min/Max: whether SymPy can decide the minimum (and return a literal 0) is outside the model
            top_minmax = isinstance(sympy.sympify(expr), (Min, Max))
            anyb = "None" if top_minmax else ("(Some true)" if obs[1] else "(Some false)")
        except qx.Unsupported:
            hist[(stream, "unsupported-dimension")] = hist.get((stream, "unsupported-dimension"), 0) + 1
            return
        except Exception as e:  # pylint: disable=broad-except
            obs = ("err", qx.err_class(e), f"{type(e).__name__}: {e}"[:200])
            olit = f"(Err {obs[1]}%N)"
            anyb = "None"
            out = dim = None
        c = {"lit": f"({lit}, {olit}, {anyb})", "expr": expr, "obs": obs, "stream": stream, "desc": str(expr)[:300]}
        cases.append(c)
        key = (stream, "ok" if obs[0] == "ok" else f"err{obs[1]}")
        hist[key] = hist.get(key, 0) + 1
        # dynamic supplements on the implementation (tests)
        if obs[0] == "ok" and (len(cases) % 4 == 0 or stream == "boundary"):
            try:
                with common.time_limit(10):
                    ve = value_equal(sympy.sympify(expr), sympy.sympify(out), rng)
            except Exception:  # pylint: disable=broad-except
                ve = None   # substitution made SymPy refuse (e.g. Min/Max of a complex number) or evaluation takes minutes: no verdict
            if ve is not None:
                tests["value_equal_checked"] += 1
                if ve is False:
                    ctx.violation(f"C06:value:{lit[:300]}", f"returned expression is not value-equal to the input: {c['desc'][:150]}",
                        {"kind": "violation", "expr": c["desc"], "returned": str(out)[:500], "srepr": sympy.srepr(expr)[:1500]})
            if gen is not None and not gen.has_deriv and not gen.has_dimensional_fun_arg and stream == "valid" and not any(
                    isinstance(a, sympy.core.function.AppliedUndef) for a in sympy.sympify(expr).atoms(sympy.Function)):
                try:
                    with common.time_limit(10):
                        why = diagram_holds(sympy.sympify(expr), dim, rng)
                except Exception:  # pylint: disable=broad-except
                    why = None
                tests["diagram_checked"] += 1
                if why:
                    ctx.violation(f"C06:diagram:{lit[:300]}", f"inference and evaluation on quantities disagree: {why}",
                        {"kind": "violation", "expr": c["desc"], "srepr": sympy.srepr(expr)[:1500], "observed": why})

    for _ in range(n_valid):
        g = Gen(rng, 0.0)
        vec, _a = rand_dimvec(rng)
        add(g.expr(vec, rng.choice([1, 2, 3, 4])), "valid", g)
    for _ in range(n_bad):
        g = Gen(rng, 0.25)
        vec, _a = rand_dimvec(rng)
        add(g.expr(vec, rng.choice([2, 3, 4])), "malformed", g)
    for i in range(n_boundary):
        add(boundary(rng, i), "boundary")   # every curated case is run (cyclically)

    bad = coqrun.eval_cases(ctx, "infer", PREAMBLE, [c["lit"] for c in cases],
        "fun c : sexpr * eres * option bool => let '(e, o, b) := c in eres_eqb (infer_e e) o b", case_type="sexpr * eres * option bool")
    for i in bad[:40]:
        c = cases[i]
        why = spec_contradicted(c["expr"], c["obs"])
        key = f"C06:{c['stream']}:{c['lit'][:300]}"
        replay = {"kind": "disagreement", "stream": c["stream"], "expr": c["desc"], "srepr": sympy.srepr(c["expr"])[:2000],
            "gallina": c["lit"], "observed": str(c["obs"]), "theorem_or_tie": "correspondence CollectE.v ~ collect_expression_and_dimension"}
        if why:
            replay["expected"] = why
            ctx.violation(key, f"dimension inference contradicts the property on {c['desc'][:120]}: {why}", replay, True)
        else:
            ctx.violation(key, f"model and implementation disagree on {c['desc'][:120]}", replay, False)
    wcases = wrapper_stream(ctx, ctx.pick(150, 2000))
    badw = coqrun.eval_cases(ctx, "wrappers", PREAMBLE, [c["lit"] for c in wcases],
        "fun c : sexpr * option dim => match infer_e (fst c), snd c with Ok (_, d) , Some d2 => deqb d d2 "
        "| Err _, None => true | _, _ => false end", case_type="sexpr * option dim")
    for i in badw[:20]:
        c = wcases[i]
        try:
            inferred = qx.dim_vec(ce(c["arg"])[1])
        except Exception as e:  # pylint: disable=broad-except
            inferred = f"{type(e).__name__}: {e}"[:120]
        ctx.violation(f"C06:wrapper:{c['desc']}", f"wrapper {c['desc'][:120]} has dimension {c['obs'][1]}, inference on its own argument gives {inferred}",
            {"kind": "violation", "stream": "wrappers", "wrapper": c["desc"], "gallina": c["lit"], "observed": str(c["obs"]),
             "inferred_for_argument": str(inferred), "theorem_or_tie": "correspondence CollectE.infer_e(argument) ~ Symbolic(argument).dimension after a "
             "sequence of wrapper constructions"}, True)
    hist[("wrappers", "compared")] = len(wcases)
    distinct = len({c["lit"] for c in cases if any(k in c["lit"] for k in ("SMul", "SAdd", "SPow", "SFun", "SDeriv", "SMin", "SMax")) or c["obs"][0] == "err"})
    ctx.evaluated(len(cases) + len(wcases), distinct + len({c["lit"] for c in wcases}))
    for c in cases[:2] + [c for c in cases if c["stream"] == "malformed"][:2] + [c for c in cases if c["stream"] == "boundary"][:2]:
        ctx.sample({"stream": c["stream"], "expr": c["desc"][:200], "observed": str(c["obs"])[:200]})
    ctx.coverage["histogram"] = {f"{k[0]}:{k[1]}": v for k, v in sorted(hist.items())}
    ctx.coverage["disagreements"] = len(bad)
    ctx.coverage["tests_on_implementation"] = tests
    ctx.coverage["rule"] = ("seeded trees (depth <= 4) over dimensioned symbols (random declared dimensions), Average/FiniteDifference wrappers, "
        "quantities incl. zero-scale, numbers incl. 0, applied dimensioned functions, derivatives, sin/cos/exp/log, + * ** Abs Min Max; "
        "malformed stream (inequivalent sums / min / max, dimensional exponents); boundary stream (zero quantity first, oo/nan, 0 + x, 2 + x). "
        "wrapper stream: sequences of Average/FiniteDifference/differential constructions over the catalogue symbols that are printed alike "
        "with different dimensions (45 groups) and over generated expressions, observed after the whole sequence. "
        "distinct = distinct Gallina literals; non-trivial = has a compound node or is refused")


def replay(ctx, rep):
    print(rep.get("expr"), rep.get("observed"), rep.get("expected"))
    return 0
