"""C15 -- experimental coordinate conversions are consistent and geometry-preserving.

static theorems : coq/theories/Properties/C15.v   (about Model/ExpCoords.v, proved in Proofs/ExpCoordsProofs.v)
tie             : translator.  Each table returned by the code (express_base_scalars and express_base_vectors for all
                  nine ordered pairs of systems, convert_point and convert_vector on generic coordinates/components,
                  lame_coefficients / jacobian) is serialised with sx.py into a Coq definition `impl_*` and a generated
                  lemma `corr_*` states impl_* = model formula.  Round trips, via-third identities, inverse base-vector
                  tables and position preservation are then COMPOSED inside Coq on the impl_* definitions (`comp_*`).
                  Base vectors are treated as linear forms: a combination of the new base vectors is translated with the
                  base vectors as three arbitrary reals, and equality for all such reals is equality of coefficients.
                  The dispatch fall-through table is enumerated exhaustively and compared by vm_compute.
search          : specification predicates written from the property text (Cartesian positions and unit vectors computed
                  with python's math, derivatives by central differences), evaluated on the real code at seeded regular
                  points; concrete runs of convert_point / convert_vector are also compared with the generic output."""
from __future__ import annotations

import itertools
import math

import sympy as sp

from vp import coqrun, sx
from props.c11 import num, close, rnd, away

STATIC = [
    "scalars_roundtrip", "direct_equals_via_third", "conversion_stays_regular",
    "basis_matrix_orthonormal", "basis_inverse", "basis_direct_equals_via_third",
    "convert_point_preserves_cartesian", "convert_point_roundtrip",
    "convert_vector_preserves_cartesian_components", "convert_vector_roundtrip",
    "position_derivatives", "lame_is_norm_of_position_derivative", "coordinate_lines_orthogonal",
    "dispatch_table_iff", "dispatch_identity_iff",
]

PREAMBLE = """Set Warnings "-ambiguous-paths,-typechecker".
From Coq Require Import Reals Lra Lia Psatz Field List ZArith Bool.
From VP Require Import Base.Util Base.RTac Base.Atan2 Model.ExpCoords Proofs.CoordsProofs Proofs.ExpCoordsProofs.
Import ListNotations.
Local Open Scope R_scope.
"""

SYSN = ["ECart", "ECyl", "ESph"]
LOW = ["cart", "cyl", "sph"]
PAIRS = [(a, b) for a in range(3) for b in range(3)]
NONTRIVIAL = [(a, b) for (a, b) in PAIRS if a != b]


class Api:
    def __init__(self):
        # pylint: disable=import-outside-toplevel
        from symplyphysics.core.experimental import coordinate_systems as cs
        from symplyphysics.core.experimental.points import AppliedPoint
        from symplyphysics.core.experimental.vectors import AppliedVectorFunction, VectorSymbol
        self.cs = cs
        self.AppliedPoint = AppliedPoint
        self.AVF = AppliedVectorFunction
        self.VS = VectorSymbol
        self.classes = [cs.CartesianCoordinateSystem, cs.CylindricalCoordinateSystem, cs.SphericalCoordinateSystem]
        self.old = [k() for k in self.classes]      # "old" instances
        self.new = [k() for k in self.classes]      # distinct "new" instances (same-kind conversions are between instances)

    def view(self, old, new):
        """the same API on other system objects"""
        import copy  # pylint: disable=import-outside-toplevel
        v = copy.copy(self)
        v.old, v.new = list(old), list(new)
        return v

    CUSTOM_MODES = [False, "fields", "names", "order", "names_order"]

    def fresh(self, custom=False):
        """the same API on system objects nobody has used yet.  custom: False = default constructors; otherwise systems
        constructed with user-supplied base scalars and base vectors (vector FIELDS declared with a formal point argument,
        as test_coordinate_systems.py does): 'fields' = natural labels; 'names' = display names of the scalars permuted /
        taken from another convention (the library is positional); 'order' = scalars created in reverse order of their
        position; 'names_order' = both"""
        if not custom:
            return self.view([k() for k in self.classes], [k() for k in self.classes])
        if custom is True:
            custom = "fields"
        return self.view(self.custom_systems(custom), self.custom_systems(custom))

    def custom_systems(self, mode="fields"):
        # pylint: disable=import-outside-toplevel
        from symplyphysics import Symbol, units, angle_type
        from symplyphysics.core.experimental.vectors import VectorFunction, VectorSymbol
        L, A = units.length, angle_type
        perm = "names" in mode
        rev = "order" in mode
        labels = {0: ["ux", "uy", "uz"] if not perm else ["y", "x", "z"],                    # Cartesian: x <-> y
                  1: ["urho", "uphi", "uzz"] if not perm else ["z", "rho", "phi"],           # cylindrical: rotated labels
                  2: ["ur", "utheta", "uph"] if not perm else ["r", "phi", "theta"]}         # spherical: mathematics convention
        specs = {0: [(L, {"real": True})] * 3,
                 1: [(L, {"nonnegative": True}), (A, {"real": True}), (L, {"real": True})],
                 2: [(L, {"nonnegative": True}), (A, {"nonnegative": True}), (A, {"real": True})]}

        def scalars(kind):
            idx = [2, 1, 0] if rev else [0, 1, 2]            # creation order
            made = {}
            for i in idx:
                dim, kw = specs[kind][i]
                made[i] = Symbol(labels[kind][i], dim, **kw)
            return [made[0], made[1], made[2]]
        cart = self.classes[0](base_scalars=scalars(0), base_vectors=[VectorSymbol("ui"), VectorSymbol("uj"), VectorSymbol("uk")])
        formal = self.AppliedPoint(cart.base_scalars, cart)        # "the generic point P"
        cyl = self.classes[1](base_scalars=scalars(1),
            base_vectors=[VectorFunction("ue_rho", arguments=(formal,)), VectorFunction("ue_phi", arguments=(formal,)), VectorSymbol("ue_z")])
        sph = self.classes[2](base_scalars=scalars(2),
            base_vectors=[VectorFunction("ue_r", arguments=(formal,)), VectorFunction("ue_theta", arguments=(formal,)),
                          VectorFunction("ue_ph", arguments=(formal,))])
        return [cart, cyl, sph]

    def at_counter_boundary(self, kind, offset):
        """a default-constructed system of `kind` whose three automatically named base scalars straddle the next power
        of ten of the library's symbol counter (SYM999, SYM1000, SYM1001 ...): the counter is only ever moved FORWARD"""
        from symplyphysics.core.symbols import id_generator as ig  # pylint: disable=import-outside-toplevel
        cur = ig._ids.get("SYM", 0)  # pylint: disable=protected-access
        power = 10
        while power - 3 <= cur:
            power *= 10
        ig._ids["SYM"] = power - offset  # pylint: disable=protected-access
        sys_ = self.classes[kind]()
        return sys_, [str(b.name) for b in sys_.base_scalars]

    @staticmethod
    def bvs_at(system, point):
        """the base vectors of `system` attached to `point`, built WITHOUT system.base_vectors()"""
        return [bv(point) if callable(bv) else bv for bv in system.args[1]]

    def make_point(self, coords, system, kind="list"):
        """AppliedPoint from every kind of iterable its signature admits"""
        c = list(coords)
        if kind == "list":
            it = c
        elif kind == "tuple":
            it = tuple(c)
        elif kind == "dict_values":
            it = {i: x for i, x in enumerate(c)}.values()
        elif kind == "generator":
            it = (x for x in c)
        elif kind == "map":
            it = map(lambda x: x, c)
        elif kind == "iterator":
            it = iter(c)
        elif kind == "range":
            it = range(int(c[0]), int(c[0]) + 3)
        else:
            raise ValueError(kind)
        return self.AppliedPoint(it, system)

    # -- helpers ---------------------------------------------------------------------------------------------
    def vec_atoms(self, expr):
        expr = sp.sympify(expr)
        return set(expr.atoms(self.VS)) | set(expr.find(lambda e: isinstance(e, self.AVF)))

    def linear_coeffs(self, expr, system, E, point):
        """replace the base vectors of `system` APPLIED AT `point` by the symbols E; any other vector-valued atom
        (a base vector of another system, or of this system attached to another point) is an error"""
        expr = sp.sympify(expr)
        rep = dict(zip(self.bvs_at(system, point), E))
        out = expr.xreplace(rep)
        stray = self.vec_atoms(out)
        if stray:
            raise sx.Unsupported(f"vector atoms {sorted(map(str, stray))} are not base vectors of the new system at {point}")
        return out

    # -- legs ---------------------------------------------------------------------------------------------------
    def scal(self, a, b, q):
        A, B = self.old[a], self.new[b]
        m = self.cs.express_base_scalars(A, B)
        if list(m.keys()) != list(A.base_scalars):
            raise AssertionError(f"keys {list(m.keys())} are not the old base scalars in order")
        rep = dict(zip(B.base_scalars, map(sp.sympify, q)))
        return [sp.sympify(m[s]).xreplace(rep) for s in A.base_scalars]

    def bvec(self, a, b, q, E):
        """three expressions: old base vector i as a combination of E (standing for the new base vectors), at new scalars q"""
        A, B = self.old[a], self.new[b]
        g = sp.symbols("g0:3")
        pa = self.AppliedPoint(g, A)
        pb = self.AppliedPoint(g, B)
        m = self.cs.express_base_vectors(A, B, old_args=(pa,), new_args=(pb,))
        olds = self.bvs_at(A, pa)
        if list(m.keys()) != list(olds):
            raise AssertionError(f"keys {list(m.keys())} are not the old base vectors at the old point, in order")
        rep = dict(zip(B.base_scalars, map(sp.sympify, q)))
        return [self.linear_coeffs(m[o], B, E, pb).xreplace(rep) for o in olds]

    def cpoint(self, a, b, p, kind="list"):
        A, B = self.old[a], self.new[b]
        pa = self.make_point(p, A, kind)
        if list(pa.coordinates.keys()) != list(A.base_scalars):
            raise AssertionError(f"a point built from a {kind} has coordinates {pa.coordinates} instead of one per base scalar")
        before = dict(pa.coordinates)
        out = self.cs.convert_point(pa, B)
        if dict(pa.coordinates) != before or pa.system is not A:
            raise AssertionError("convert_point changed its argument point")
        if out.system is not B or list(out.coordinates.keys()) != list(B.base_scalars):
            raise AssertionError("converted point is not expressed in the new system's scalars in order")
        return [out.coordinates[s] for s in B.base_scalars]

    FORMS = ["flat", "irrational_factor", "symbolic_factor", "divided", "nested", "unevaluated"]

    def vector_expr(self, form, c, e, t):
        """the vector c.e written in an algebraically equivalent, not necessarily flat, form (t: a free positive number)"""
        c = [sp.sympify(x) for x in c]
        flat = c[0] * e[0] + c[1] * e[1] + c[2] * e[2]
        if form == "flat":
            return flat
        if form == "irrational_factor":
            r = sp.sqrt(2)
            return r * (c[0] / r * e[0] + c[1] / r * e[1] + c[2] / r * e[2])
        if form == "symbolic_factor":
            return t * (c[0] / t * e[0] + c[1] / t * e[1] + c[2] / t * e[2])
        if form == "divided":
            r = sp.sqrt(3)
            return (c[0] * r * e[0] + c[1] * r * e[1] + c[2] * r * e[2]) / r
        if form == "nested":
            return c[0] * e[0] + sp.pi * (c[1] / sp.pi * e[1] + t * (c[2] / (sp.pi * t) * e[2]))
        if form == "generic_nested":        # components (c0, c1, c1*c2)
            return c[0] * e[0] + c[1] * (e[1] + c[2] * e[2])
        if form == "unevaluated":
            return sp.Mul(sp.Integer(2), sp.Add(c[0] / 2 * e[0], c[1] / 2 * e[1], c[2] / 2 * e[2], evaluate=False), evaluate=False)
        raise ValueError(form)

    def cvec(self, a, b, c, p, E, form="flat", t=None):
        A, B = self.old[a], self.new[b]
        pa = self.AppliedPoint(list(p), A)
        e = self.bvs_at(A, pa)
        vec = self.vector_expr(form, c, e, sp.Symbol("t", positive=True) if t is None else t)
        before = dict(pa.coordinates)
        out = self.cs.convert_vector(vec, pa, B)
        if dict(pa.coordinates) != before:
            raise AssertionError("convert_vector changed its argument point")
        return self.linear_coeffs(out, B, E, self.cs.convert_point(pa, B))

    def lame(self, a, q):
        A = self.old[a]
        rep = dict(zip(A.base_scalars, map(sp.sympify, q)))
        return [sp.sympify(h).xreplace(rep) for h in A.lame_coefficients]

    def jacobian(self, a, q):
        A = self.old[a]
        return sp.sympify(A.jacobian).xreplace(dict(zip(A.base_scalars, map(sp.sympify, q))))


# ---------------------------------------------------------------------------------------------------------
# specification side (python floats; written from the mathematics, independent of the code's tables)
# ---------------------------------------------------------------------------------------------------------

def m_pos(s, q):
    a, b, c = q
    if s == 0:
        return (a, b, c)
    if s == 1:
        return (a * math.cos(b), a * math.sin(b), c)
    return (a * math.sin(b) * math.cos(c), a * math.sin(b) * math.sin(c), a * math.cos(b))


def m_coords(s, x):
    """coordinates in system s of the Cartesian point x (principal angles)"""
    x1, x2, x3 = x
    if s == 0:
        return (x1, x2, x3)
    if s == 1:
        return (math.hypot(x1, x2), math.atan2(x2, x1), x3)
    r = math.sqrt(x1 * x1 + x2 * x2 + x3 * x3)
    return (r, math.acos(x3 / r), math.atan2(x2, x1))


def m_frame(s, q):
    """unit vectors of system s at the point with s-coordinates q, as Cartesian triples"""
    if s == 0:
        return [(1.0, 0.0, 0.0), (0.0, 1.0, 0.0), (0.0, 0.0, 1.0)]
    if s == 1:
        f = q[1]
        return [(math.cos(f), math.sin(f), 0.0), (-math.sin(f), math.cos(f), 0.0), (0.0, 0.0, 1.0)]
    t, f = q[1], q[2]
    return [(math.sin(t) * math.cos(f), math.sin(t) * math.sin(f), math.cos(t)),
            (math.cos(t) * math.cos(f), math.cos(t) * math.sin(f), -math.sin(t)),
            (-math.sin(f), math.cos(f), 0.0)]


def gen_regular(rng, s):
    if s == 0:
        return [away(rng), away(rng), away(rng)]
    if s == 1:
        return [rnd(rng, 0.2, 3.0), rnd(rng, -3.0, 3.0), away(rng)]
    return [rnd(rng, 0.2, 3.0), rnd(rng, 0.15, 2.9), rnd(rng, -3.0, 3.0)]


def fl(vals):
    return [sp.Float(v, 30) for v in vals]


def matmul(a, b):
    return [[sum(a[i][k] * b[k][j] for k in range(3)) for j in range(3)] for i in range(3)]


def det3(m):
    return (m[0][0] * (m[1][1] * m[2][2] - m[1][2] * m[2][1]) - m[0][1] * (m[1][0] * m[2][2] - m[1][2] * m[2][0])
            + m[0][2] * (m[1][0] * m[2][1] - m[1][1] * m[2][0]))


IDENT = [1.0, 0.0, 0.0, 0.0, 1.0, 0.0, 0.0, 0.0, 1.0]


def flat(m):
    return [x for r in m for x in r]


class FreshProxy:
    """delegates to an Api on system objects that are renewed before every predicate evaluation, so that a
    specification predicate never depends on what was converted before (histories are the business of `history_stream`)"""

    def __init__(self, base):
        self._base = base
        self._cur = base.fresh()

    def renew(self, custom=False):
        self._cur = self._base.fresh(custom)

    def __getattr__(self, name):
        return getattr(self._cur, name)


def spec_checks(base_api: Api):
    api = FreshProxy(base_api)
    checks = _spec_checks(api)

    def wrap(pred):
        def w(inp):
            api.renew(inp.get("custom") or False)
            return pred(inp)
        return w
    def wrapg(g):
        def w(rng):
            inp = g(rng)
            inp["custom"] = rng.choice(Api.CUSTOM_MODES)   # how the systems are constructed (see Api.fresh)
            return inp
        return w
    return {k: (wrapg(g), wrap(p)) for k, (g, p) in checks.items()}


def _spec_checks(api):
    checks = {}
    E = sp.symbols("E0:3")

    def nscal(a, b, q):
        return [num(e) for e in api.scal(a, b, fl(q))]

    def nmat(a, b, q):
        """numeric 3x3: row i = coefficients of old base vector i in the new ones at new scalars q"""
        rows = api.bvec(a, b, fl(q), E)
        return [[num(r.xreplace({E[j]: 1 if j == k else 0 for j in range(3)})) for k in range(3)] for r in rows]

    for (a, b) in NONTRIVIAL:
        def gen_rt(rng, a=a):
            return {"coords": gen_regular(rng, a)}

        def pred_rt(inp, a=a, b=b):
            q = inp["coords"]
            there = nscal(b, a, q)
            back = nscal(a, b, there)
            return close(back, q), {"there": there, "back": back}, {"back": q}
        checks[f"scalars_roundtrip_{LOW[a]}_{LOW[b]}"] = (gen_rt, pred_rt)

        def gen_m(rng, b=b):
            return {"coords_new": gen_regular(rng, b)}

        def pred_orth(inp, a=a, b=b):
            m = nmat(a, b, inp["coords_new"])
            mt = [list(r) for r in zip(*m)]
            got = flat(matmul(m, mt)) + [det3(m)]
            return close(got, IDENT + [1.0]), {"M": m, "M*Mt,det": got}, {"M*Mt": "identity", "det": 1}
        checks[f"basis_orthonormal_{LOW[a]}_{LOW[b]}"] = (gen_m, pred_orth)

        def pred_inv(inp, a=a, b=b):
            q = inp["coords_new"]
            m = nmat(a, b, q)
            n = nmat(b, a, nscal(a, b, q))
            got = flat(matmul(m, n))
            return close(got, IDENT), {"M_ab": m, "M_ba": n, "product": got}, {"product": "identity"}
        checks[f"basis_inverse_{LOW[a]}_{LOW[b]}"] = (gen_m, pred_inv)

        def gen_p(rng, a=a):
            return {"coords": gen_regular(rng, a), "components": [away(rng), away(rng), away(rng)]}

        def pred_point(inp, a=a, b=b):
            p = inp["coords"]
            out = [num(e) for e in api.cpoint(a, b, fl(p))]
            want = m_pos(a, p)
            return close(list(m_pos(b, out)), list(want)), {"new_coordinates": out, "their_cartesian_position": list(m_pos(b, out))}, \
                {"cartesian_position": list(want)}
        checks[f"convert_point_{LOW[a]}_{LOW[b]}"] = (gen_p, pred_point)

        def pred_vec(inp, a=a, b=b):
            p, c = inp["coords"], inp["components"]
            out = api.cvec(a, b, fl(c), fl(p), E)
            newc = [num(out.xreplace({E[j]: 1 if j == k else 0 for j in range(3)})) for k in range(3)]
            newp = [num(e) for e in api.cpoint(a, b, fl(p))]
            fa, fb = m_frame(a, p), m_frame(b, newp)
            want = [sum(c[i] * fa[i][k] for i in range(3)) for k in range(3)]
            got = [sum(newc[i] * fb[i][k] for i in range(3)) for k in range(3)]
            return close(got, want), {"new_components": newc, "new_point": newp, "their_cartesian_components": got}, \
                {"cartesian_components": want}
        checks[f"convert_vector_{LOW[a]}_{LOW[b]}"] = (gen_p, pred_vec)

    for (a, b) in PAIRS:
        def gen_f(rng, a=a):
            return {"coords": gen_regular(rng, a), "components": [away(rng), away(rng), away(rng)],
                    "form": rng.choice(Api.FORMS[1:]), "t": rnd(rng, 0.3, 2.5)}

        def pred_f(inp, a=a, b=b):
            p, c = inp["coords"], inp["components"]
            unit = lambda k: {E[j]: 1 if j == k else 0 for j in range(3)}
            flat = api.cvec(a, b, fl(c), fl(p), E, "flat")
            other = api.cvec(a, b, fl(c), fl(p), E, inp["form"], sp.Float(inp["t"], 30))
            want = [num(flat.xreplace(unit(k))) for k in range(3)]
            got = [num(other.xreplace(unit(k))) for k in range(3)]
            newp = [num(e) for e in api.cpoint(a, b, fl(p))]
            fa, fb = m_frame(a, p), m_frame(b, newp)
            cart_want = [sum(c[i] * fa[i][k] for i in range(3)) for k in range(3)]
            cart_got = [sum(got[i] * fb[i][k] for i in range(3)) for k in range(3)]
            return close(got, want) and close(cart_got, cart_want), {"new_components": got, "their_cartesian_components": cart_got}, \
                {"new_components_of_the_flat_form": want, "cartesian_components": cart_want}
        checks[f"convert_vector_forms_{LOW[a]}_{LOW[b]}"] = (gen_f, pred_f)

        def gen_i(rng, a=a):
            kind = rng.choice(["tuple", "dict_values", "generator", "map", "iterator", "range"])
            coords = gen_regular(rng, a) if kind != "range" else [1, 2, 3]
            return {"coords": coords, "kind": kind}

        def pred_i(inp, a=a, b=b):
            ref = [num(e) for e in api.cpoint(a, b, fl(inp["coords"]) if inp["kind"] != "range" else inp["coords"], "list")]
            got = [num(e) for e in api.cpoint(a, b, fl(inp["coords"]) if inp["kind"] != "range" else inp["coords"], inp["kind"])]
            return close(got, ref), {"converted_from_" + inp["kind"]: got}, {"converted_from_list": ref}
        checks[f"point_iterables_{LOW[a]}_{LOW[b]}"] = (gen_i, pred_i)

    ANGLES = ["pi/5", "pi/8", "3*pi/8", "pi/10", "pi/12", "2*pi/5", "pi/7", "5*pi/12", "3*pi/5", "7*pi/8"]

    def exact_coords(rng, a):
        """exact coordinates (strings, so that a replay file can carry them) whose sines / cosines are nested radicals"""
        r, t, f = str(rng.choice([1, 2, 3, 5])), rng.choice(ANGLES), rng.choice(ANGLES + ["-" + x for x in ANGLES[:4]])
        if a == 2:
            return [r, t, f]
        if a == 1:
            return [r, f, str(rng.choice([-2, 1, 3]))]
        return [f"{r}*sin({t})*cos({f})", f"{r}*sin({t})*sin({f})", f"{r}*cos({t})"]

    for (a, b) in NONTRIVIAL:
        def gen_x(rng, a=a, b=b):
            return {"coords_exact": exact_coords(rng, a), "components": [rng.choice([-3, -1, 2, 5]) for _ in range(3)],
                    "via": [c for c in range(3) if c not in (a, b)][0]}

        def pred_x(inp, a=a, b=b):
            p = [sp.sympify(x) for x in inp["coords_exact"]]
            c = [sp.Integer(x) for x in inp["components"]]
            unit = lambda k: {E[j]: 1 if j == k else 0 for j in range(3)}
            direct = api.cvec(a, b, c, p, E)          # its base vectors must be attached to convert_point(p, b) itself
            got = [num(direct.xreplace(unit(k))) for k in range(3)]
            m = inp["via"]
            hop1 = api.cvec(a, m, c, p, E)
            c1 = [hop1.xreplace(unit(k)) for k in range(3)]
            p1 = api.cpoint(a, m, p)
            hop2 = api.cvec(m, b, c1, p1, E)
            two = [num(hop2.xreplace(unit(k))) for k in range(3)]
            pf = [num(x) for x in p]
            newp = [num(e) for e in api.cpoint(a, b, p)]
            fa, fb = m_frame(a, pf), m_frame(b, newp)
            cart_want = [sum(inp["components"][i] * fa[i][k] for i in range(3)) for k in range(3)]
            cart_got = [sum(got[i] * fb[i][k] for i in range(3)) for k in range(3)]
            return close(cart_got, cart_want) and close(two, got), {"direct_components": got, "two_hop_components": two, "cartesian_components": cart_got}, \
                {"cartesian_components": cart_want, "two_hop": "equal to direct"}
        checks[f"convert_vector_exact_{LOW[a]}_{LOW[b]}"] = (gen_x, pred_x)

    for (a, b) in PAIRS:
        def gen_s(rng, a=a):
            return {"coords": gen_regular(rng, a), "components": [away(rng), away(rng), away(rng)],
                    "scale": rng.choice(["1e-15", "1e-20", "1e+15", "3e-13", "1/10**18", "1/10**25"])}

        def pred_s(inp, a=a, b=b):
            unit = lambda k: {E[j]: 1 if j == k else 0 for j in range(3)}
            sc = sp.sympify(inp["scale"]) if "/" in inp["scale"] else sp.Float(inp["scale"])
            p = [sp.Float(v) for v in inp["coords"]]
            base = api.cvec(a, b, [sp.Float(v) for v in inp["components"]], p, E)
            scaled = api.cvec(a, b, [sp.Float(v) * sc for v in inp["components"]], p, E)
            want = [num(base.xreplace(unit(k))) for k in range(3)]
            got = [num(scaled.xreplace(unit(k)) / sc) for k in range(3)]
            return close(got, want), {"components_of_scaled_vector_divided_by_scale": got}, {"components_of_the_order_one_vector": want}
        checks[f"convert_vector_scaling_{LOW[a]}_{LOW[b]}"] = (gen_s, pred_s)

    for a in range(3):
        def gen_b(rng, a=a):
            return {"coords": gen_regular(rng, a)}

        def pred_b(inp, a=a):
            A = api.old[a]
            pt = api.AppliedPoint(fl(inp["coords"]), A)
            got = list(A.base_vectors(pt))
            want = Api.bvs_at(A, pt)
            return got == want, {"base_vectors(point)": [str(x) for x in got]}, {"attached_to_the_point_asked_for": [str(x) for x in want]}
        checks[f"base_vectors_at_point_{LOW[a]}"] = (gen_b, pred_b)

    for (a, b, c) in itertools.permutations(range(3), 3):
        def gen_t(rng, c=c):
            return {"coords": gen_regular(rng, c)}

        def pred_t(inp, a=a, b=b, c=c):
            q = inp["coords"]
            direct = nscal(a, c, q)
            via = nscal(a, b, nscal(b, c, q))
            m_direct = flat(nmat(a, c, q))
            m_via = flat(matmul(nmat(a, b, nscal(b, c, q)), nmat(b, c, q)))
            return close(via, direct) and close(m_via, m_direct), {"direct": direct, "via_third": via, "M_direct": m_direct, "M_via": m_via}, \
                {"via_third": "equal to direct"}
        checks[f"via_third_{LOW[a]}_{LOW[b]}_{LOW[c]}"] = (gen_t, pred_t)

    for a in range(3):
        def gen_l(rng, a=a):
            return {"coords": gen_regular(rng, a)}

        def pred_l(inp, a=a):
            q = inp["coords"]
            got = [num(e) for e in api.lame(a, fl(q))]
            h = 1e-6
            want = []
            for i in range(3):
                qp, qm = list(q), list(q)
                qp[i] += h
                qm[i] -= h
                d = [(x - y) / (2 * h) for x, y in zip(m_pos(a, qp), m_pos(a, qm))]
                want.append(math.sqrt(sum(x * x for x in d)))
            ok = all(abs(x - y) <= 1e-6 * (1 + abs(y)) for x, y in zip(got, want))
            jac = num(api.jacobian(a, fl(q)))
            ok = ok and abs(jac - got[0] * got[1] * got[2]) <= 1e-9 * (1 + abs(jac))
            return ok, {"lame": got, "jacobian": jac}, {"norms_of_position_derivatives": want}
        checks[f"lame_{LOW[a]}"] = (gen_l, pred_l)
    return checks


# ---------------------------------------------------------------------------------------------------------
# translator
# ---------------------------------------------------------------------------------------------------------

def to_terms(exprs, symbols):
    rc = sx.RCtx(atoms=False)
    for s in symbols:
        rc.var(("sym", s), s)
    terms = [rc.term(sp.sympify(e)) for e in exprs]
    if len(rc.vars) != len(symbols):
        raise sx.Unsupported(f"unexpected free symbols {[str(rc.origin[v]) for v in rc.vars[len(symbols):]]}")
    return terms


class Gen:
    def __init__(self):
        self.defs, self.lemmas, self.legs, self.broken = [], [], {}, []

    def lemma(self, name, stmt, proof, item):
        self.lemmas.append(coqrun.Lemma(name, stmt, proof, item))


def v3(names):
    return "(" + ", ".join(names) + ")"


def build(api: Api, gen: Gen):
    xs = sp.symbols("a0:9")
    X = [f"x{i}" for i in range(9)]

    def leg(name, fn, item, ngroups, out, model, proof=None, hyp=None):
        """fn(*symbols) with 3*ngroups symbols, grouped as V3 binders u, v, w."""
        nsym = 3 * ngroups
        try:
            res = fn(*xs[:nsym])
            exprs = list(res) if out == "V3" else [res]
            if out == "V3" and len(exprs) != 3:
                raise sx.Unsupported(f"expected 3 components, got {len(exprs)}")
            terms = to_terms(exprs, xs[:nsym])
        except Exception as e:  # pylint: disable=broad-except
            gen.broken.append((name, f"{type(e).__name__}: {e}"))
            return False
        bn = ["u", "v", "w"][:ngroups]
        binders = " ".join(f"({b} : V3)" for b in bn)
        lets = "".join(f"let '{v3(X[3 * i:3 * i + 3])} := {b} in " for i, b in enumerate(bn))
        intro = " ".join(f"[[{X[3 * i]} {X[3 * i + 1]}] {X[3 * i + 2]}]" for i in range(ngroups))
        body = v3(terms) if out == "V3" else terms[0]
        gen.defs.append(f"Definition impl_{name} {binders} : {'V3' if out == 'V3' else 'R'} :=\n  {lets}{body}.")
        h = f"{hyp} -> " if hyp else ""
        stmt = f"forall {binders}, {h}impl_{name} {' '.join(bn)} = {model}"
        pr = proof or f"intros {intro}. unfold impl_{name}. vp_ecorr."
        pr = pr.replace("@INTRO@", intro).replace("@NAME@", f"impl_{name}")
        gen.lemma(f"corr_{name}", stmt, pr, item)
        gen.legs[name] = {"fn": fn, "exprs": exprs, "nsym": nsym, "out": out, "item": item}
        return True

    E = xs[3:6]
    for tag, ap in (("", api), ("u", api.fresh(custom="fields")), ("n", api.fresh(custom="names_order"))):
        what = {"": "", "u": " [systems built with user base scalars / base vector fields]",
                "n": " [user base scalars with permuted display names, created in reverse order]"}[tag]
        for (a, b) in PAIRS:
            na, nb = LOW[a], LOW[b]
            A, B = SYSN[a], SYSN[b]
            leg(f"{tag}scal_{na}_{nb}", lambda p, q, r, a=a, b=b, ap=ap: ap.scal(a, b, [p, q, r]),
                f"express_base_scalars({na}, {nb}){what}", 1, "V3", f"ExpCoords.scal {A} {B} u")
            for i in range(3):
                leg(f"{tag}bvec_{na}_{nb}_{i}",
                    lambda p, q, r, e0, e1, e2, a=a, b=b, i=i, ap=ap: ap.bvec(a, b, [p, q, r], [e0, e1, e2])[i],
                    f"express_base_vectors({na}, {nb}): old base vector {i}{what}", 2, "R", f"dotv (mrow {i} (bvec {A} {B} u)) v")
            leg(f"{tag}cpoint_{na}_{nb}", lambda p, q, r, a=a, b=b, ap=ap: ap.cpoint(a, b, [p, q, r]),
                f"convert_point({na} point, {nb}){what}", 1, "V3", f"convert_point {A} {B} u")
            leg(f"{tag}cvec_{na}_{nb}",
                lambda c0, c1, c2, p, q, r, e0, e1, e2, a=a, b=b, ap=ap: ap.cvec(a, b, [c0, c1, c2], [p, q, r], [e0, e1, e2]),
                f"convert_vector(c.e, {na} point, {nb}){what}", 3, "R", f"dotv (convert_vector {A} {B} u v) w",
                proof="intros @INTRO@ H. unfold @NAME@. vp_ecorr_vec H.", hyp=f"regular {A} v")
            # the same vector written as  c0*e0 + c1*(e1 + c2*e2)  (a product with a parenthesised sum, not a flat sum)
            leg(f"{tag}cvecnested_{na}_{nb}",
                lambda c0, c1, c2, p, q, r, e0, e1, e2, a=a, b=b, ap=ap: ap.cvec(a, b, [c0, c1, c2], [p, q, r], [e0, e1, e2], "generic_nested"),
                f"convert_vector(c0*e0 + c1*(e1 + c2*e2), {na} point, {nb}){what}", 3, "R",
                f"dotv (convert_vector {A} {B} (let '(c0, c1, c2) := u in (c0, c1, c1 * c2)) v) w",
                proof="intros @INTRO@ H. unfold @NAME@. vp_ecorr_vec H.", hyp=f"regular {A} v")
        for a in range(3):
            leg(f"{tag}lame_{LOW[a]}", lambda p, q, r, a=a, ap=ap: ap.lame(a, [p, q, r]), f"{LOW[a]}.lame_coefficients{what}", 1, "V3",
                f"lame {SYSN[a]} u")
            leg(f"{tag}jacobian_{LOW[a]}", lambda p, q, r, a=a, ap=ap: ap.jacobian(a, [p, q, r]), f"{LOW[a]}.jacobian{what}", 1, "R",
                f"jacobian {SYSN[a]} u")

    def have(*names):
        return all(n in gen.legs for n in names)

    # ---- compositions on the implementation's own terms --------------------------------------------------------
    for (a, b) in NONTRIVIAL:
        na, nb, A, B = LOW[a], LOW[b], SYSN[a], SYSN[b]
        if have(f"scal_{na}_{nb}", f"scal_{nb}_{na}"):
            gen.lemma(f"comp_roundtrip_{na}_{nb}",
                f"forall q : V3, regular {A} q -> impl_scal_{na}_{nb} (impl_scal_{nb}_{na} q) = q",
                f"intros q H. rewrite corr_scal_{na}_{nb}, corr_scal_{nb}_{na}. apply scalars_roundtrip. exact H.",
                f"scalars {na} -> {nb} -> {na} on the implementation's tables")
        if have(f"cpoint_{na}_{nb}", f"scal_cart_{nb}", f"scal_cart_{na}"):
            gen.lemma(f"comp_cpoint_{na}_{nb}",
                f"forall p : V3, regular {A} p -> impl_scal_cart_{nb} (impl_cpoint_{na}_{nb} p) = impl_scal_cart_{na} p",
                f"intros p H. rewrite corr_scal_cart_{nb}, corr_cpoint_{na}_{nb}, corr_scal_cart_{na}. "
                f"apply (convert_point_preserves_cartesian {A} {B}). exact H.",
                f"convert_point {na} -> {nb} keeps the Cartesian position (implementation's tables)")
        if have(*[f"bvec_{na}_{nb}_{i}" for i in range(3)], *[f"bvec_{nb}_{na}_{i}" for i in range(3)], f"scal_{na}_{nb}"):
            for i in range(3):
                inner = ", ".join(f"impl_bvec_{nb}_{na}_{j} (impl_scal_{na}_{nb} q) e" for j in range(3))
                gen.lemma(f"comp_bvec_inverse_{na}_{nb}_{i}",
                    f"forall q e : V3, regular {B} q -> impl_bvec_{na}_{nb}_{i} q ({inner}) = coord {i} e",
                    f"intros q e H. rewrite corr_bvec_{na}_{nb}_{i}, corr_bvec_{nb}_{na}_0, corr_bvec_{nb}_{na}_1, corr_bvec_{nb}_{na}_2, "
                    f"corr_scal_{na}_{nb}. rewrite <- mmul_apply. rewrite (basis_inverse {A} {B} q H). apply mrow_I3_apply.",
                    f"base vector {i} of {na}: expressed in {nb} and back (implementation's tables)")
    for (a, b, c) in itertools.permutations(range(3), 3):
        na, nb, nc = LOW[a], LOW[b], LOW[c]
        if have(f"scal_{na}_{nc}", f"scal_{na}_{nb}", f"scal_{nb}_{nc}"):
            gen.lemma(f"comp_third_{na}_{nb}_{nc}",
                f"forall q : V3, regular {SYSN[c]} q -> impl_scal_{na}_{nc} q = impl_scal_{na}_{nb} (impl_scal_{nb}_{nc} q)",
                f"intros q H. rewrite corr_scal_{na}_{nc}, corr_scal_{na}_{nb}, corr_scal_{nb}_{nc}. "
                f"apply direct_equals_via_third. exact H.",
                f"scalars: {nc} -> {na} directly equals via {nb} (implementation's tables)")



# ---------------------------------------------------------------------------------------------------------
# history stream: conversions that REUSE the same system objects at different points
# ---------------------------------------------------------------------------------------------------------

def hist_step(api: Api, pools, st, fresh=False):
    """run one step on the shared system objects of `pools` (pools[kind][instance]) or on fresh ones; the result is a
    list of floats (coefficients are taken w.r.t. the new system's base vectors AT THE CONVERTED POINT, anything else
    is an error) or ('exception', text)"""
    E = sp.symbols("E0:3")
    a, b = st["a"], st["b"]
    if fresh:
        v = api.fresh()
    else:
        old = [pl[0] for pl in pools]
        new = [pl[1] for pl in pools]
        old[a] = pools[a][st["ia"]]
        new[b] = pools[b][st["ib"]]
        v = api.view(old, new)
    unit = lambda k: {E[j]: 1 if j == k else 0 for j in range(3)}
    try:
        if st["op"] == "cpoint":
            return [num(e) for e in v.cpoint(a, b, fl(st["coords"]))]
        if st["op"] == "cvec":
            out = v.cvec(a, b, fl(st["components"]), fl(st["coords"]), E)
            return [num(out.xreplace(unit(k))) for k in range(3)]
        if st["op"] == "scal":
            return [num(e) for e in v.scal(a, b, fl(st["coords"]))]
        rows = v.bvec(a, b, fl(st["coords"]), E)
        return [num(r.xreplace(unit(k))) for r in rows for k in range(3)]
    except Exception as e:  # pylint: disable=broad-except
        return ("exception", f"{type(e).__name__}: {str(e)[:300]}")


def hist_run(api: Api, seq):
    pools = [[k(), k()] for k in api.classes]
    return [hist_step(api, pools, st) for st in seq]


def hist_same(x, y):
    if isinstance(x, tuple) or isinstance(y, tuple):
        return False
    return close(x, y)


def hist_first_bad(api: Api, seq):
    """index of the first step whose result on reused objects differs from the same call on fresh objects"""
    got = hist_run(api, seq)
    for i, st in enumerate(seq):
        ref = hist_step(api, None, st, fresh=True)
        if not hist_same(got[i], ref):
            return i, got[i], ref
    return None


def hist_gen(rng, template=None):
    def step(op, a, ia, b, ib):
        if a == b and ia == ib:
            ib = 1 - ib
        src = a if op in ("cvec", "cpoint") else b      # scal / bvec are functions of the NEW system's scalars
        return {"op": op, "a": a, "ia": ia, "b": b, "ib": ib, "coords": gen_regular(rng, src),
                "components": [away(rng), away(rng), away(rng)]}
    if template is not None:
        a, b = template
        return [step("cvec", a, 0, b, 1), step("cpoint", a, 0, b, 1), step("cvec", a, 0, b, 1), step("cvec", b, 1, a, 0),
                step("bvec", a, 0, b, 1), step("cvec", b, 1, a, 0)]
    pairs = [(rng.randrange(3), rng.randrange(2), rng.randrange(3), rng.randrange(2)) for _ in range(rng.randint(1, 2))]
    seq = []
    for _ in range(rng.randint(3, 6)):
        a, ia, b, ib = rng.choice(pairs)
        if rng.random() < 0.4:
            a, ia, b, ib = b, ib, a, ia
        seq.append(step(rng.choice(["cvec", "cvec", "cpoint", "scal", "bvec"]), a, ia, b, ib))
    return seq


def hist_describe(st):
    tail = f" c={st['components']}" if st["op"] == "cvec" else ""
    names = {"cpoint": "convert_point", "cvec": "convert_vector", "scal": "express_base_scalars", "bvec": "express_base_vectors"}
    return f"{names[st['op']]}({LOW[st['a']]}#{st['ia']} -> {LOW[st['b']]}#{st['ib']}) at {st['coords']}{tail}"


def history_stream(ctx, api: Api):
    rng = ctx.rng
    seqs = [hist_gen(rng, t) for t in NONTRIVIAL] + [hist_gen(rng) for _ in range(ctx.pick(10, 80))]
    steps = 0
    reported = set()
    for seq in seqs:
        steps += len(seq)
        bad = hist_first_bad(api, seq)
        if bad is None:
            continue
        i = bad[0]
        cur = seq[:i + 1]
        # shrink: drop earlier steps while the last one still differs from its fresh-state result
        j = len(cur) - 2
        while j >= 0:
            cand = cur[:j] + cur[j + 1:]
            b2 = hist_first_bad(api, cand)
            if b2 is not None and b2[0] == len(cand) - 1:
                cur = cand
            j -= 1
        b3 = hist_first_bad(api, cur)
        got, ref = (b3[1], b3[2]) if b3 else (bad[1], bad[2])
        last = cur[-1]
        key = f"C15:history:{last['op']}_{LOW[last['a']]}_{LOW[last['b']]}"
        if key in reported:
            continue
        reported.add(key)
        ctx.violation(key, "result depends on earlier conversions with the same system objects: after "
            + "; ".join(hist_describe(x) for x in cur[:-1]) + f" the call {hist_describe(last)} returns {got}, "
            f"but {ref} when made first on fresh system objects",
            {"kind": "history", "sequence": cur, "observed_last": got, "expected_last": ref,
             "theorem_or_tie": "history independence of the conversions (same call on fresh system objects)"}, found_input=True)
    if seqs:
        ctx.sample({"history_sequence": [hist_describe(x) for x in seqs[len(NONTRIVIAL)]]})
    return len(seqs), steps

def creation_stream(ctx, api: Api):
    """systems whose automatically named base scalars straddle a power of ten of the symbol counter (their NAMES then
    sort differently from their positions), as old or as new system of a conversion; convert_point / convert_vector are
    compared with the independent python statement of positions and unit vectors"""
    rng = ctx.rng
    E = sp.symbols("E0:3")
    n = 0
    for t in range(ctx.pick(12, 24)):
        a, b = NONTRIVIAL[t % len(NONTRIVIAL)]
        straddle_new = (t // len(NONTRIVIAL)) % 2 == 0
        offset = 3 if t % 2 == 0 else 2
        v = api.fresh()
        kind = b if straddle_new else a
        sys_, names = api.at_counter_boundary(kind, offset)
        if straddle_new:
            v.new[b] = sys_
        else:
            v.old[a] = sys_
        p, c = gen_regular(rng, a), [away(rng), away(rng), away(rng)]
        n += 1
        inp = {"pair": f"{LOW[a]}->{LOW[b]}", "scalar_names_of_the_" + ("new" if straddle_new else "old") + "_system": names, "coords": p, "components": c}
        try:
            newp = [num(e) for e in v.cpoint(a, b, fl(p))]
            out = v.cvec(a, b, fl(c), fl(p), E)
            newc = [num(out.xreplace({E[j]: 1 if j == k else 0 for j in range(3)})) for k in range(3)]
            fa, fb = m_frame(a, p), m_frame(b, newp)
            want_pos, got_pos = list(m_pos(a, p)), list(m_pos(b, newp))
            want_c = [sum(c[i] * fa[i][k] for i in range(3)) for k in range(3)]
            got_c = [sum(newc[i] * fb[i][k] for i in range(3)) for k in range(3)]
            ok = close(got_pos, want_pos) and close(got_c, want_c)
            obs = {"new_coordinates": newp, "their_cartesian_position": got_pos, "new_components": newc, "their_cartesian_components": got_c}
        except Exception as e:  # pylint: disable=broad-except
            ok, obs, want_pos, want_c = False, {"exception": f"{type(e).__name__}: {str(e)[:300]}"}, list(m_pos(a, p)), None
        if not ok:
            ctx.violation(f"C15:creation:{LOW[a]}_{LOW[b]}:{'new' if straddle_new else 'old'}",
                f"conversion {inp['pair']} with base scalars named {names} (created across a power of ten of the symbol counter) at {p}, c={c}: "
                f"observed {obs}, expected position {want_pos}, components {want_c}",
                {"kind": "creation", "input": dict(inp, a=a, b=b, straddle_new=straddle_new, offset=offset), "observed": obs,
                 "expected": {"cartesian_position": want_pos, "cartesian_components": want_c},
                 "theorem_or_tie": "conversions are positional: independent of the names / creation order of the base scalars"}, found_input=True)
    ctx.sample({"creation_case": inp})
    return n


# ---------------------------------------------------------------------------------------------------------
# dispatch table
# ---------------------------------------------------------------------------------------------------------

KINDS = ["KCart", "KCyl", "KSph", "KOtherA", "KOtherB", "KNotSystem"]


def dispatch_rows(api: Api):
    from symplyphysics import units  # pylint: disable=import-outside-toplevel
    cs = api.cs

    def mk(name):
        def scal():
            from symplyphysics import Symbol  # pylint: disable=import-outside-toplevel
            return tuple(Symbol(n, units.length, real=True) for n in ("u", "v", "w"))

        def vecs():
            from symplyphysics.core.experimental.vectors import VectorSymbol  # pylint: disable=import-outside-toplevel
            return tuple(VectorSymbol(n) for n in ("e_u", "e_v", "e_w"))
        return type(name, (cs.BaseCoordinateSystem,), {
            "_base_scalar_dimensions": staticmethod(lambda: (units.length, units.length, units.length)),
            "_generate_base_scalars": staticmethod(scal),
            "_generate_base_vectors": staticmethod(vecs),
            "lame_coefficients": property(lambda self: (sp.S.One, sp.S.One, sp.S.One)),
        })
    OA, OB = mk("OtherA"), mk("OtherB")
    makers = [api.classes[0], api.classes[1], api.classes[2], OA, OB, lambda: 5]
    g = sp.symbols("g0:3")
    rows = []
    for i, ka in enumerate(KINDS):
        for j, kb in enumerate(KINDS):
            for fname in ("express_base_scalars", "express_base_vectors"):
                A, B = makers[i](), makers[j]()
                try:
                    if fname == "express_base_scalars":
                        m = cs.express_base_scalars(A, B)
                        ident = dict(zip(A.base_scalars, B.base_scalars))
                    else:
                        issys = lambda o: isinstance(o, cs.BaseCoordinateSystem)
                        oa = (api.AppliedPoint(g, A),) if issys(A) else ()
                        ob = (api.AppliedPoint(g, B),) if issys(B) else ()
                        m = cs.express_base_vectors(A, B, old_args=oa, new_args=ob)
                        ident = dict(zip(A.base_vectors(*oa), B.base_vectors(*ob)))
                    obs = "DIdentity" if dict(m) == ident else "DTable"
                except TypeError:
                    obs = "DTypeError"
                except NotImplementedError:
                    obs = "DNoSignature"
                except Exception as e:  # pylint: disable=broad-except
                    obs = f"error:{type(e).__name__}"
                same = i == j and i != 5
                registered = i < 3 and j < 3
                if same:
                    spec_ok = obs == "DIdentity"          # same type: trivial substitution
                elif registered:
                    spec_ok = obs == "DTable"
                else:
                    spec_ok = obs not in ("DTable", "DIdentity")   # unsupported: refused, never answered
                rows.append({"lit": f"({ka}, {kb}, {obs})" if not obs.startswith("error:") else None,
                    "desc": f"{fname}({ka[1:]}, {kb[1:]})", "obs": obs, "spec_ok": spec_ok})
    # same INSTANCE: express_base_vectors returns the empty mapping, express_base_scalars the identity
    for k in range(3):
        A = api.classes[k]()
        pa = api.AppliedPoint(g, A)
        m1 = cs.express_base_vectors(A, A, old_args=(pa,), new_args=(pa,))
        m2 = cs.express_base_scalars(A, A)
        ok = all(sp.sympify(key).xreplace(dict(m1)) == key for key in A.base_vectors(pa)) and \
            all(m2[s] == s for s in A.base_scalars)
        rows.append({"lit": None, "same_instance": True, "desc": f"same instance of {KINDS[k][1:]}", "obs": f"{dict(m1)} / {dict(m2)}", "spec_ok": ok})
    return rows


TABLE_PRE = PREAMBLE + """
Definition vp_check_dispatch (c : akind * akind * dispatch_outcome) : bool :=
  let '(a, b, o) := c in ExpCoords.outcome_eqb (dispatch a b) o.
"""


# ---------------------------------------------------------------------------------------------------------
# run
# ---------------------------------------------------------------------------------------------------------

def related_specs(name, names):
    """specification checks that exercise the tables a lemma is about"""
    toks = [t for t in name.split("_") if t in LOW]
    out = []
    for n in names:
        nt = [t for t in n.split("_") if t in LOW]
        if len(toks) >= 2 and set(toks[:2]) <= set(nt):
            out.append(n)
        elif len(toks) == 1 and toks[0] in nt and n.startswith("lame"):
            out.append(n)
    kind = {"scal": "scalars", "bvec": "basis", "cpoint": "convert_point", "cvec": "convert_vector", "lame": "lame",
            "jacobian": "lame", "roundtrip": "scalars", "third": "via_third", "cpoint_": "convert_point"}
    pref = next((v for k, v in kind.items() if name.startswith(k) or f"_{k}_" in f"_{name}"), "")
    out.sort(key=lambda n: (not n.startswith(pref), n))
    return out or sorted(names)


def run(ctx):
    ctx.level = "proof"
    ctx.static(STATIC)
    ctx.trust(
        "Coq 8.16.1 kernel; stdlib Reals + Coquelicot 3 (is_derive, auto_derive) (axioms sig_forall_dec, sig_not_dec, "
        "functional_extensionality_dep, classic)",
        "harness/vp/sx.py + props/c15.py: SymPy tree -> Coq term; sympy.atan2/sqrt/sin/cos read as Base.Atan2.atan2 / stdlib "
        "functions on their real domains; base vectors read as linear forms (three arbitrary reals)",
        "SymPy 1.14 subs / multipledispatch on the exercised calls (observed, not modelled); generic point coordinates and "
        "vector components are assumption-free Symbols; value-obliviousness of convert_point/convert_vector is sampled",
        "Model/ExpCoords.v: `position` (scal ECart a) is the meaning of cylindrical (rho,phi,z) and spherical (r,polar theta,"
        "azimuth phi) coordinates; the specification checks use an independent python statement of it")
    ctx.assume("regular points only: Cartesian (x,y) <> (0,0); cylindrical rho > 0, phi in (-pi,pi]; spherical r > 0, "
               "theta in (0,pi), phi in (-pi,pi] (subset of the symbols' declared assumptions rho,r,theta >= 0, phi real, "
               "minus the singular sets and non-principal azimuths, where the round trips cannot be identities)",
               "point coordinates and vector components do not themselves contain base scalars (convert.py substitutes sequentially)")
    api = Api()
    rng = ctx.rng

    gen = Gen()
    build(api, gen)
    pre = PREAMBLE + "\n" + "\n".join(gen.defs) + "\n"
    # stage 1: the correspondence lemmas are independent of each other -> small shards in parallel (a change that breaks many
    # tables then costs a few retries per shard instead of one recompilation of everything per failing lemma);
    # stage 2: the composition lemmas, in one file whose preamble re-proves the correspondence lemmas they cite
    corr = [l for l in gen.lemmas if l.name.startswith("corr_")]
    comp = [l for l in gen.lemmas if l.name.startswith("comp_")]
    res = coqrun.prove_lemmas(ctx, "c15corr", pre, corr, per_file=16, timeout=600, max_retries=16) if corr else {}
    cited = [l for l in corr if res.get(l.name) == "ok" and any(l.name + "," in c.proof or l.name + "." in c.proof or l.name + " " in c.proof for c in comp)]
    pre2 = pre + "\n".join(f"Lemma {l.name} : {l.statement}.\nProof.\n{l.proof}\nQed." for l in cited) + "\n"
    if comp:
        res.update(coqrun.prove_lemmas(ctx, "c15comp", pre2, comp, per_file=1000, timeout=600, max_retries=40))
    ok = sum(v == "ok" for v in res.values())
    ctx.obligations(len(res) + len(gen.broken), ok)
    ctx.coverage["generated_lemmas"] = {"corr": sum(n.startswith("corr_") for n in res), "comp": sum(n.startswith("comp_") for n in res),
        "ok": ok, "legs_translated": len(gen.legs), "legs_not_translated": len(gen.broken)}
    ctx.log(f"legs={len(gen.legs)} broken={len(gen.broken)} lemmas={len(res)} ok={ok}")
    for lm in (gen.lemmas[0], gen.lemmas[1], gen.lemmas[5]) if len(gen.lemmas) > 5 else gen.lemmas[:1]:
        ctx.sample({"lemma": lm.name, "statement": lm.statement[:300], "item": lm.item})

    checks = spec_checks(api)
    n_pts = ctx.pick(4, 60)
    spec_fail = {}
    n_eval = 0
    seen = set()
    for name in sorted(checks):
        g, pred = checks[name]
        for _ in range(n_pts):
            inp = g(rng)
            n_eval += 1
            seen.add((name, repr(sorted(inp.items()))))
            try:
                good, obs, want = pred(inp)
            except Exception as e:  # pylint: disable=broad-except
                good, obs, want = False, {"exception": f"{type(e).__name__}: {e}"}, {}
            if not good and name not in spec_fail:
                spec_fail[name] = {"input": inp, "observed": obs, "expected": want}
        if name in spec_fail:
            f = spec_fail[name]
            ctx.violation(f"C15:spec:{name}", f"{name} fails on the implementation at {f['input']}: observed {f['observed']}, expected {f['expected']}",
                {"kind": "spec", "check": name, "theorem_or_tie": name, **f}, found_input=True)
    ctx.sample({"spec_check": "convert_vector_sph_cyl", "input": checks["convert_vector_sph_cyl"][0](rng)})

    # value-obliviousness of convert_point / convert_vector: numbers in, compared with the generic output evaluated
    n_obl = 0
    E = sp.symbols("E0:3")
    for (a, b) in PAIRS:
        for _ in range(ctx.pick(3, 20)):
            p = gen_regular(rng, a)
            c = [away(rng), away(rng), away(rng)]
            mode = rng.choice(["float", "Float", "Rational"])
            dr = (lambda vs: [float(v) for v in vs]) if mode == "float" else (
                (lambda vs: [sp.Float(v) for v in vs]) if mode == "Float" else (lambda vs: [sp.Rational(str(v)) for v in vs]))
            n_obl += 2
            seen.add(("obl", a, b, tuple(p), tuple(c), mode))
            key = f"{LOW[a]}_{LOW[b]}"
            fapi = api.fresh()
            try:
                syms = sp.symbols("a0:9")
                lg = gen.legs.get(f"cpoint_{key}")
                if lg:
                    want = [num(e.xreplace(dict(zip(syms[:3], fl(p))))) for e in lg["exprs"]]
                    got = [num(e) for e in fapi.cpoint(a, b, dr(p))]
                    if not close(got, want):
                        ctx.violation(f"C15:oblivious:cpoint_{key}", f"convert_point {key} on numbers {p} ({mode}) gives {got}, generic output evaluates to {want}",
                            {"kind": "disagreement", "theorem_or_tie": f"value-obliviousness of convert_point {key}", "input": p, "observed": got, "expected": want},
                            found_input=f"convert_point_{key}" in spec_fail)
                lg = gen.legs.get(f"cvec_{key}")
                if lg:
                    rep = dict(zip(syms[:9], fl(c) + fl(p) + list(E)))
                    wexpr = lg["exprs"][0].xreplace(rep)
                    gexpr = fapi.cvec(a, b, dr(c), dr(p), E)
                    want = [num(wexpr.xreplace({E[j]: 1 if j == k else 0 for j in range(3)})) for k in range(3)]
                    got = [num(gexpr.xreplace({E[j]: 1 if j == k else 0 for j in range(3)})) for k in range(3)]
                    if not close(got, want):
                        ctx.violation(f"C15:oblivious:cvec_{key}", f"convert_vector {key} on numbers c={c} p={p} ({mode}) gives {got}, generic output evaluates to {want}",
                            {"kind": "disagreement", "theorem_or_tie": f"value-obliviousness of convert_vector {key}", "input": {"c": c, "p": p}, "observed": got, "expected": want},
                            found_input=f"convert_vector_{key}" in spec_fail)
            except Exception as e:  # pylint: disable=broad-except
                ctx.violation(f"C15:oblivious:{key}:exception", f"concrete run of convert_point/convert_vector {key} at p={p} c={c} ({mode}) raised {type(e).__name__}: {e}",
                    {"kind": "disagreement", "theorem_or_tie": f"value-obliviousness {key}", "input": {"c": c, "p": p, "dress": mode}}, found_input=False)

    # history stream: the same system objects reused at different points
    n_hist, hist_steps = history_stream(ctx, api)
    n_eval += hist_steps
    ctx.coverage["history_sequences"] = n_hist
    n_cre = creation_stream(ctx, api)
    n_eval += n_cre
    ctx.coverage["creation_order_cases"] = n_cre

    # dispatch table
    rows = dispatch_rows(api)
    lit_rows = [r for r in rows if r["lit"] is not None]
    bad = coqrun.eval_cases(ctx, "dispatch", TABLE_PRE, [r["lit"] for r in lit_rows], "vp_check_dispatch")
    bad_rows = [lit_rows[i] for i in bad] + [r for r in rows if r["lit"] is None and not r.get("same_instance")]
    for r in rows:
        if not r["spec_ok"] and r not in bad_rows:
            bad_rows.append(r)
    for r in bad_rows:
        ctx.violation(f"C15:dispatch:{r['desc']}", f"{r['desc']}: implementation gives {r['obs']}, "
            + ("which the property forbids" if not r["spec_ok"] else "the model says otherwise (specification still met)"),
            {"kind": "table", "row": r["desc"], "observed": r["obs"], "theorem_or_tie": "Model.ExpCoords.dispatch"}, found_input=not r["spec_ok"])
    ctx.coverage["dispatch_rows"] = len(rows)
    ctx.sample({"dispatch_row": rows[7]["desc"], "observed": rows[7]["obs"]})

    # broken legs / lemmas
    for name, why in gen.broken:
        specs = related_specs(name, checks)
        ctx.violation(f"C15:leg:{name}", f"leg {name} could not be run on generic symbols / translated: {why}",
            {"kind": "broken-tie", "theorem_or_tie": f"translator, leg {name}", "error": why},
            found_input=any(s in spec_fail for s in specs))
    failed_corr = {n for n, st in res.items() if st != "ok" and n.startswith("corr_")}
    for lname, status in res.items():
        if status == "ok":
            continue
        if lname.startswith("comp_") and "was not found in the current environment" in status and any(
                f"reference {c} " in status for c in failed_corr):
            continue
        lm = next(l for l in gen.lemmas if l.name == lname)
        specs = related_specs(lname.split("_", 1)[1], checks)
        found = next(((s, spec_fail[s]) for s in specs if s in spec_fail), None)
        if found is None:
            for s in specs[:8]:
                g, pred = checks[s]
                for _ in range(ctx.pick(25, 100)):
                    inp = g(rng)
                    n_eval += 1
                    try:
                        good, obs, want = pred(inp)
                    except Exception as e:  # pylint: disable=broad-except
                        good, obs, want = False, {"exception": f"{type(e).__name__}: {e}"}, {}
                    if not good:
                        found = (s, {"input": inp, "observed": obs, "expected": want})
                        break
                if found:
                    break
        rep = {"kind": "broken-proof", "theorem_or_tie": lname, "item": lm.item, "statement": lm.statement, "coq": status[-600:]}
        if found:
            rep.update({"check": found[0], **found[1]})
        ctx.violation(f"C15:lemma:{lname}", f"generated lemma {lname} ({lm.item}) is not proved"
            + (f"; specification check {found[0]} fails at {found[1]['input']}" if found else ""), rep, found_input=bool(found))

    ctx.evaluated(n_eval + n_obl + len(rows), len(seen) + len(rows))
    ctx.coverage["rule"] = ("spec checks (6 ordered pairs x {scalar round trip, basis orthonormal+det, basis inverse, convert_point, "
        "convert_vector}, 6 triples via-third (scalars and matrices), Lame per system) at seeded regular points: |Cartesian coordinates| in "
        "[0.2,3], radii in [0.2,3], polar angle in [0.15,2.9], azimuth in [-3,3], vector components non-zero; plus concrete-number runs of "
        "convert_point/convert_vector for all 9 pairs compared with the generic output; plus all 72 dispatch rows and 3 same-instance rows. "
        "history stream: 6 fixed-shape + seeded random sequences of 3-6 calls (convert_point / convert_vector / express_base_scalars / "
        "express_base_vectors, both directions, at most two pairs of system objects per sequence so that objects are reused at different "
        "points), each result compared with the same call on fresh system objects; "
        "predicate inputs carry a seeded construction mode (default / user fields / permuted display names / reversed creation order / both); "
        "creation stream: default systems whose scalar names straddle a power of ten of the symbol counter, as old or new system; "
        "distinct = distinct (check, input); every input is non-trivial (off the singular sets, no zero component)")
    ctx.coverage["spec_checks"] = sorted(checks)
    ctx.coverage["spec_points_per_check"] = n_pts


def replay(ctx, rep):
    api = Api()
    if rep.get("kind") == "creation":
        i = rep["input"]
        a, b = i["a"], i["b"]
        v = api.fresh()
        sys_, names = api.at_counter_boundary(b if i["straddle_new"] else a, i["offset"])
        (v.new if i["straddle_new"] else v.old)[b if i["straddle_new"] else a] = sys_
        newp = [num(e) for e in v.cpoint(a, b, fl(i["coords"]))]
        got, want = list(m_pos(b, newp)), list(m_pos(a, i["coords"]))
        print(f"convert_point {i['pair']} with base scalars named {names} at {i['coords']}: new coordinates {newp}")
        print(f"   Cartesian position {got}, expected {want} ->", "holds" if close(got, want) else "FAILS")
        return 0 if close(got, want) else 1
    if rep.get("kind") == "history":
        seq = rep["sequence"]
        got = hist_run(api, seq)
        bad = False
        for st, g in zip(seq, got):
            ref = hist_step(api, None, st, fresh=True)
            same = hist_same(g, ref)
            bad = bad or not same
            print(hist_describe(st))
            print("   on the reused system objects :", g)
            print("   on fresh system objects      :", ref, "" if same else "   <-- DIFFERS")
        print("->", "FAILS (history dependent)" if bad else "holds")
        return 1 if bad else 0
    if rep.get("check"):
        name = rep["check"]
        _g, pred = spec_checks(api)[name]
        good, obs, want = pred(rep["input"])
        print(f"check {name} input={rep['input']}")
        print(f"  observed {obs}")
        print(f"  expected {want}")
        print("  ->", "holds" if good else "FAILS")
        return 0 if good else 1
    if rep.get("kind") == "table":
        for r in dispatch_rows(api):
            if r["desc"] == rep["row"]:
                print(r["desc"], "->", r["obs"], "spec_ok =", r["spec_ok"])
                return 0 if r["spec_ok"] else 1
    print("no concrete input recorded; failing item:", rep.get("theorem_or_tie"))
    print(rep.get("coq") or rep.get("error") or "")
    return 1
