"""C19 -- documentation generation is total, faithful and leaves no global state  (PARTIAL claim).

proof part      : coq/theories/Properties/C19.v about Model/DocsPatch.v (AST patch + evaluation-flag machine +
                  parse.py's member walk) and Model/DocsView.v (directive substitution)
tie             : correspondence -- real patch_sympy_evaluate on the AST of EVERY documented catalogue module and on
                  seeded synthetic modules whose statements record the flag while the real patched module is exec'd
                  by the real find_members_and_functions; real processors.* on seeded call sequences; real
                  _find_law_directives + process_member_docstring on seeded docstrings
exploration part: the real generator (docs/build.py main) is run into a scratch directory, twice (two hash seeds),
                  plus page-by-page in seeded orders; every page is compared with independently computed reference
                  values (vp/docs19_worker.py: reference)."""
from __future__ import annotations

import ast
import builtins
import collections
import hashlib
import json
import os
import re
import shutil
import subprocess
import tempfile
import time
import types
from pathlib import Path

from vp import common, coqrun
from vp import docs19 as D

STATIC = ["patch_flag_restored", "pages_sequence_flag", "patch_disables_documented_members",
    "patch_disables_documented_members_declarative",
    "patch_other_statements_evaluate", "patch_keeps_documented_prefix", "patch_drops_nothing_documented",
    "patch_names_resolve", "reset_switches_on", "patch_parse_consistent_partial", "substitute_spec",
    "substitute_spec_swapped", "substitute_symbol_only", "substitute_latex_only", "substitute_none",
    "find_reports_first_occurrence", "reset_restores_all_switches", "patch_switches_restored", "pages_switches_restored",
    "known_exact_sound", "generation_writes_every_page"]

WORKER = Path(__file__).resolve().parents[1] / "vp" / "docs19_worker.py"
HARNESS = str(Path(__file__).resolve().parents[1])
PLACEHOLDERS = (D.SYM_STR, D.LTX_STR, D.EVAL_STR)


_RECORD0: dict = {}


def restore_switches():
    """put every field of SymPy's global parameters back to what it was when the check started"""
    from sympy.core.parameters import global_parameters as GP  # pylint: disable=import-outside-toplevel
    for f, v in (_RECORD0 or {"evaluate": True}).items():
        setattr(GP, f, v)


def sha(s: str) -> str:
    return hashlib.sha1(s.encode()).hexdigest()[:12]


# ---------------------------------------------------------------------------------------------
# worker processes
# ---------------------------------------------------------------------------------------------

class Job:
    def __init__(self, scratch: Path, name: str, mode: str, spec: dict, hashseed: str):
        self.dir = scratch / name
        self.dir.mkdir(parents=True)
        (self.dir / "symplyphysics").symlink_to(common.REPO / "symplyphysics", target_is_directory=True)
        self.name = name
        self.mode = mode
        self.spec_path = self.dir / "spec.json"
        self.out_path = self.dir / "out.json"
        self.spec_path.write_text(json.dumps(spec))
        env = dict(os.environ)
        env.update({"PYTHONPATH": str(common.REPO), "PYTHONHASHSEED": hashseed, "PYTHONDONTWRITEBYTECODE": "1"})
        self.t0 = time.time()
        self.log = open(self.dir / "log.txt", "w")  # pylint: disable=consider-using-with
        self.proc = subprocess.Popen(  # pylint: disable=consider-using-with
            ["timeout", "600", common.PYTHON, str(WORKER), mode, str(self.spec_path), str(self.out_path)],
            cwd=str(self.dir), env=env, stdout=self.log, stderr=subprocess.STDOUT)

    def wait(self) -> dict:
        rc = self.proc.wait()
        self.log.close()
        self.wall = round(time.time() - self.t0, 2)
        if self.out_path.exists():
            out = json.loads(self.out_path.read_text())
        else:
            out = {"ok": False, "error": f"worker produced no output (rc={rc})",
                "traceback": (self.dir / "log.txt").read_text()[-2000:]}
        out["rc"] = rc
        out["wall_s"] = self.wall
        return out


def read_pages(d: Path) -> dict:
    if not d.is_dir():
        return {}
    return {p.name: p.read_bytes().decode("utf-8", errors="backslashreplace") for p in sorted(d.iterdir()) if p.is_file()}


# ---------------------------------------------------------------------------------------------
# A. processors.py  (flag machine)
# ---------------------------------------------------------------------------------------------

def tie_processors(ctx):
    from sympy.core.parameters import global_parameters as GP  # pylint: disable=import-outside-toplevel
    from symplyphysics.core import processors  # pylint: disable=import-outside-toplevel
    rng = ctx.rng
    fns = {"D": processors.disable_sympy_evaluation, "E": processors.enable_sympy_evaluation,
        "R": processors.reset_sympy_evaluation}
    coqop = {"D": "OpDisable", "E": "OpEnable", "R": "OpReset"}
    n = ctx.pick(300, 3000)
    cases, keep = [], []
    old0 = getattr(processors, "_old_evaluation", None)
    record0 = dict(ctx.coverage.get("global_parameters_at_start") or vars(GP))
    for k in range(n):
        ops = [rng.choice("DER") for _ in range(rng.randrange(0, 9))]
        if k < 40:                                   # exhaustive short prefixes first
            ops = list("DER"[k % 3] + "DER"[(k // 3) % 3] + ("DER"[(k // 9) % 3] if k >= 9 else ""))
        start = rng.random() < 0.5
        GP.evaluate = start
        obs = []
        try:
            for o in ops:
                fns[o]()
                obs.append(bool(GP.evaluate))
        finally:
            for f_, v_ in record0.items():
                setattr(GP, f_, v_)
        cases.append("(%s, %s, %s)" % (D.coq_bool(start), D.coq_list(coqop[o] for o in ops), D.coq_list(map(D.coq_bool, obs))))
        keep.append((start, "".join(ops), obs))
    old1 = getattr(processors, "_old_evaluation", None)
    bad = coqrun.eval_cases(ctx, "processors", D.PREAMBLE, cases,
        "fun c : bool * list flag_op * list bool => let '(b, ops, obs) := c in "
        "list_eqb Bool.eqb (ops_trace (mkP b true) ops) obs")
    if old0 is not True or old1 is not True:
        ctx.violation("C19:processors:_old_evaluation", f"processors._old_evaluation is {old0!r} / {old1!r}, the model assumes the constant True",
            {"kind": "broken-tie", "theorem_or_tie": "Model/DocsPatch.v pstate.old", "observed": [repr(old0), repr(old1)]},
            found_input=False)
    for i in bad[:20]:
        start, ops, obs = keep[i]
        # specification: after reset_sympy_evaluation the flag is back to its default (True)
        fails = any(o == "R" and not f for o, f in zip(ops, obs))
        ctx.violation(f"C19:processors:{int(start)}:{ops}",
            f"flag machine of processors.py differs from the model on start={start} calls={ops}: flags {obs}",
            {"kind": "disagreement", "input": {"start": start, "calls": ops}, "observed": obs,
             "expected": "Disable -> False, Enable -> True, Reset -> True", "theorem_or_tie": "ops_trace ~ processors.py",
             "replay_kind": "processors"}, found_input=fails)
    ctx.evaluated(len(cases), len({c for c in cases}))
    ctx.sample({"stream": "processors", "start": keep[-1][0], "calls": keep[-1][1], "flags": keep[-1][2]})
    return len(bad)


def tie_switches(ctx):
    """The whole record of sympy.core.parameters.global_parameters: the write table of the three functions is
    TRANSLATED from the AST of core/processors.py, `covers` is decided inside Coq (hypothesis of
    patch_switches_restored), and the translated table is validated against the real functions on seeded call
    sequences from seeded start records (all fields observed after every call)."""
    from sympy.core.parameters import global_parameters as GP  # pylint: disable=import-outside-toplevel
    from symplyphysics.core import processors  # pylint: disable=import-outside-toplevel
    src = common.REPO / "symplyphysics" / "core" / "processors.py"
    defaults = dict(ctx.coverage.get("global_parameters_at_start") or vars(GP))     # snapshot taken before any tie ran
    try:
        table = D.read_processor_writes(src)
        if not all(isinstance(v, bool) for v in defaults.values()):
            raise D.Unmodelled(f"non-boolean global switch: {defaults}")
    except D.Unmodelled as e:
        ctx.violation("C19:switches:translator", f"core/processors.py is outside the translator's vocabulary: {e}",
            {"kind": "broken-tie", "theorem_or_tie": "read_processor_writes (vp/docs19.py)", "why": str(e)}, found_input=False)
        return 0
    fields = sorted(set(defaults) | {f for ws in table.values() for f, _ in ws})
    ids = {f: i for i, f in enumerate(fields)}
    for f in fields:
        defaults.setdefault(f, True)
    P = f"(mkProcs {D.coq_writes(table['w_disable'], ids)} {D.coq_writes(table['w_enable'], ids)} {D.coq_writes(table['w_reset'], ids)})"
    ctx.coverage["global_switches"] = {"fields": fields, "defaults": defaults, "writes": {k: [list(w) for w in v] for k, v in table.items()}}
    fns = {"D": processors.disable_sympy_evaluation, "E": processors.enable_sympy_evaluation, "R": processors.reset_sympy_evaluation}
    coqop = {"D": "OpDisable", "E": "OpEnable", "R": "OpReset"}
    rng = ctx.rng
    saved = dict(defaults)

    def run_real(start, ops):
        obs = []
        try:
            for f, v in start.items():
                setattr(GP, f, v)
            for o in ops:
                fns[o]()
                obs.append({f: getattr(GP, f, None) for f in fields})
        finally:
            for f, v in saved.items():
                setattr(GP, f, v)
        return obs

    cases, keep = [], []
    for k in range(ctx.pick(200, 2000)):
        ops = [rng.choice("DER") for _ in range(rng.randrange(1, 7))]
        start = dict(defaults) if k % 4 == 0 else {f: rng.random() < 0.5 for f in fields}
        obs = run_real(start, ops)
        if any(not isinstance(v, bool) for o in obs for v in o.values()):
            ctx.violation("C19:switches:non-boolean", "a global switch took a non-boolean value", {"kind": "broken-tie",
                "observed": obs, "theorem_or_tie": "switch record"}, found_input=False)
            return 0
        cases.append("(%s, %s, %s)" % (D.coq_switches(start, ids), D.coq_list(coqop[o] for o in ops),
            D.coq_list(D.coq_switches(o, ids) for o in obs)))
        keep.append((start, "".join(ops), obs))
    bad = coqrun.eval_cases(ctx, "switches", D.PREAMBLE, cases,
        f"fun c : switches * list flag_op * list switches => let '(s, ops, obs) := c in list_eqb sw_eqb (sw_ops_trace {P} s ops) obs")
    for i in bad[:10]:
        start, ops, obs = keep[i]
        ctx.violation(f"C19:switches:trace:{ops}:{sha(str(sorted(start.items())))}",
            f"the write table translated from processors.py does not reproduce the real functions on calls {ops}",
            {"kind": "disagreement", "input": {"start": start, "calls": ops}, "observed": obs, "translated_table": table,
             "theorem_or_tie": "sw_ops_trace ~ processors.py (translator validation)", "replay_kind": "switches"}, found_input=False)
    # the hypothesis of patch_switches_restored, decided by the kernel on the translated table
    s0 = D.coq_switches(defaults, ids)
    notcov = coqrun.eval_cases(ctx, "covers", D.PREAMBLE, [f"({P}, {s0})"], "fun c : procs * switches => covers (fst c) (snd c)")
    ctx.obligations(1, 0 if notcov else 1)
    if notcov:
        # search the implementation: disable(); reset() from the default record
        obs = run_real(dict(defaults), ["D", "R"])
        left = {f: obs[-1][f] for f in fields if obs[-1][f] != defaults[f]}
        for f in (left or {"?": None}):
            ctx.violation(f"C19:switch-not-restored:{f}",
                f"reset_sympy_evaluation does not restore global_parameters.{f}: after disable(); reset() from the defaults "
                f"{defaults} the record is {obs[-1]}" if left else "covers = false for the translated write table but disable(); reset() restored the record",
                {"kind": "violation" if left else "broken-proof", "input": {"start": defaults, "calls": "DR"}, "observed": obs[-1],
                 "expected": defaults, "translated_table": table, "theorem_or_tie": "hypothesis `covers` of patch_switches_restored",
                 "replay_kind": "switches"}, found_input=bool(left))
    ctx.evaluated(len(cases), len(set(cases)))
    ctx.sample({"stream": "switches", "start": keep[1][0], "calls": keep[1][1], "records": keep[1][2]})
    return len(bad)


def tie_filewriter(ctx, scratch):
    """The page-writing step: the sequence of file operations is TRANSLATED from symplyphysics/docs/build.py (and the
    role step from docs/build.py), `known_exact` is decided inside Coq (hypothesis of generation_writes_every_page via
    known_exact_sound), and the translation is validated by running the real _process_law on a tiny documented module
    into a directory whose page is missing / longer / shorter / equal / empty."""
    from symplyphysics.docs import build  # pylint: disable=import-outside-toplevel
    try:
        missing, exists = D.read_page_writer(common.REPO / "symplyphysics" / "docs" / "build.py")
        role = D.read_role_writer(common.REPO / "docs" / "build.py")
    except D.Unmodelled as e:
        ctx.violation("C19:file-writer:translator", f"the page-writing step is outside the translator's vocabulary: {e}",
            {"kind": "broken-tie", "theorem_or_tie": "read_page_writer / read_role_writer (vp/docs19.py)", "why": str(e)}, found_input=False)
        return 0
    ctx.coverage["file_writer"] = {"if_missing": missing, "if_exists": exists, "role_step": role}
    W = f"(mkWriter {D.coq_fops(missing)} {D.coq_fops(exists)})"
    WR = f"(mkWriter [FOpenW; FWrite] {D.coq_fops(role)})"
    pkg = scratch / "fw" / "pkg"
    pkg.mkdir(parents=True)
    (pkg / "law_x.py").write_text('"""\nTiny law\n========\n\nA page of known text.\n"""\n')
    out = scratch / "fw" / "out"
    out.mkdir()
    page = out / (".".join((pkg / "law_x").parts[1:]) + ".rst")
    try:
        build._process_law(str(pkg), "law_x.py", str(out), True)  # pylint: disable=protected-access
        new = page.read_text(encoding="utf-8")
    except Exception as e:  # pylint: disable=broad-except
        ctx.violation("C19:file-writer:probe", f"_process_law on a tiny module failed: {type(e).__name__}: {e}",
            {"kind": "broken-tie", "theorem_or_tie": "file-writer validation"}, found_input=False)
        return 0
    finally:
        restore_switches()
    rng = ctx.rng
    olds = [None, new, "", "x", new + "STALE TAIL\n" * 3, new[:-5], "Z" * (len(new) + 40), new[: len(new) // 2] + "q" * len(new)]
    olds += ["".join(rng.choice("ab \n") for _ in range(rng.randrange(0, 2 * len(new)))) for _ in range(ctx.pick(6, 40))]
    cases, keep = [], []
    for old in olds:
        if old is None:
            page.unlink(missing_ok=True)
        else:
            page.write_text(old, encoding="utf-8")
        try:
            build._process_law(str(pkg), "law_x.py", str(out), True)  # pylint: disable=protected-access
            obs = page.read_text(encoding="utf-8")
        except Exception as e:  # pylint: disable=broad-except
            obs = None
            err = f"{type(e).__name__}: {e}"
        finally:
            restore_switches()
        o = "None" if old is None else f"(Some (txt {D.coq_string(old)}))"
        r = "None" if obs is None else f"(Some (txt {D.coq_string(obs)}))"
        cases.append(f"({o}, {r})")
        keep.append((old, obs))
    opt_eq = ("(fun a b : option text => match a, b with Some x, Some y => text_eqb x y | None, None => true | _, _ => false end)")
    bad = coqrun.eval_cases(ctx, "filewriter", D.PREAMBLE, cases,
        f"fun c : option text * option text => {opt_eq} (file_write {W} (fst c) (txt {D.coq_string(new)})) (snd c)")
    for i in bad[:5]:
        old, obs = keep[i]
        ctx.violation(f"C19:file-writer:trace:{sha(repr(old))}", "the translated file operations do not reproduce the real write step",
            {"kind": "disagreement", "input": {"old": old, "new": new}, "observed": obs, "translated": [missing, exists],
             "theorem_or_tie": "file_write ~ _process_law (translator validation)", "replay_kind": "file-writer"}, found_input=(obs != new))
    exact = coqrun.eval_cases(ctx, "filewriter_exact", D.PREAMBLE, [W, WR], "fun w : writer => known_exact w")
    ctx.obligations(2, 2 - len(exact))
    for i in exact:
        which = "page" if i == 0 else "role-step"
        wrong = [(old, obs) for old, obs in keep if obs != new] if i == 0 else []
        old, obs = (wrong[0] if wrong else (None, None))
        ctx.violation(f"C19:file-writer:not-exact:{which}",
            f"the {which} writer {[missing, exists] if i == 0 else role} is not among the sequences proved to leave exactly the new text"
            + (f"; real run: a page holding {old[:60]!r}... ({len(old)} chars) is rewritten to a text of {len(obs or '')} chars instead of the new "
               f"{len(new)} chars (stale tail {str(obs)[len(new):len(new) + 40]!r})" if wrong else ""),
            {"kind": "violation" if wrong else "broken-proof", "input": {"old": old, "new": new}, "observed": obs, "expected": new,
             "translated": [missing, exists] if i == 0 else role, "theorem_or_tie": "hypothesis `known_exact` of known_exact_sound / generation_writes_every_page",
             "replay_kind": "file-writer"}, found_input=bool(wrong))
    ctx.evaluated(len(cases), len(set(cases)))
    ctx.sample({"stream": "file-writer", "old_length": len(keep[4][0]), "new_length": len(new), "observed_equals_new": keep[4][1] == new})
    return len(bad)


# ---------------------------------------------------------------------------------------------
# B. patch.py / parse.py
# ---------------------------------------------------------------------------------------------

def check_shape_spec(abs_body, shape):
    """Specification predicates written from the property, evaluated on the IMPLEMENTATION's patched body.
    Returns a list of failed predicate names."""
    failed = []
    tr, final = D.spec_flag_trace(shape, True)
    if final is not True:
        failed.append("flag-not-restored")
    off = {i for i, f in tr if not f}
    if off != D.spec_disabled(abs_body):
        failed.append("wrong-statements-run-unevaluated")
    kept = [t for t in shape if not isinstance(t, str)]
    if kept != list(range(min(len(abs_body), max(D.spec_keep(abs_body), 1)))):
        failed.append("documented-prefix-not-kept")
    imported = False
    for t in shape:
        if t == "I":
            imported = True
        elif t in ("D", "R") and not imported and abs_body and abs_body[0][0] == "sconst":
            failed.append("call-before-import")
            break
    return failed


def tie_catalogue(ctx, sources):
    from symplyphysics.docs import patch as P  # pylint: disable=import-outside-toplevel
    cases, rows = [], []
    unmodelled = []
    for s in sources:
        try:
            tree = ast.parse(s["path"].read_text(encoding="utf-8"))
            ab = D.classify_body(tree.body)
            body_lit = D.coq_body(ab)
            _, shape = D.real_patch_shape(P, tree)
        except D.Unmodelled as e:
            unmodelled.append((s["dotted"], str(e)))
            continue
        cases.append(f"({body_lit}, {D.coq_shape(shape)})")
        rows.append((s, ab, shape))
    for dotted, why in unmodelled:
        ctx.violation(f"C19:unmodelled:{dotted}", f"module {dotted} is outside the modelled statement vocabulary: {why}",
            {"kind": "broken-tie", "item": dotted, "theorem_or_tie": "classifier vp/docs19.py", "why": why}, found_input=False)
    ty = "list stmt * list shape_tok"
    bad_shape = coqrun.eval_cases(ctx, "cat_shape", D.PREAMBLE, cases,
        f"fun c : {ty} => list_eqb shape_tok_eqb (shape (patch (fst c))) (snd c)")
    bad_side = coqrun.eval_cases(ctx, "cat_side", D.PREAMBLE, cases, f"fun c : {ty} => consistent_side (fst c)")
    for i in bad_shape:
        s, ab, shape = rows[i]
        failed = check_shape_spec(ab, shape)
        ctx.violation(f"C19:patch-shape:{s['dotted']}",
            f"patch_sympy_evaluate on {s['dotted']} differs from the model" + (f"; violated: {failed}" if failed else ""),
            {"kind": "disagreement", "item": s["dotted"], "path": str(s["path"]), "observed": {"shape": shape},
             "abstract_body": ab, "failed_predicates": failed, "theorem_or_tie": "shape (patch body) ~ patch_sympy_evaluate",
             "replay_kind": "module-shape"}, found_input=bool(failed))
    ctx.obligations(2 * len(cases), 2 * len(cases) - len(bad_shape) - len(bad_side))
    ctx.evaluated(len(cases), len(set(cases)))
    hist = collections.Counter()
    for _, ab, shape in rows:
        hist[f"disabled={sum(1 for t in shape if t == 'D')}"] += 1
    ctx.coverage["catalogue_modules"] = len(rows)
    ctx.coverage["catalogue_disabled_histogram"] = dict(sorted(hist.items()))
    if rows:
        s, ab, shape = rows[len(rows) // 2]
        ctx.sample({"stream": "catalogue", "module": s["dotted"], "abstract_body": [list(t) for t in ab], "patched_shape": shape})
    return rows, [rows[i] for i in bad_side], len(bad_shape)


SYN_TYPE = ("list stmt * list shape_tok * bool * (list (nat*bool) * bool) * (list (nat*bool) * bool) * "
    "list (string*bool*bool*nat) * list string")
SYN_CHECK = f"""fun c : {SYN_TYPE} =>
  let '(body, sh, err, (tr1, f1), (tr2, f2), mem, fns) := c in
  let p := patch body in
  let nonconst := fun x : nat * bool => match nth_error body (fst x) with Some (SConst _ _ _) => false | _ => true end in
  list_eqb shape_tok_eqb (shape p) sh &&
  (if err then negb (names_ok p) else
   names_ok p
   && list_eqb nat_bool_eqb (filter nonconst (trace true p)) tr1 && Bool.eqb (exec true p) f1
   && list_eqb nat_bool_eqb (filter nonconst (trace false p)) tr2 && Bool.eqb (exec false p) f2
   && list_eqb (fun a b : string*bool*bool*nat => let '(n1,s1,l1,i1) := a in let '(n2,s2,l2,i2) := b in
                  String.eqb n1 n2 && Bool.eqb s1 s2 && Bool.eqb l1 l2 && Nat.eqb i1 i2)
        (map (fun m : string * docflags => let '(n, (ev, s, l)) := m in
                (n, s, l, match last_binding n p None with Some i => i | None => 0 end)) (parse_members p)) mem
   && list_eqb String.eqb (parse_functions p) fns)"""


def run_synthetic(src: str, start: bool):
    """Real patch + real find_members_and_functions on a synthetic module; every non-constant statement records
    (its index, the flag) when executed."""
    from sympy.core.parameters import global_parameters as GP  # pylint: disable=import-outside-toplevel
    import sympy  # pylint: disable=import-outside-toplevel
    from symplyphysics.docs import patch as P, parse as PA  # pylint: disable=import-outside-toplevel
    rec_log = []

    def rec(i):
        rec_log.append((i, bool(GP.evaluate)))
        return sympy.Integer(1000 + i)

    rec.slots = {}
    builtins.vp_c19_rec = rec
    tree = ast.parse(src)
    patched, shape = D.real_patch_shape(P, tree)
    GP.evaluate = start
    try:
        members, functions = PA.find_members_and_functions(patched)
        final = bool(GP.evaluate)
    except NameError as e:
        if "sympy_evaluation" not in str(e):
            raise
        return {"shape": shape, "error": "NameError"}
    finally:
        restore_switches()
        del builtins.vp_c19_rec
    mem = [(m.name, any(d.directive_type == PA.LawDirectiveType.SYMBOL for d in m.directives),
        any(d.directive_type == PA.LawDirectiveType.LATEX for d in m.directives), int(m.value) - 1000) for m in members]
    return {"shape": shape, "error": None, "trace": list(rec_log), "final": final, "members": mem,
        "functions": [f.name for f in functions]}


def tie_synthetic(ctx):
    rng = ctx.rng
    n = ctx.pick(1500, 12000)
    cases, keep = [], []
    stats = collections.Counter()
    for k in range(n):
        ab = D.gen_abstract_body(rng, max_len=ctx.pick(14, 22), distinct_names=(k % 3 == 0))
        src = D.render_source(ab, rng)
        assert D.classify_body(ast.parse(src).body) == ab
        r1 = run_synthetic(src, True)
        body_lit, shape_lit = D.coq_body(ab), D.coq_shape(r1["shape"])
        if r1["error"]:
            stats["NameError (call before import)"] += 1
            cases.append(f"({body_lit}, {shape_lit}, true, ([], true), ([], true), [], [])")
            keep.append((ab, src, r1, None))
            continue
        r2 = run_synthetic(src, False)
        stats[f"disabled={len(D.spec_disabled(ab))}"] += 1
        if len(D.spec_disabled(ab)) < sum(1 for t in r1["shape"] if t == "D"):
            stats["member disabled more than once"] += 1
        tr = lambda r: D.coq_list(f"({i}, {D.coq_bool(b)})" for i, b in r["trace"])  # pylint: disable=unnecessary-lambda-assignment
        cases.append("(%s, %s, false, (%s, %s), (%s, %s), %s, %s)" % (body_lit, shape_lit, tr(r1), D.coq_bool(r1["final"]),
            tr(r2), D.coq_bool(r2["final"]),
            D.coq_list(f"({D.coq_string(a)}, {D.coq_bool(b)}, {D.coq_bool(c)}, {i})" for a, b, c, i in r1["members"]),
            D.coq_list(D.coq_string(f) for f in r1["functions"])))
        keep.append((ab, src, r1, r2))
    bad = coqrun.eval_cases(ctx, "synthetic", D.PREAMBLE, cases, SYN_CHECK)
    for i in bad[:25]:
        ab, src, r1, r2 = keep[i]
        failed = check_shape_spec(ab, r1["shape"])
        if r1["error"] is None:
            if r1["final"] is not True:
                failed.append("real-flag-not-restored")
            if {j for j, f in r1["trace"] if not f} != {j for j in D.spec_disabled(ab)}:
                failed.append("real-run-unevaluated-set-differs")
            kept_n = max(D.spec_keep(ab), 1)
            for name, _s, _l, vi in r1["members"]:
                own = [j for j, t in enumerate(ab[:kept_n]) if t[0] == "assign" and name in t[1]]
                if not own or vi != own[-1]:
                    failed.append(f"member-{name}-value-not-from-its-own-last-assignment")
        elif ab and ab[0][0] == "sconst":
            failed.append("NameError-in-module-with-docstring")
        ctx.violation(f"C19:synthetic:{sha(src)}",
            "real patch/exec of a synthetic module differs from the model" + (f"; violated: {failed}" if failed else ""),
            {"kind": "disagreement", "input": {"source": src}, "abstract_body": ab, "observed": r1, "observed_start_false": r2,
             "failed_predicates": failed, "theorem_or_tie": "patch/trace/exec/parse_members ~ real patch + exec",
             "replay_kind": "synthetic"}, found_input=bool(failed))
    nontrivial = len({c for c, k in zip(cases, keep) if k[2]["error"] or any(t == "D" for t in k[2]["shape"])})
    ctx.evaluated(len(cases), nontrivial)
    ctx.coverage["synthetic_histogram"] = dict(sorted(stats.items()))
    ab, src, r1, _ = keep[0]
    ctx.sample({"stream": "synthetic", "source": src, "patched_shape": r1["shape"], "flag_trace": r1.get("trace"),
        "members": r1.get("members")})
    return len(bad)


# ---------------------------------------------------------------------------------------------
# C. view.py: directive substitution
# ---------------------------------------------------------------------------------------------

def real_process_member_docstring():
    """the nested function of view._members_to_doc, rebuilt from its own code object"""
    from symplyphysics.docs import view as V  # pylint: disable=import-outside-toplevel
    code = next((c for c in V._members_to_doc.__code__.co_consts  # pylint: disable=protected-access
        if isinstance(c, types.CodeType) and c.co_name == "process_member_docstring"), None)
    if code is None:
        return None
    closure = tuple(types.CellType("vp-c19-synthetic-doc") for _ in code.co_freevars)
    return types.FunctionType(code, vars(V), "process_member_docstring", None, closure)


FRAGS = ["text ", "\n", "\n\n", ":", "::", ":laws:", ":laws:sym", ":laws:latex:", "bol::", "x = y", "    indented\n",
    "`q`", D.EVAL_STR, "Latex:", ".. math::"]
ALPH = "abcxyz_ =+*/(){}\\^"


def py_reference_substitute(doc, rs, rl):
    """before + render + middle + render + after at the FIRST occurrences; None when the two directives overlap"""
    p1, p2 = doc.find(D.SYM_STR), doc.find(D.LTX_STR)
    spans = sorted([(p, p + len(t), r) for p, t, r in ((p1, D.SYM_STR, rs), (p2, D.LTX_STR, rl)) if p >= 0])
    if len(spans) == 2 and spans[0][1] > spans[1][0]:
        return None
    out, last = [], 0
    for a, b, r in spans:
        out += [doc[last:a], r]
        last = b
    return "".join(out) + doc[last:]


def spec_view_ok(doc, code, ii_latex, out):
    """Specification predicate for the substitution, independent of the wording of the templates:
    out = before + X + middle + Y + after, where X / Y are the renderings of the first / second directive (X, Y contain
    the printed code resp. the indented latex).  None when the two directives overlap (outside the specification)."""
    p1, p2 = doc.find(D.SYM_STR), doc.find(D.LTX_STR)
    spans = sorted([(p, p + len(t), r) for p, t, r in ((p1, D.SYM_STR, code), (p2, D.LTX_STR, ii_latex)) if p >= 0])
    if not spans:
        return out == doc
    if len(spans) == 2 and spans[0][1] > spans[1][0]:
        return None
    before, after = doc[:spans[0][0]], doc[spans[-1][1]:]
    if not (out.startswith(before) and out.endswith(after) and len(out) >= len(before) + len(after)):
        return False
    rest = out[len(before):len(out) - len(after)]
    if len(spans) == 1:
        return spans[0][2] in rest
    middle = doc[spans[0][1]:spans[1][0]]
    k = rest.find(middle)
    while k >= 0:
        if spans[0][2] in rest[:k] and spans[1][2] in rest[k + len(middle):]:
            return True
        k = rest.find(middle, k + 1)
    return False


def tie_view(ctx):
    from symplyphysics import Symbol  # pylint: disable=import-outside-toplevel
    from symplyphysics.docs import view as V, parse as PA  # pylint: disable=import-outside-toplevel
    from symplyphysics.docs.printer_code import code_str  # pylint: disable=import-outside-toplevel
    from symplyphysics.docs.printer_latex import latex_str  # pylint: disable=import-outside-toplevel
    pmd = real_process_member_docstring()
    if pmd is None:
        ctx.violation("C19:view:process_member_docstring-not-found",
            "view._members_to_doc no longer contains process_member_docstring; the substitution tie cannot run",
            {"kind": "broken-tie", "theorem_or_tie": "process_docstring ~ view.py"}, found_input=False)
        return 0
    rng = ctx.rng
    n = ctx.pick(800, 6000)
    cases, keep = [], []
    stats = collections.Counter()
    for _ in range(n):
        parts = []
        for _ in range(rng.randrange(0, 8)):
            r = rng.random()
            parts.append(D.SYM_STR if r < 0.25 else D.LTX_STR if r < 0.5 else rng.choice(FRAGS))
        doc = "".join(parts)
        c0 = "".join(rng.choice(ALPH) for _ in range(rng.choice([1, 2, 5, 14, 15, 30])))
        l0 = "".join(rng.choice(ALPH) for _ in range(rng.choice([1, 2, 5, 13, 14, 40])))
        if rng.random() < 0.2:
            l0 += "\nz^2"
        val = Symbol(c0, display_latex=l0)
        c, l = code_str(val), latex_str(val)
        dirs = PA._find_law_directives(doc)  # pylint: disable=protected-access
        out = pmd(PA.MemberWithDoc("name", doc, None, dirs, val))
        ii = V._indent_docstring(l, count=2)  # pylint: disable=protected-access
        stats[f"directives={len(dirs)}"] += 1
        if len(dirs) == 2 and dirs[0].start > dirs[1].start:
            stats["latex before symbol"] += 1
        try:
            dl = D.coq_list(f"({d.start}, {d.end}, {D.coq_bool(d.directive_type == PA.LawDirectiveType.SYMBOL)})" for d in dirs)
            cases.append(f"({D.coq_string(doc)}, {D.coq_string(c)}, {D.coq_string(ii)}, {dl}, {D.coq_string(out)})")
        except D.Unmodelled:
            continue
        keep.append((doc, c, l, ii, out))
    bad = coqrun.eval_cases(ctx, "view", D.PREAMBLE, cases,
        """fun c : string * string * string * list (nat*nat*bool) * string =>
  let '(doc, code, ii, dirs, out) := c in
  list_eqb (fun a b : nat*nat*bool => let '(a1,a2,a3) := a in let '(b1,b2,b3) := b in Nat.eqb a1 b1 && Nat.eqb a2 b2 && Bool.eqb a3 b3)
     (map dir_obs (find_directives (txt doc))) dirs
  && text_eqb (process_docstring (render_with (txt code) (txt ii)) (txt doc)) (txt out)""")
    for i in bad[:20]:
        doc, c, l, ii, out = keep[i]
        exp = py_reference_substitute(doc, f":code:`{c}`\n", f"Latex:\n    .. math::\n{ii}\n")
        ok = spec_view_ok(doc, c, ii, out)
        ctx.violation(f"C19:view:{sha(doc + c + l)}", "directive substitution differs from the model on a seeded docstring",
            {"kind": "disagreement", "input": {"docstring": doc, "code": c, "latex": l}, "observed": out,
             "expected_with_current_templates": exp, "specification_holds": ok,
             "theorem_or_tie": "process_docstring ~ _find_law_directives + process_member_docstring", "replay_kind": "view"},
            found_input=(ok is False))
    ctx.evaluated(len(cases), len({c for c, k in zip(cases, keep) if D.SYM_STR in k[0] or D.LTX_STR in k[0]}))
    ctx.coverage["view_histogram"] = dict(sorted(stats.items()))
    ctx.sample({"stream": "view", "docstring": keep[1][0], "code": keep[1][1], "latex": keep[1][2], "result": keep[1][4]})
    return len(bad)


# ---------------------------------------------------------------------------------------------
# D. exploration: pages of the real generator against reference values
# ---------------------------------------------------------------------------------------------

HEAD = re.compile(r"^\.\. py:(data|function):: (.*)$")


def split_page(page: str):
    """-> (header text, [(kind, name, [lines])]) ; blocks start at a column-0 `.. py:data::` / `.. py:function::`"""
    header, blocks, cur = [], [], None
    for ln in page.split("\n"):
        m = HEAD.match(ln)
        if m:
            cur = (m.group(1), m.group(2).strip(), [])
            blocks.append(cur)
        elif cur is None:
            header.append(ln)
        else:
            cur[2].append(ln)
    return "\n".join(header), blocks


def split_member_block(lines):
    """doc part (indented) and symbol-table part (starts at the first non-empty column-0 line)"""
    for i, ln in enumerate(lines):
        if ln and not ln[0].isspace():
            return lines[:i], lines[i:]
    return lines, []


def norm(lines):
    return [ln.strip() for ln in lines if ln.strip()]


def expected_items(m):
    """the member's docstring as a sequence of expected page lines / renderings"""
    doc = re.sub(r"\n?:laws:sympy-eval::\n?", "", m["doc"]).strip("\n")
    items = []
    for ln in doc.splitlines():
        s = ln.strip()
        if not s:
            continue
        if s == D.SYM_STR:
            items.append(("sym", m.get("code")))
        elif s == D.LTX_STR:
            items.append(("ltx", norm((m.get("latex") or "").splitlines())))
        elif D.SYM_STR in s or D.LTX_STR in s:
            items.append(("inline", s))
        else:
            items.append(("text", s))
    return items


TOKEN = re.compile(r"[A-Za-z_]+|\\[A-Za-z]+|\d+|\S")


def tokens(s: str):
    return collections.Counter(TOKEN.findall(s))


def same_up_to_term_order(a: str, b: str) -> bool:
    """the two texts consist of the same tokens, possibly in another order (x*y vs y*x)"""
    return tokens(a) == tokens(b)


def classify_diff(x: str, y: str) -> str:
    lx, ly = x.split("\n"), y.split("\n")
    if len(lx) != len(ly):
        return "other"
    return "term-order" if all(a == b or same_up_to_term_order(a, b) for a, b in zip(lx, ly)) else "other"


def match_doc(items, page_lines):
    """None when the page block shows the docstring with the placeholders replaced by the expected renderings
    (decoration lines of the templates are tolerated); otherwise a description of the first difference."""
    j = 0
    for kind, val in items:
        if kind == "text":
            if j >= len(page_lines) or page_lines[j] != val:
                return f"text line {val!r} expected, page has {page_lines[j] if j < len(page_lines) else None!r}"
            j += 1
        elif kind == "sym":
            if val is None:
                return "reference rendering unavailable"
            if j >= len(page_lines) or f"`{val}`" not in page_lines[j]:
                if j < len(page_lines) and not (tokens(f"`{val}`") - tokens(page_lines[j])):
                    return f"TERM-ORDER: code rendering `{val}` expected, page has {page_lines[j]!r}"
                return f"code rendering `{val}` expected, page has {page_lines[j] if j < len(page_lines) else None!r}"
            j += 1
        elif kind == "ltx":
            k = len(val)
            for skip in range(0, 4):
                if page_lines[j + skip:j + skip + k] == val and all(
                        not any(tok in page_lines[j + s] for tok in PLACEHOLDERS) for s in range(skip)):
                    j += skip + k
                    break
            else:
                for skip in range(0, 4):
                    if same_up_to_term_order(" ".join(page_lines[j + skip:j + skip + k]), " ".join(val)):
                        return f"TERM-ORDER: latex rendering {val!r} expected near {page_lines[j:j + 4]!r}"
                return f"latex rendering {val!r} expected near {page_lines[j:j + 4]!r}"
        else:
            return f"directive shares a line with text ({val!r}): outside the modelled page check"
    if j != len(page_lines):
        return f"unexpected extra lines {page_lines[j:j + 3]!r}"
    return None


def match_row(row, table_lines):
    """symbol table: code name, LaTeX name, dimension of the live object, under their headings"""
    t = norm(table_lines)
    if row is None:
        return None if not t else f"unexpected symbol table {t[:3]!r}"
    want = [("symbol", row["code"]), ("latex", row["latex"]), ("dimension", row["dimension"])]
    j = 0
    for head, val in want:
        while j < len(t) and not t[j].lower().startswith(head):
            j += 1
        if j + 1 >= len(t):
            return f"no '{head}' entry in the symbol table"
        if f"`{val}`" not in t[j + 1]:
            return f"{head}: `{val}` expected, page has {t[j + 1]!r}"
        ind = row.get("independent")
        if ind and head in ("symbol", "latex"):
            # the same entry against a name computed without docs/printer_* (display_name / display_latex / own index)
            m = re.search(r"`(.*)`", t[j + 1])
            shown = m.group(1) if m else t[j + 1]
            why = independent_mismatch(ind, head, shown)
            if why:
                return f"{head}: {why}"
        j += 2
    return None


def _nz(x: str) -> str:
    """LaTeX names are compared up to grouping braces, backslashes (sympy turns `mu` into `\\mu`) and blanks"""
    return re.sub(r"[{}\\\s]", "", x)


def independent_mismatch(ind, head, shown):
    if head == "symbol":
        if "code" in ind:
            return None if shown == ind["code"] else f"the live object is named `{ind['code']}` (display name / own index), page has `{shown}`"
        return None if shown.startswith(ind["code_prefix"]) else f"name should start with `{ind['code_prefix']}`, page has `{shown}`"
    if "latex" in ind:
        return None if _nz(shown) == _nz(ind["latex"]) else f"the live object's LaTeX name is `{ind['latex']}` (up to braces), page has `{shown}`"
    return None if _nz(shown).startswith(_nz(ind["latex_prefix"])) else f"LaTeX name should start with `{ind['latex_prefix']}`, page has `{shown}`"


def index_consistency(row_code_shown, ind, formula_lines):
    """an indexed member must appear in the page's formulas with the subscript its table entry shows"""
    if not ind or ind.get("kind") != "indexed":
        return None
    m = re.fullmatch(re.escape(ind["base"]) + r"\[(\w+)\]", row_code_shown or "")
    if not m:
        return None
    used = set()
    for ln in formula_lines:
        used |= set(re.findall(r"(?<![\w])" + re.escape(ind["base"]) + r"\[(\w+)\]", ln))
    if used and m.group(1) not in used:
        return f"table lists `{row_code_shown}` but the page's formula uses subscript(s) {sorted(used)}"
    return None


def check_pages(ctx, sources, raw, ref, label="raw"):
    """F1-F4 on the pages before role processing"""
    n_checked = n_formula = n_rows = n_indexed = 0
    term_order = []
    by_page = collections.defaultdict(list)
    for s in sources:
        by_page[s["stem"] + ".rst"].append(s)
    # F1 exactly one page per documented module/package
    for page, ss in by_page.items():
        if len(ss) > 1:
            ctx.violation(f"C19:page-collision:{page}", f"{len(ss)} documented sources map to the same page {page}",
                {"kind": "violation", "item": page, "sources": [str(x["path"]) for x in ss], "replay_kind": "pages"})
        if page not in raw:
            ctx.violation(f"C19:page-missing:{page}", f"no page was generated for documented {ss[0]['kind']} {ss[0]['dotted']}",
                {"kind": "violation", "item": ss[0]["dotted"], "path": str(ss[0]["path"]), "expected": page, "replay_kind": "page"})
    for page in raw:
        if page not in by_page:
            ctx.violation(f"C19:page-unexpected:{page}", f"page {page} does not belong to any documented module or package",
                {"kind": "violation", "item": page, "replay_kind": "pages"})
    for s in sources:
        page = s["stem"] + ".rst"
        text = raw.get(page)
        if text is None:
            continue
        n_checked += 1
        key = s["stem"] + "|" + s["kind"]
        r = ref.get(key)
        rep = {"item": s["dotted"], "path": str(s["path"]), "page": page, "replay_kind": "page"}
        # F2 no placeholder left
        for ph in PLACEHOLDERS:
            if ph in text:
                ctx.violation(f"C19:placeholder-left:{s['stem']}:{ph}", f"page {page} still contains {ph}",
                    dict(rep, kind="violation", observed=[ln for ln in text.splitlines() if ph in ln][:3]))
        header, blocks = split_page(text)
        if f".. py:currentmodule:: {s['dotted']}" not in header:
            ctx.violation(f"C19:page-module:{s['stem']}", f"page {page} does not declare module {s['dotted']}",
                dict(rep, kind="violation", observed=[ln for ln in header.splitlines() if "currentmodule" in ln]))
        title = (ast.get_docstring(ast.parse(s["path"].read_text(encoding="utf-8"))) or "").splitlines()[0].strip()
        if not header.startswith(title):
            ctx.violation(f"C19:page-title:{s['stem']}", f"page {page} does not start with the module's title {title!r}",
                dict(rep, kind="violation", observed=header[:120]))
        if r is None or r.get("error"):
            ctx.violation(f"C19:reference:{s['stem']}", f"reference execution of {s['dotted']} failed: {(r or {}).get('error')}",
                dict(rep, kind="broken-tie", theorem_or_tie="vp/docs19_worker.py reference", detail=(r or {}).get("traceback")),
                found_input=False)
            continue
        page_members = [(n, ls) for k, n, ls in blocks if k == "data"]
        page_funcs = [n.split("(")[0] for k, n, ls in blocks if k == "function"]
        exp_names = [m["name"] for m in r["members"]]
        if [n for n, _ in page_members] != exp_names:
            ctx.violation(f"C19:members:{s['stem']}", f"page {page} lists members {[n for n, _ in page_members]}, the module documents {exp_names}",
                dict(rep, kind="violation", observed=[n for n, _ in page_members], expected=exp_names))
            continue
        if page_funcs != r["functions"]:
            ctx.violation(f"C19:functions:{s['stem']}", f"page {page} lists functions {page_funcs}, the module documents {r['functions']}",
                dict(rep, kind="violation", observed=page_funcs, expected=r["functions"]))
        formula_lines = [ln for (_n, ls), mm in zip(page_members, r["members"]) if mm["has_symbol"]
            for ln in norm(split_member_block(ls)[0]) if ":code:" in ln]
        for (name, lines), m in zip(page_members, r["members"]):
            doc_lines, table = split_member_block(lines)
            if m.get("print_error"):
                ctx.violation(f"C19:reference-print:{s['stem']}:{name}", f"printers fail on the reference object of {s['dotted']}.{name}: {m['print_error']}",
                    dict(rep, kind="broken-tie", theorem_or_tie="reference rendering", member=name), found_input=False)
                continue
            why = match_doc(expected_items(m), norm(doc_lines))
            if m["has_symbol"] or m["has_latex"]:
                n_formula += 1
            if why and why.startswith("TERM-ORDER"):
                term_order.append({"page": page, "member": name, "why": why})
            elif why:
                ctx.violation(f"C19:formula:{s['stem']}:{name}",
                    f"page {page}, member {name}: docstring/placeholder not rendered from the module's own object: {why}",
                    dict(rep, kind="violation", member=name, observed=norm(doc_lines)[:12],
                        expected={"code": m.get("code"), "latex": m.get("latex")}, why=why))
            why = match_row(m.get("row"), table)
            if m.get("row"):
                n_rows += 1
                if (m["row"].get("independent") or {}).get("kind") == "indexed":
                    n_indexed += 1
                    tn = norm(table)
                    shown = next((re.search(r"`(.*)`", tn[q + 1]).group(1) for q in range(len(tn) - 1)
                        if tn[q].lower().startswith("symbol") and re.search(r"`(.*)`", tn[q + 1])), None)
                    why = why or index_consistency(shown, m["row"]["independent"], formula_lines)
            if why:
                ctx.violation(f"C19:symbol-row:{s['stem']}:{name}",
                    f"page {page}, member {name}: symbol table does not show the live object's fields: {why}",
                    dict(rep, kind="violation", member=name, observed=norm(table), expected=m.get("row"), why=why))
    ctx.coverage[f"pages_checked_{label}"] = n_checked
    ctx.coverage["formula_members_checked"] = n_formula
    ctx.coverage["symbol_rows_checked"] = n_rows
    ctx.coverage["indexed_rows_checked"] = n_indexed
    return n_checked, n_formula, n_rows, term_order


SYMROLE = re.compile(r":symbols:`(\w*)`")
QROLE = re.compile(r":quantity_notation:`(\w*)`")


def symbol_index():
    """name -> [symbols submodule, ...] (independent of docs/symbols_role.py)"""
    import importlib  # pylint: disable=import-outside-toplevel
    import pkgutil  # pylint: disable=import-outside-toplevel
    from symplyphysics import symbols, Symbol  # pylint: disable=import-outside-toplevel
    idx = collections.defaultdict(list)
    for info in sorted(pkgutil.iter_modules(symbols.__path__), key=lambda i: i.name):
        mod = importlib.import_module("symplyphysics.symbols." + info.name)
        for a in dir(mod):
            if isinstance(getattr(mod, a), Symbol):
                idx[a].append(info.name)
    return idx


def check_roles(ctx, raw, gen):
    """F5: final page == raw page with every role replaced by the reference of the live object"""
    from symplyphysics import quantities, Quantity  # pylint: disable=import-outside-toplevel
    idx = symbol_index()
    n_roles = 0
    used_ambiguous = collections.defaultdict(list)
    for page, text in raw.items():
        final = gen.get(page)
        if final is None:
            ctx.violation(f"C19:final-page-missing:{page}", f"page {page} is missing after role processing",
                {"kind": "violation", "item": page, "replay_kind": "pages"})
            continue
        alts = [""]
        pos = 0
        problem = None
        for m in sorted(list(SYMROLE.finditer(text)) + list(QROLE.finditer(text)), key=lambda m: m.start()):
            n_roles += 1
            name = m.group(1)
            if m.re is SYMROLE:
                mods = idx.get(name, [])
                if not mods:
                    problem = f":symbols:`{name}` names no symbol of symplyphysics.symbols"
                    break
                if len(mods) > 1:
                    used_ambiguous[name].append(page)
                reps = [f":attr:`~symplyphysics.symbols.{mod}.{name}`" for mod in mods]
            else:
                q = getattr(quantities, name, None)
                if not isinstance(q, Quantity):
                    problem = f":quantity_notation:`{name}` names no constant of symplyphysics.quantities"
                    break
                reps = [f":math:`{q.display_latex}` (:code:`{q.display_name}`) is :attr:`~symplyphysics.quantities.{name}`"]
            alts = [a + text[pos:m.start()] + r for a in alts for r in reps][:64]
            pos = m.end()
        if problem:
            ctx.violation(f"C19:role-unresolved:{page}", f"page {page}: {problem}", {"kind": "violation", "item": page,
                "why": problem, "replay_kind": "pages"})
            continue
        alts = [a + text[pos:] for a in alts]
        if final not in alts:
            ctx.violation(f"C19:role:{page}", f"page {page}: roles are not replaced by references to the live symbols/constants",
                {"kind": "violation", "item": page, "replay_kind": "pages",
                 "observed": [ln for ln in final.splitlines() if ":attr:" in ln][:5],
                 "expected": [ln for ln in alts[0].splitlines() if ":attr:" in ln][:5]})
        for left in (":symbols:`", ":quantity_notation:`"):
            if left in final:
                ctx.violation(f"C19:role-left:{page}", f"page {page} still contains an unresolved {left}...` role",
                    {"kind": "violation", "item": page, "replay_kind": "pages"})
    ctx.coverage["roles_checked"] = n_roles
    return idx, used_ambiguous


def compare_runs(ctx, a_pages, b_pages, what, ambiguous=()):
    """byte-identical? differences explained only by an ambiguous symbol name are attributed to that name"""
    diff = []
    for page in sorted(set(a_pages) | set(b_pages)):
        x, y = a_pages.get(page), b_pages.get(page)
        if x == y:
            continue
        explained = None
        if x is not None and y is not None:
            nx, ny = x, y
            for name in ambiguous:
                pat = re.compile(r"~symplyphysics\.symbols\.\w+\." + re.escape(name) + "`")
                nx, ny = pat.sub(f"~AMBIGUOUS.{name}`", nx), pat.sub(f"~AMBIGUOUS.{name}`", ny)
            if nx == ny:
                explained = [name for name in ambiguous if f".{name}`" in x]
        diff.append((page, explained))
    for page, explained in diff:
        if explained:
            continue      # reported under C19:nondeterministic-role:<name>
        ctx.violation(f"C19:nondeterministic:{what}:{page}", f"two runs of the generator produced different bytes for {page} ({what})",
            {"kind": "violation", "item": page, "what": what, "replay_kind": "determinism"})
    return diff


def exception_path_observation(ctx):
    """Outside the property's "once it finishes": a documented member that raises leaves the flag off."""
    from sympy.core.parameters import global_parameters as GP  # pylint: disable=import-outside-toplevel
    from symplyphysics.docs import patch as P, parse as PA  # pylint: disable=import-outside-toplevel
    src = '"""\nT\n=\n"""\nlaw = 1 / 0\n"""\n:laws:symbol::\n"""\n'
    try:
        PA.find_members_and_functions(P.patch_sympy_evaluate(ast.parse(src)))
        res = "no exception"
    except ZeroDivisionError:
        res = f"ZeroDivisionError raised; flag afterwards = {GP.evaluate!r}"
    finally:
        restore_switches()
    ctx.coverage["exception_path_observation"] = res


# ---------------------------------------------------------------------------------------------

def order_items(sources_all, documented, rng):
    """every candidate source (documented or not) as an item for the page-by-page worker, shuffled"""
    doc_laws = collections.defaultdict(list)
    for s in documented:
        if s["kind"] == "law":
            doc_laws[str(s["dir"])].append(s["stem"])
    items = []
    for s in sources_all:
        d = Path("symplyphysics") / s["dir"].relative_to(common.REPO / "symplyphysics")
        if s["kind"] == "law":
            items.append({"id": s["stem"] + "|law", "kind": "law", "dir": str(d), "file": s["path"].name})
        else:
            subdirs = sorted(p.name for p in s["dir"].iterdir() if p.is_dir())
            items.append({"id": s["stem"] + "|package", "kind": "package", "dir": str(d),
                "laws": sorted(doc_laws.get(str(s["dir"]), [])), "packages": subdirs})
    rng.shuffle(items)
    return items


class Capped:
    """Forwards to the real context but reports at most `cap` violations per family (C19:<family>:...); the totals
    go to the evidence.  A single broken line of the generator otherwise yields one line per module."""

    def __init__(self, ctx, cap=6):
        self._ctx = ctx
        self._cap = cap
        self.counts = collections.Counter()
        self._seen = set()

    def __getattr__(self, name):
        return getattr(self._ctx, name)

    def violation(self, key, what, replay, found_input=True):  # pylint: disable=redefined-outer-name
        if key in self._seen:
            return
        self._seen.add(key)
        fam = key.split(":")[1] if ":" in key else key
        self.counts[fam] += 1
        if self.counts[fam] <= self._cap:
            self._ctx.violation(key, what, replay, found_input)


def run(ctx):
    ctx.level = "proof"
    ctx.static(STATIC)
    ctx.trust("Coq 8.16.1 kernel incl. vm_compute (no native_compute)",
        "harness/vp/docs19.py: AST statement -> abstract stmt classifier, Gallina literal printers, synthetic module generator",
        "harness/vp/docs19_worker.py: reference executor (statement-by-statement exec with evaluation off exactly around "
        "the statements the specification marks) and the page checkers of props/c19.py",
        "CPython ast/compile/exec, the file system and SymPy's global_parameters are the runtime (observed, not modelled)",
        "code_str / latex_str / print_dimension are used as given (their fidelity is C17/C18)",
        "Sphinx is not run; only the rST stage (docs/build.py -R) is covered")
    ctx.assume("top-level statements of catalogue modules leave global_parameters.evaluate as they found it "
        "(`with evaluate(False):` blocks restore it); checked dynamically after every page in the seeded-order runs",
        "processors._old_evaluation keeps its import-time value True (read back on every run)",
        "a member's docstring is the string constant(s) following its assignment; binding of names by statements other "
        "than plain assignments / defs is not modelled (side condition of patch_parse_consistent_partial)")

    from sympy.core.parameters import global_parameters as GP0  # pylint: disable=import-outside-toplevel
    ctx.coverage["global_parameters_at_start"] = dict(vars(GP0))
    _RECORD0.update(vars(GP0))
    sources = D.documented_sources(common.REPO)
    scratch = Path(tempfile.mkdtemp(prefix="vp_c19_"))
    ctx.coverage["scratch_dir"] = str(scratch)
    capped = Capped(ctx)
    try:
        _run(capped, sources, scratch)
    finally:
        shutil.rmtree(scratch, ignore_errors=True)
        ctx.coverage["violations_by_family_before_cap"] = dict(capped.counts)


def candidate_sources():
    """all .py files / packages the generator visits (documented or not)"""
    out = []
    base = common.REPO / "symplyphysics"
    for path, dirs, files in os.walk(base):
        p = Path(path)
        rel = p.relative_to(common.REPO).parts
        if p.name.startswith((".", "_")) or (len(rel) == 2 and rel[1] == "core"):
            dirs.clear()
            continue
        dirs.sort()
        for f in sorted(files):
            if f.startswith("__") or not f.endswith(".py"):
                continue
            out.append({"kind": "law", "path": p / f, "stem": ".".join(rel[1:] + (f[:-3],)), "dir": p})
        if (p / "__init__.py").exists():
            out.append({"kind": "package", "path": p / "__init__.py", "stem": ".".join(rel[1:]), "dir": p})
    return out


def _run(ctx, sources, scratch):
    rng = ctx.rng
    t0 = time.time()
    alt_seed = str(rng.randrange(1, 4000))
    base = {"repo": str(common.REPO), "harness": HARNESS}
    jobs = {
        "A": Job(scratch, "runA", "full", dict(base, fresh_import=rng.sample([s["dotted"] for s in sources if s["kind"] == "law"],
            k=len([s for s in sources if s["kind"] == "law"])), fresh_cap=ctx.pick(40, 10000)), "0"),
        "B": Job(scratch, "runB", "full", base, alt_seed),
        "ref": Job(scratch, "ref", "reference", dict(base, sources=[
            {"stem": s["stem"], "kind": s["kind"], "path": str(s["path"]), "dotted": s["dotted"]} for s in sources]), "0"),
    }
    jobs["rebuild"] = Job(scratch, "rebuild", "rebuild", dict(base, seed=rng.randrange(10**9),
        pages=sorted({s["stem"] + ".rst" for s in sources} | {"index.rst"})), "0")
    cands = candidate_sources()
    n_orders = ctx.pick(1, 3)
    order_specs = []
    for k in range(n_orders):
        items = order_items(cands, sources, rng)
        order_specs.append(items)
        jobs[f"ord{k}"] = Job(scratch, f"ord{k}", "order", dict(base, items=items), "0")

    # ---- proof-part ties, while the workers run ----
    d1 = tie_processors(ctx) + tie_switches(ctx) + tie_filewriter(ctx, scratch)
    rows, side_fail, d2 = tie_catalogue(ctx, sources)
    d3 = tie_synthetic(ctx)
    d4 = tie_view(ctx)
    ctx.coverage["disagreements"] = d1 + d2 + d3 + d4
    ctx.coverage["tie_s"] = round(time.time() - t0, 1)
    exception_path_observation(ctx)

    # ---- collect workers ----
    outs = {k: j.wait() for k, j in jobs.items()}
    ctx.coverage["worker_elapsed_s"] = {k: o.get("elapsed_s") for k, o in outs.items()}
    for k, o in outs.items():
        if not o.get("ok"):
            ctx.violation(f"C19:worker:{k}", f"worker {k} failed: {o.get('error')}",
                {"kind": "broken-tie", "theorem_or_tie": f"vp/docs19_worker.py {jobs[k].mode}", "traceback": o.get("traceback")},
                found_input=False)
    A, B, R = outs["A"], outs["B"], outs["ref"]
    ctx.coverage["generator_implementation"] = A.get("implementation")

    # totality
    for k, o in (("A", A), ("B", B)):
        if o.get("ok") and not o.get("main_ok"):
            ctx.violation("C19:generation-raises", f"docs/build.py main() did not finish: {o.get('main_error')} (cause: {o.get('main_cause')})",
                {"kind": "violation", "observed": o.get("main_error"), "cause": o.get("main_cause"),
                 "traceback": o.get("main_traceback"), "replay_kind": "generate"})
        if o.get("ok") and not o.get("raw_ok"):
            ctx.violation("C19:generation-raises:second-run", f"generate_laws_docs raised on a second run in the same process: {o.get('raw_error')}",
                {"kind": "violation", "observed": o.get("raw_error"), "traceback": o.get("raw_traceback"), "replay_kind": "generate"})

    # global state
    for k, o in (("A", A), ("B", B)):
        if not o.get("ok"):
            continue
        before = o["before"]
        for stage in ("after_main", "after_raw"):
            after = o.get(stage) or {}
            if after.get("flag") is not True:
                ctx.violation("C19:flag-after-generation", f"sympy global_parameters.evaluate is {after.get('flag')!r} after the generator finished ({stage})",
                    {"kind": "violation", "observed": after, "expected": "evaluate is True", "replay_kind": "generate"})
            for probe in sorted(set(before) | set(after)):
                if probe == "flag":
                    continue
                if after.get(probe) != before.get(probe):
                    ctx.violation(f"C19:computation-changed:{probe}", f"{probe} gives {after.get(probe)!r} after generation, {before.get(probe)!r} before",
                        {"kind": "violation", "observed": after, "expected": before, "replay_kind": "generate"})
    ctx.sample({"stream": "generation", "before": A.get("before"), "after": A.get("after_main"), "seconds": A.get("main_s")})

    def raw_pages(job, which):
        return {k: v for k, v in read_pages(job.dir / which).items() if k != "index.rst"}

    rawA, genA = raw_pages(jobs["A"], "raw1"), read_pages(jobs["A"].dir / "gen")      # same generation, before / after roles
    rawB, genB = raw_pages(jobs["B"], "raw1"), read_pages(jobs["B"].dir / "gen")
    rawA2 = raw_pages(jobs["A"], "raw2")                                                # second generation, same process
    ctx.coverage["pages_generated"] = len(rawA)
    history = []          # pages whose bytes depend on what was generated earlier in the process
    ref = R.get("reference", {}) if R.get("ok") else {}
    if R.get("ok") and (R.get("after") or {}).get("flag") is not True:
        ctx.violation("C19:reference-worker-flag", "reference worker left the flag off (harness bug)",
            {"kind": "broken-tie", "theorem_or_tie": "reference worker"}, found_input=False)

    pages_ok = bool(A.get("ok") and A.get("main_ok"))
    if not pages_ok:
        # the generator did not finish: page-level differences are consequences of that, not separate findings
        rawA, genA, rawA2 = {}, {}, {}
        sources_for_pages = []
    else:
        sources_for_pages = sources
    # modules imported for the first time after generation vs the same module imported in a clean process
    live_code = {}
    for s in sources:
        for m in (ref.get(s["stem"] + "|" + s["kind"]) or {}).get("members", []):
            if "live_code" in m:
                live_code.setdefault(s["dotted"], {})[m["name"]] = m["live_code"]
    n_fresh = 0
    for dotted, got in (A.get("fresh_imports") or {}).items():
        n_fresh += 1
        for attr, code in got.items():
            exp = live_code.get(dotted, {}).get(attr)
            if attr == "__error__":
                ctx.violation(f"C19:fresh-import:{dotted}", f"{dotted} cannot be imported after generation: {code}",
                    {"kind": "violation", "item": dotted, "observed": code, "replay_kind": "generate"})
            elif exp is not None and code != exp and not same_up_to_term_order(code, exp):
                ctx.violation(f"C19:fresh-import:{dotted}:{attr}",
                    f"{dotted}.{attr} imported for the first time after generation is `{code}`, in a clean process it is `{exp}`",
                    {"kind": "violation", "item": dotted, "member": attr, "observed": code, "expected": exp, "replay_kind": "generate"})
    ctx.coverage["fresh_imports_after_generation"] = n_fresh
    n_checked, n_formula, n_rows, term_order = check_pages(ctx, sources_for_pages, rawA, ref)
    for t in term_order:
        history.append(dict(t, experiment="generator run vs reference execution"))
    genA_pages = {k: v for k, v in genA.items() if k != "index.rst"}
    if "index.rst" not in genA and pages_ok:
        ctx.violation("C19:page-missing:index.rst", "index.rst was not copied to the generated directory",
            {"kind": "violation", "item": "index.rst", "replay_kind": "pages"})
    idx, used_amb = check_roles(ctx, rawA, genA_pages)

    # side condition of patch_parse_consistent_partial failing on a catalogue module: is the page wrong?
    flagged = {v.key for v in ctx.violations}
    for s, ab, shape in side_fail:
        hit = any(k.startswith(f"C19:formula:{s['stem']}:") or k.startswith(f"C19:members:{s['stem']}") for k in flagged)
        ctx.violation(f"C19:side-condition:{s['dotted']}",
            f"{s['dotted']}: patch.py and parse.py may attribute a docstring to different members (consistent_side = false)",
            {"kind": "broken-proof", "item": s["dotted"], "path": str(s["path"]), "abstract_body": ab,
             "theorem_or_tie": "hypothesis of patch_parse_consistent_partial", "replay_kind": "module-shape"}, found_input=hit)

    # determinism: the same process twice
    if A.get("raw_ok") and pages_ok:
        for page in sorted(set(rawA) | set(rawA2)):
            x, y = rawA.get(page), rawA2.get(page)
            if x == y:
                continue
            if x is not None and y is not None and classify_diff(x, y) == "term-order":
                history.append({"page": page, "experiment": "second generation in the same process",
                    "first": [a for a, b in zip(x.split("\n"), y.split("\n")) if a != b][:2],
                    "second": [b for a, b in zip(x.split("\n"), y.split("\n")) if a != b][:2]})
            else:
                ctx.violation(f"C19:nondeterministic:repeat:{page}", f"page {page} differs when the generator runs a second time in the same process",
                    {"kind": "violation", "item": page, "replay_kind": "determinism"})
    # two processes, two hash seeds
    ambiguous = sorted(n for n, mods in idx.items() if len(mods) > 1)
    if not (pages_ok and B.get("ok") and B.get("main_ok")):
        rawB, genB = rawA, genA
    compare_runs(ctx, rawA, rawB, f"rst before roles, PYTHONHASHSEED 0 vs {alt_seed}")
    diffs = compare_runs(ctx, genA, genB, f"final rst, PYTHONHASHSEED 0 vs {alt_seed}", ambiguous)
    ctx.coverage["hashseed_compared"] = ["0", alt_seed]
    ctx.coverage["pages_differing_between_hash_seeds"] = [p for p, e in diffs]
    # ambiguous symbol names used by a :symbols: role: resolution depends on set iteration order
    if used_amb:
        seeds = ["0", alt_seed] + [str(x) for x in range(1, 7)]
        pj = [Job(scratch, f"roles{hs}_{i}", "roles", dict(base, strings=[f":symbols:`{n}`" for n in sorted(used_amb)]), hs)
            for i, hs in enumerate(seeds)]
        pres = [j.wait() for j in pj]
        for col, name in enumerate(sorted(used_amb)):
            seen = {}
            for hs, o in zip(seeds, pres):
                if o.get("ok"):
                    seen.setdefault(o["results"][col], hs)
            ctx.violation(f"C19:nondeterministic-role:{name}",
                f":symbols:`{name}` is defined in symbols.{' and symbols.'.join(idx[name])}; the generated cross-reference depends on the "
                f"iteration order of a set (PYTHONHASHSEED): {seen}",
                {"kind": "violation", "item": name, "pages": sorted(used_amb[name])[:10], "observed": seen,
                 "input": {"string": f":symbols:`{name}`", "hash_seeds": list(seen.values())}, "replay_kind": "roles"},
                found_input=len(seen) > 1)
    ctx.coverage["ambiguous_symbol_names"] = {n: idx[n] for n in ambiguous}

    # pre-existing content of the output directory: the result must be the fresh build, byte for byte
    RB = outs["rebuild"]
    n_rebuild = 0
    if RB.get("ok") and pages_ok:
        for run in (1, 2):
            if RB.get(f"main{run}_ok") is False:
                ctx.violation(f"C19:rebuild-raises:{run}", f"docs/build.py main() into a pre-filled directory raised (run {run}): {RB.get(f'main{run}_error')}",
                    {"kind": "violation", "observed": RB.get(f"main{run}_error"), "traceback": RB.get(f"main{run}_traceback"), "replay_kind": "rebuild"})
        for which, label in (("gen_after1", "generation into a directory pre-filled with stale pages"),
                ("gen", "second build into the directory left by the first build and its role step" if RB.get("main1_ok")
                    else "build into a pre-filled directory (aborted before it finished)")):
            got = read_pages(jobs["rebuild"].dir / which)
            if not got:
                continue
            for page in sorted(set(got) | set(genA)):
                x, y = genA.get(page), got.get(page)
                n_rebuild += 1
                if x == y:
                    continue
                if x is not None and y is not None and which == "gen" and classify_diff(x, y) == "term-order":
                    history.append({"page": page, "experiment": "second build into the same directory"})
                    continue
                pre = (RB.get("kinds") or {}).get(page)
                tail = (y[len(x):len(x) + 60] if x is not None and y is not None and y.startswith(x) else None)
                ctx.violation(f"C19:stale-output:{page}",
                    f"{label}: page {page} (pre-filled: {pre}) is not the freshly generated text"
                    + (f"; it is the fresh text followed by a stale tail {tail!r}" if tail else ""),
                    {"kind": "violation", "item": page, "prefilled_with": pre, "experiment": label,
                     "observed_length": None if y is None else len(y), "expected_length": None if x is None else len(x),
                     "stale_tail": tail, "replay_kind": "rebuild"})
    ctx.coverage["rebuild_pages_compared"] = n_rebuild
    ctx.coverage["rebuild_prefill"] = RB.get("prefill")

    # seeded orders
    n_order_pages = 0
    for k in range(n_orders):
        o = outs[f"ord{k}"]
        if not o.get("ok"):
            continue
        for leak in o["leaks"]:
            ctx.violation(f"C19:flag-after-page:{leak['item']}", f"evaluation flag is {leak['flag']} after generating page {leak['item']}",
                {"kind": "violation", "item": leak["item"], "observed": leak, "replay_kind": "page"})
        for err in o["errors"]:
            ctx.violation(f"C19:page-raises:{err['item']}", f"generating {err['item']} raised {err['error']} (cause {err['cause']})",
                {"kind": "violation", "item": err["item"], "observed": err, "replay_kind": "page"})
        if (o.get("after") or {}).get("flag") is not True or any(
                o["after"].get(p) != o["before"].get(p) for p in o["before"] if p != "flag"):
            ctx.violation(f"C19:state-after-ordered-run:{k}", "library computations differ after generating pages in a seeded order",
                {"kind": "violation", "observed": o.get("after"), "expected": o.get("before"), "replay_kind": "generate"})
        pages = read_pages(jobs[f"ord{k}"].dir / "ord") if pages_ok and not o["errors"] else {}
        n_order_pages += len(pages)
        for page, text in pages.items():
            if rawA.get(page) != text:
                if page in rawA and classify_diff(rawA[page], text) == "term-order":
                    history.append({"page": page, "experiment": f"seeded page order #{k}",
                        "canonical": [a for a, b in zip(rawA[page].split("\n"), text.split("\n")) if a != b][:2],
                        "this_order": [b for a, b in zip(rawA[page].split("\n"), text.split("\n")) if a != b][:2]})
                    continue
                ctx.violation(f"C19:order-dependent:{page}", f"page {page} differs when pages are generated in another order",
                    {"kind": "violation", "item": page, "order_head": [i["id"] for i in order_specs[k][:5]], "replay_kind": "page"})
        if pages and set(pages) != set(rawA):
            ctx.violation(f"C19:order-page-set:{k}", "generating page by page gives a different set of pages",
                {"kind": "violation", "observed": sorted(set(pages) ^ set(rawA))[:10], "replay_kind": "pages"})
    if history:
        ctx.violation("C19:history-dependent-term-order",
            "the printed formula of a page depends on what was generated earlier in the process: factors/terms of an evaluated "
            "intermediate are ordered by the auto-generated symbol names (SYM<counter>, compared as strings), so the same module "
            f"renders differently at another value of the process-global counter; pages affected in this run: {sorted({h['page'] for h in history})}",
            {"kind": "violation", "item": sorted({h["page"] for h in history}), "observed": history[:6],
             "expected": "byte-identical page whatever was generated before", "replay_kind": "history"}, found_input=True)
    ctx.coverage["history_dependent_pages"] = sorted({h["page"] for h in history})
    ctx.coverage["order_runs"] = n_orders
    ctx.coverage["order_pages_compared"] = n_order_pages

    # exploration counts: one evaluation per checked page + per ordered page; distinct = distinct page texts
    ctx.evaluated(n_checked + n_order_pages, len(set(rawA.values())))
    if rawA:
        stem = "definitions.density_from_mass_volume.rst"
        if stem in rawA:
            ctx.sample({"stream": "page", "page": stem, "tail": rawA[stem][-260:]})
    ctx.coverage["documented_sources"] = len(sources)
    ctx.coverage["candidate_sources"] = len(cands)
    ctx.coverage["exhaustive"] = True
    ctx.coverage["explanation"] = ("partial claim: Coq theorems about the patch/flag machine and the directive substitution; the rest of "
        "the property (file system, exec of the patched modules, printers, role resolution, determinism) is explored by running the real generator")
    ctx.coverage["rule"] = ("catalogue: every documented module/package (exhaustive) -- patched shape and side condition decided in Coq, "
        "its page compared with reference values; synthetic: seeded statement lists over {documented/undocumented def, assignment with "
        "public/private/non-name/multiple targets, string constant with eval/symbol/latex flags, other}, rendered to Python source whose "
        "statements record the flag during the real exec, both initial flag values; view: seeded docstrings with 0-2 directives in both "
        "orders, partial and overlapping look-alikes, renderings shorter and longer than the directive; processors: call sequences up to "
        "length 8 from both flag values.  distinct = distinct Gallina literals / distinct page texts; non-trivial = at least one member "
        "disabled or NameError (synthetic), at least one directive (view)")


# ---------------------------------------------------------------------------------------------
# replay
# ---------------------------------------------------------------------------------------------

def replay(ctx, rep):
    kind = rep.get("replay_kind")
    print(f"replaying {rep.get('key')} ({kind}) against {common.REPO}")
    if kind == "processors":
        from sympy.core.parameters import global_parameters as GP  # pylint: disable=import-outside-toplevel
        from symplyphysics.core import processors  # pylint: disable=import-outside-toplevel
        fns = {"D": processors.disable_sympy_evaluation, "E": processors.enable_sympy_evaluation, "R": processors.reset_sympy_evaluation}
        GP.evaluate = rep["input"]["start"]
        try:
            for o in rep["input"]["calls"]:
                fns[o]()
                print(f"  after {fns[o].__name__}: evaluate = {GP.evaluate}")
        finally:
            GP.evaluate = True
        return 0
    if kind == "switches":
        from sympy.core.parameters import global_parameters as GP  # pylint: disable=import-outside-toplevel
        from symplyphysics.core import processors  # pylint: disable=import-outside-toplevel
        fns = {"D": processors.disable_sympy_evaluation, "E": processors.enable_sympy_evaluation, "R": processors.reset_sympy_evaluation}
        saved = dict(vars(GP))
        try:
            for f, v in rep["input"]["start"].items():
                setattr(GP, f, v)
            print("  start:", dict(vars(GP)))
            for o in rep["input"]["calls"]:
                fns[o]()
                print(f"  after {fns[o].__name__}: {dict(vars(GP))}")
        finally:
            for f, v in saved.items():
                setattr(GP, f, v)
        print("  defaults:", saved, "| table read from the source:", D.read_processor_writes(common.REPO / "symplyphysics" / "core" / "processors.py"))
        return 0
    if kind == "file-writer":
        from symplyphysics.docs import build  # pylint: disable=import-outside-toplevel
        scratch = Path(tempfile.mkdtemp(prefix="vp_c19_"))
        try:
            pkg = scratch / "pkg"
            pkg.mkdir()
            (pkg / "law_x.py").write_text('"""\nTiny law\n========\n\nA page of known text.\n"""\n')
            out = scratch / "out"
            out.mkdir()
            page = out / (".".join((pkg / "law_x").parts[1:]) + ".rst")
            if rep["input"]["old"] is not None:
                page.write_text(rep["input"]["old"], encoding="utf-8")
            build._process_law(str(pkg), "law_x.py", str(out), True)  # pylint: disable=protected-access
            got = page.read_text(encoding="utf-8")
            print("  page before :", repr(rep["input"]["old"]))
            print("  page after  :", repr(got))
            print("  new text    :", repr(rep["input"]["new"]), "-- REPRODUCED" if got != rep["input"]["new"] else "-- page is exactly the new text")
            print("  translated  :", D.read_page_writer(common.REPO / "symplyphysics" / "docs" / "build.py"))
        finally:
            shutil.rmtree(scratch, ignore_errors=True)
        return 0
    if kind == "module-shape":
        from symplyphysics.docs import patch as P  # pylint: disable=import-outside-toplevel
        tree = ast.parse(Path(rep["path"]).read_text(encoding="utf-8"))
        ab = D.classify_body(tree.body)
        _, shape = D.real_patch_shape(P, tree)
        print("  abstract body :", ab)
        print("  patched shape :", shape)
        print("  spec predicates violated:", check_shape_spec(ab, shape))
        return 0
    if kind == "synthetic":
        src = rep["input"]["source"]
        print(src)
        r = run_synthetic(src, True)
        print("  observed:", r)
        print("  spec predicates violated:", check_shape_spec(D.classify_body(ast.parse(src).body), r["shape"]))
        return 0
    if kind == "view":
        from symplyphysics import Symbol  # pylint: disable=import-outside-toplevel
        from symplyphysics.docs import parse as PA, view as V  # pylint: disable=import-outside-toplevel
        i = rep["input"]
        pmd = real_process_member_docstring()
        val = Symbol(i["code"], display_latex=i["latex"])
        out = pmd(PA.MemberWithDoc("name", i["docstring"], None, PA._find_law_directives(i["docstring"]), val))  # pylint: disable=protected-access
        print("  docstring:", repr(i["docstring"]))
        print("  observed :", repr(out))
        print("  expected (templates at check time):", repr(rep.get("expected_with_current_templates")))
        print("  specification holds:", spec_view_ok(i["docstring"], i["code"], V._indent_docstring(i["latex"], count=2), out))  # pylint: disable=protected-access
        return 0
    if kind == "roles":
        scratch = Path(tempfile.mkdtemp(prefix="vp_c19_"))
        try:
            for hs in rep["input"]["hash_seeds"]:
                o = Job(scratch, f"r{hs}", "roles", {"strings": [rep["input"]["string"]]}, hs).wait()
                print(f"  PYTHONHASHSEED={hs}: {rep['input']['string']} -> {o.get('results')}")
        finally:
            shutil.rmtree(scratch, ignore_errors=True)
        return 0
    if kind == "rebuild":
        scratch = Path(tempfile.mkdtemp(prefix="vp_c19_"))
        try:
            sources = D.documented_sources(common.REPO)
            base = {"repo": str(common.REPO), "harness": HARNESS}
            ja = Job(scratch, "runA", "full", base, "0")
            jb = Job(scratch, "rebuild", "rebuild", dict(base, seed=rep.get("seed", 1),
                pages=sorted({s["stem"] + ".rst" for s in sources} | {"index.rst"})), "0")
            ja.wait()
            o = jb.wait()
            fresh = read_pages(ja.dir / "gen")
            for which in ("gen_after1", "gen"):
                got = read_pages(jb.dir / which)
                bad = [p for p in sorted(fresh) if got.get(p) != fresh[p] and classify_diff(fresh[p], got.get(p) or "") != "term-order"]
                print(f"  {which}: {len(bad)} of {len(fresh)} pages differ from the fresh build", "-- REPRODUCED" if bad else "")
                for p in bad[:3]:
                    print(f"    {p}: pre-filled {o.get('kinds', {}).get(p)}, length {len(got.get(p) or '')} vs fresh {len(fresh[p])}; tail {(got.get(p) or '')[len(fresh[p]):][:60]!r}")
        finally:
            shutil.rmtree(scratch, ignore_errors=True)
        return 0
    if kind in ("history", "determinism"):
        scratch = Path(tempfile.mkdtemp(prefix="vp_c19_"))
        try:
            j = Job(scratch, "runA", "full", {"repo": str(common.REPO), "harness": HARNESS}, "0")
            o = j.wait()
            print("  generator finished:", o.get("main_ok"), o.get("raw_ok"))
            first, second = read_pages(j.dir / "raw1"), read_pages(j.dir / "raw2")
            n = 0
            for page in sorted(set(first) & set(second)):
                if first[page] != second[page]:
                    n += 1
                    print(f"  {page}: first generation vs second generation in the same process")
                    for a, b in zip(first[page].split("\n"), second[page].split("\n")):
                        if a != b:
                            print("    1st:", a.strip())
                            print("    2nd:", b.strip())
            print(f"  {n} page(s) differ between two generations in one process" + (" -- REPRODUCED" if n else ""))
        finally:
            shutil.rmtree(scratch, ignore_errors=True)
        return 0
    # page / pages / generate: run the real generator again and re-check
    scratch = Path(tempfile.mkdtemp(prefix="vp_c19_"))
    try:
        sources = D.documented_sources(common.REPO)
        base = {"repo": str(common.REPO), "harness": HARNESS}
        ja = Job(scratch, "runA", "full", base, "0")
        jr = Job(scratch, "ref", "reference", dict(base, sources=[
            {"stem": s["stem"], "kind": s["kind"], "path": str(s["path"]), "dotted": s["dotted"]} for s in sources
            if rep.get("item") in (None, s["dotted"], s["stem"] + ".rst") or kind != "page"]), "0")
        A, R = ja.wait(), jr.wait()
        print("  generator finished:", A.get("main_ok"), A.get("main_error"), "| flag before/after:",
            (A.get("before") or {}).get("flag"), (A.get("after_main") or {}).get("flag"))
        print("  probes after:", A.get("after_main"))
        raw = {k: v for k, v in read_pages(ja.dir / "raw1").items() if k != "index.rst"}
        page = rep.get("page") or rep.get("item")
        if page in raw:
            print(f"  ---- {page} ----")
            print(raw[page][-1500:])
        ref = R.get("reference", {})
        for k, v in ref.items():
            if rep.get("member"):
                for m in v.get("members", []):
                    if m["name"] == rep["member"]:
                        print("  reference member:", {x: m.get(x) for x in ("name", "code", "latex", "row")})
        sub = Ctx2(ctx)
        check_pages(sub, [s for s in sources if (s["stem"] + "|" + s["kind"]) in ref], raw, ref, label="replay")
        for v in sub.violations:
            if rep.get("key") == v.key:
                print("  REPRODUCED:", v.what)
        return 0
    finally:
        shutil.rmtree(scratch, ignore_errors=True)


class Ctx2:
    """collects violations of a re-check without touching the outer context"""

    def __init__(self, ctx):
        self.violations = []
        self.coverage = {}
        self._ctx = ctx

    def violation(self, key, what, replay, found_input=True):  # pylint: disable=redefined-outer-name
        self.violations.append(common.Violation(key, what, replay, found_input))
