"""C14 -- coordinate-free vector algebra simplification preserves value in R^3.

layer 1 (translator)      : the bodies of the rewrite rules / loop arms / derivative methods are read from the
                            source text (vp/vrules.py) and proved to be identities of R^3 (`rule_*`, regenerated
                            on every run); when all hold, `source_rules_ok : rules_ok source_rules` and the
                            instance of the static theorem `simplify_sound` for the source's rules.
layer 2 (model + tie)     : Properties/C14.v (sort_with_sign, _ordered_mul, the constructors' route) and the
                            correspondence of sort_with_sign / _ordered_mul / into_terms+split_factor.
layer 3 (per expression)  : seeded expression trees built with the REAL constructors under many identity orders
                            (and hash seeds); `tv_<i> : forall components, recipe = output` proved by ring/nsatz.
                            Also .diff() against the product rule applied to the recipe.
"""
from __future__ import annotations

import itertools
import json
import os
import subprocess
import sys
from pathlib import Path

from vp import coqrun, vx, vrules, vtree
from vp.common import REPO, PYTHON

SRC = "symplyphysics/core/experimental/vectors/__init__.py"

STATIC = ["sort_sign_spec", "sort_sign_swap", "sort_sign_sorted", "ordered_mul_sound", "ordered_mul_sound_symmetric",
    "simplify_sound", "reference_rules_sound", "binet_cauchy_identity", "norm_homogeneous", "diff_terminates_and_leibniz"]

PRE_RULES = """From Coq Require Import List ZArith Bool Reals Lra.
From VP Require Import Model.Vec3 Model.SortSign Model.VecAlg Proofs.Vec3Proofs Proofs.SortSignProofs Proofs.VecAlgProofs.
Import ListNotations.
Local Open Scope R_scope.
"""

PRE_CORR = """From Coq Require Import List ZArith NArith Bool Arith.
From VP Require Import Base.Util Model.SortSign Model.VecAlg.
Import ListNotations.

Fixpoint nat_list_eqb (x y : list nat) : bool :=
  match x, y with
  | [], [] => true
  | a :: x', b :: y' => Nat.eqb a b && nat_list_eqb x' y'
  | _, _ => false
  end.
Fixpoint z_list_eqb (x y : list Z) : bool :=
  match x, y with
  | [], [] => true
  | a :: x', b :: y' => Z.eqb a b && z_list_eqb x' y'
  | _, _ => false
  end.
Definition sws_case (c : list Z * (Z * list nat)) : bool :=
  let ks := fst c in
  let r := sort_with_sign (fun i => nth i ks 0%Z) (seq 0 (length ks)) in
  Z.eqb (fst r) (fst (snd c)) && nat_list_eqb (snd r) (snd (snd c)).
Definition sws_nokey_case (c : list Z * (Z * list Z)) : bool :=
  let r := sort_with_sign_nokey (fst c) in
  Z.eqb (fst r) (fst (snd c)) && z_list_eqb (snd r) (snd (snd c)).
Definition oterm_eqb (x y : oterm Z nat) : bool :=
  Z.eqb (fst (fst x)) (fst (fst y)) && nat_list_eqb (snd (fst x)) (snd (fst y)) && Z.eqb (snd x) (snd y).
Definition omul_case (c : list (lc Z nat) * list Z * list (oterm Z nat)) : bool :=
  let args := fst (fst c) in
  let ks := snd (fst c) in
  let m := ordered_mul zops Nat.eqb (fun i => nth i ks 0%Z) args in
  Nat.eqb (length m) (length (snd c)) && forallb (fun e => existsb (oterm_eqb e) m) (snd c).
"""


def zl(n):
    return f"{n}%Z" if n >= 0 else f"({n})%Z"


# ---------------------------------------------------------------------------------------------
# running work units, here or under another hash seed
# ---------------------------------------------------------------------------------------------

def run_jobs(jobs, hashseed=None):
    if hashseed is None:
        return [vtree.process(j) for j in jobs]
    env = dict(os.environ)
    env["PYTHONHASHSEED"] = str(hashseed)
    env["PYTHONPATH"] = f"{REPO}:{Path(__file__).resolve().parents[1]}"
    p = subprocess.run([PYTHON, "-m", "vp.vtree"], input=json.dumps(jobs), capture_output=True, text=True, env=env,
        check=False, timeout=1500)
    if p.returncode != 0:
        raise RuntimeError(f"worker with PYTHONHASHSEED={hashseed} failed: {p.stderr[-800:]}")
    return json.loads(p.stdout)


def all_ranks(n, rng, limit):
    perms = list(itertools.permutations(range(n)))
    if len(perms) > limit:
        perms = rng.sample(perms, limit)
    return [list(p) for p in perms]


# ---------------------------------------------------------------------------------------------
# layer 1
# ---------------------------------------------------------------------------------------------

V = lambda i: ("vsym", i)
TRIGGERS = {
    "dot_cross_cross": [(4, ("dot", ("cross", V(0), V(1)), ("cross", V(2), V(3)))), (3, ("dot", ("cross", V(0), V(1)), ("cross", V(0), V(2)))),
        (2, ("dot", ("cross", V(0), V(1)), ("cross", V(0), V(1)))), (4, ("mixed", V(0), ("cross", V(1), V(2)), V(3)))],
    "dot_cross_any": [(3, ("dot", ("cross", V(0), V(1)), V(2))), (4, ("dot", ("cross", V(0), V(1)), ("vadd", V(2), V(3))))],
    "dot_any_cross": [(3, ("dot", V(2), ("cross", V(0), V(1)))), (4, ("dot", ("vadd", V(2), V(3)), ("cross", V(0), V(1))))],
    "cross_cross_cross": [(4, ("cross", ("cross", V(0), V(1)), ("cross", V(2), V(3)))), (3, ("cross", ("cross", V(0), V(1)), ("cross", V(0), V(2))))],
    "cross_cross_any": [(3, ("cross", ("cross", V(0), V(1)), V(2))), (4, ("cross", ("cross", V(0), V(1)), ("vadd", V(2), V(3)))),
        (2, ("cross", ("cross", V(0), V(1)), V(0)))],
    "cross_any_cross": [(3, ("cross", V(2), ("cross", V(0), V(1)))), (4, ("cross", ("vadd", V(2), V(3)), ("cross", V(0), V(1)))),
        (2, ("cross", V(0), ("cross", V(0), V(1))))],
    "dot_arm_repeated": [(1, ("dot", V(0), V(0))), (2, ("dot", ("vadd", V(0), V(1)), ("vadd", V(0), ("vscale", ("int", 2), V(1)))))],
    "dot_arm_term": [(2, ("dot", V(0), V(1))), (3, ("dot", ("vadd", ("vscale", ("int", 2), V(0)), V(1)), V(2)))],
    "cross_arm_term": [(2, ("cross", V(0), V(1))), (3, ("cross", ("vadd", ("vscale", ("int", 2), V(0)), V(1)), V(2))),
        (3, ("dot", V(2), ("cross", V(0), V(1))))],
    "mixed_arm_composite": [(4, ("mixed", V(0), ("cross", V(1), V(2)), V(3))), (4, ("mixed", ("cross", V(1), V(2)), V(0), V(3)))],
    "mixed_arm_term": [(3, ("mixed", V(0), V(1), V(2))), (3, ("mixed", ("vadd", V(0), V(1)), V(1), V(2)))],
    "norm_scale": [(1, ("norm", ("vscale", ("int", -3), V(0)))), (1, ("norm", ("vscale", ("ssym", 0), V(0)))),
        (2, ("norm", ("vadd", ("vscale", ("int", 2), V(0)), ("vscale", ("int", 2), V(1))))),
        (2, ("norm", ("vadd", ("vscale", ("sdiv", ("int", 1), ("ssym", 0)), V(0)), ("vscale", ("sdiv", ("int", 1), ("ssym", 0)), V(1)))))],
}
# recipes whose composite operand must sit between two symbols in id() order: (p, q, x, y) roles for vx.Objs(spread=...)
SPREAD_TRIGGERS = {
    "mixed_arm_composite": [(4, ("mixed", V(0), ("cross", V(1), V(2)), V(3)), (1, 2, 0, 3)),
        (4, ("mixed", ("cross", V(1), V(2)), V(0), V(3)), (1, 2, 0, 3)), (4, ("mixed", V(0), V(3), ("cross", V(1), V(2))), (1, 2, 0, 3))],
}
SPREAD_TRIGGERS["mixed_arm_term"] = SPREAD_TRIGGERS["mixed_arm_composite"]
P = ("par",)
# which operands of a mixed product depend on the parameter: every non-empty pattern, through vector functions
def _mixed_dependence():
    out = []
    for dep in itertools.product([False, True], repeat=3):
        if not any(dep):
            continue
        nsym = 0
        ops = []
        for i in range(3):
            if dep[i]:
                ops.append(("vfun", i))
            else:
                ops.append(V(nsym))
                nsym += 1
        out.append(tuple(ops))
    return out


MIXED_DEPENDENCE = _mixed_dependence()
F = lambda i: ("vfun", i)
DIFF_TRIGGERS = {
    "diff_dot": [(2, ("dot", ("vscale", P, V(0)), ("vadd", V(1), ("vscale", ("smul", P, P), V(0))))), (1, ("dot", F(0), V(0))),
        (1, ("dot", V(0), F(0))), (1, ("dot", F(0), F(1))), (1, ("dot", F(0), F(0)))],
    "diff_cross": [(2, ("cross", ("vscale", P, V(0)), ("vadd", V(1), ("vscale", ("smul", P, P), V(0))))), (1, ("cross", F(0), V(0))),
        (1, ("cross", V(0), F(0))), (1, ("cross", F(0), F(1)))],
    "diff_mixed": [(3, ("mixed", ("vscale", P, V(0)), ("vadd", V(1), ("vscale", P, V(2))), V(2)))] +
        [(2, ("mixed", *ops)) for ops in MIXED_DEPENDENCE],
    "diff_norm": [(2, ("smul", P, ("norm", ("vadd", V(0), V(1))))), (1, ("norm", F(0))), (1, ("norm", ("vadd", F(0), V(0))))],
}
STAGE_RULES = {
    "VectorCross._eval_vector_dot": ["dot_cross_cross", "dot_cross_any", "dot_any_cross"],
    "VectorCross._eval_vector_cross": ["cross_cross_cross", "cross_cross_any", "cross_any_cross"],
    "VectorDot.__new__": ["dot_arm_repeated", "dot_arm_term"],
    "VectorCross.__new__": ["cross_arm_term"],
    "VectorMixedProduct.__new__": ["mixed_arm_composite", "mixed_arm_term"],
    "VectorNorm.__new__": ["norm_scale"],
    "_eval_derivative": ["diff_dot", "diff_cross", "diff_mixed", "diff_norm"],
}


def search_rule(ctx, name):
    """Drive the real constructors into the rule under every identity order; first numeric mismatch."""
    trig = [(nv, rec, None) for nv, rec in (TRIGGERS.get(name) or DIFF_TRIGGERS.get(name) or [])]
    trig += [(nv, rec, sp) for nv, rec, sp in SPREAD_TRIGGERS.get(name, []) for _ in range(6)]
    modes = ["diff", "diff2", "diffn"] if name in DIFF_TRIGGERS else ["auto", "doit"]
    tried = 0
    for nv, rec, spread in trig:
        for rank in ([None] if spread else all_ranks(nv, ctx.rng, 24)):
            for mode in modes:
                envs = [vtree.rand_env(ctx.rng, nv, 2, 3).to_json() for _ in range(6)]
                job = {"recipe": rec, "nv": nv, "ns": 2, "nf": 3, "mode": mode, "rank": rank, "envs": envs}
                if mode == "diffn":
                    if "norm" in vx.recipe_tags(rec):
                        continue
                    job.update(orders=["t"] * ctx.rng.choice([3, 3, 4]), twice_form=ctx.rng.choice(["count", "repeat"]))
                if spread:
                    job.update(spread=spread, spread_seed=ctx.rng.randrange(10**6))
                r = vtree.process(job)
                tried += 1
                if r["status"] == "ok" and r["mismatch"]:
                    return tried, {"recipe": rec, "shown": vx.show_recipe(rec), "nv": nv, "ns": 2, "nf": 3, "mode": mode, "rank": rank,
                        "spread": job.get("spread"), "spread_seed": job.get("spread_seed"), "orders": job.get("orders"),
                        "twice_form": job.get("twice_form"), "output": r["out_str"], **r["mismatch"]}
                if r["status"] in ("recursion", "exception"):
                    return tried, {"recipe": rec, "shown": vx.show_recipe(rec), "nv": nv, "ns": 2, "nf": 3, "mode": mode, "rank": rank,
                        "output": r.get("error") or f"RecursionError through {r.get('cycle')}", "env": None,
                        "expected": "a value", "observed": r["status"]}
    return tried, None


def layer1(ctx):
    tr = vrules.translate(REPO / SRC)
    ctx.coverage["rules_translated"] = [f"{r.name} @ {r.where}: {r.source}" for r in tr.rules]
    for stage, msg in tr.broken:
        rep = {"kind": "broken-tie", "theorem_or_tie": f"vp/vrules.py on {SRC}", "stage": stage, "message": msg}
        hit = None
        for name in STAGE_RULES.get(stage.replace("ruleset field ", ""), []):
            _tried, hit = search_rule(ctx, name)
            if hit:
                break
        if hit:
            ctx.violation(f"C14:translator:{stage}", f"{stage} no longer has the expected shape ({msg}) and {hit['shown']} evaluates to "
                f"{hit['observed']} instead of {hit['expected']}", {**rep, **hit, "kind": "rule"}, True)
        else:
            ctx.violation(f"C14:translator:{stage}", f"the rule translator no longer understands {stage}: {msg}", rep, found_input=False)
    lemmas = [coqrun.Lemma(f"rule_{r.name}", r.statement(), r.proof, r.where) for r in tr.rules]
    res = coqrun.prove_lemmas(ctx, "rules", PRE_RULES, lemmas, per_file=1, timeout=300)
    failed = [r for r in tr.rules if res.get(f"rule_{r.name}") != "ok"]
    ctx.obligations(len(lemmas), len(lemmas) - len(failed))
    for r in failed:
        tried, hit = search_rule(ctx, r.name)
        rep = {"kind": "rule", "rule": r.name, "where": r.where, "source": r.source, "lemma": f"rule_{r.name} : {r.statement()}",
            "coq_error": res.get(f"rule_{r.name}", "")[-300:], "theorem_or_tie": f"generated lemma rule_{r.name}", "searched": tried}
        if hit:
            rep.update(hit)
            ctx.violation(f"C14:rule:{r.name}", f"rewrite rule {r.name} ({r.where}: `{r.source}`) is not an identity of R^3: "
                f"{hit['shown']} evaluates to {hit['observed']} instead of {hit['expected']}", rep, True)
        else:
            ctx.violation(f"C14:rule:{r.name}", f"rewrite rule {r.name} ({r.where}) could not be proved an identity", rep, False)
    # the instance of the engine theorem for the rules of the source
    text = tr.ruleset_text()
    ctx.coverage["engine_theorem_for_source_rules"] = "not attempted"
    if text is not None and not failed and not tr.broken:
        lem = [coqrun.Lemma("source_rules_ok", "rules_ok source_rules", tr.rules_ok_proof(), "all rules"),
               coqrun.Lemma("source_engine_sound",
                "forall ckey z0 is1 split regroup (A : atomv -> Prop), keys_ok ckey A -> oracles_ok z0 is1 split -> regroup_ok regroup -> "
                "(forall e, vatoms A e -> lc_val (route_v source_rules ckey z0 is1 split regroup e) = eval_v e) /\\ "
                "(forall s, satoms A s -> route_s source_rules ckey z0 is1 split regroup s = eval_s s)",
                "exact (simplify_sound source_rules source_rules_ok).", "engine")]
        r2 = coqrun.prove_lemmas(ctx, "engine", PRE_RULES + "\n" + text + "\n", lem, per_file=2, timeout=300)
        ok = sum(v == "ok" for v in r2.values())
        ctx.obligations(2, ok)
        ctx.coverage["engine_theorem_for_source_rules"] = "proved" if ok == 2 else "FAILED"
        if ok != 2:
            ctx.violation("C14:source_rules_ok", "the rules read from the source do not satisfy rules_ok although each rule lemma holds",
                {"kind": "broken-proof", "theorem_or_tie": "source_rules_ok / source_engine_sound", "log": str(r2)[-1500:]}, False)
    elif failed:
        ctx.coverage["engine_theorem_for_source_rules"] = ("not established: " + ", ".join(r.name for r in failed) +
            " is not an identity, so rules_ok source_rules does not hold")
    return {r.name for r in failed}


# ---------------------------------------------------------------------------------------------
# layer 2: correspondence
# ---------------------------------------------------------------------------------------------

KEYVALS = [-7, 0, 3, 10**12, 5, -10**9, 42, 1, 2]


def corr_sort_with_sign(ctx):
    from symplyphysics.core.experimental.miscellaneous import sort_with_sign  # pylint: disable=import-outside-toplevel
    rng = ctx.rng
    lists = []
    nmax = ctx.pick(4, 5)
    for n in range(0, nmax + 1):
        for ks in itertools.product(range(n), repeat=n):
            lists.append([KEYVALS[k] for k in ks])
    for _ in range(ctx.pick(300, 3000)):
        n = rng.randint(5, 9)
        m = rng.choice([n, n, max(2, n - 2), 20])
        lists.append([rng.randint(-m, m) for _ in range(n)])
    cases, cases2 = [], []
    hist = {-1: 0, 0: 0, 1: 0}
    for ks in lists:
        s, out = sort_with_sign(list(range(len(ks))), key=lambda i, ks=ks: ks[i])
        hist[int(s)] += 1
        cases.append(f"([{'; '.join(zl(k) for k in ks)}], ({zl(int(s))}, [{'; '.join(str(i) for i in out)}]))")
        s2, out2 = sort_with_sign(list(ks))
        cases2.append(f"([{'; '.join(zl(k) for k in ks)}], ({zl(int(s2))}, [{'; '.join(zl(k) for k in out2)}]))")
    bad = coqrun.eval_cases(ctx, "sws", PRE_CORR, cases, "sws_case", per_file=500)
    bad2 = coqrun.eval_cases(ctx, "sws_nokey", PRE_CORR, cases2, "sws_nokey_case", per_file=500)
    for i in bad[:5] + bad2[:5]:
        ks = lists[i]
        s, out = sort_with_sign(list(range(len(ks))), key=lambda j, ks=ks: ks[j])
        # specification predicate, from the docstring: sorted; sign 0 iff equal elements; else parity of the permutation
        inv = sum(1 for a in range(len(ks)) for b in range(a + 1, len(ks)) if ks[a] > ks[b])
        want = 0 if len(set(ks)) != len(ks) else (1 if inv % 2 == 0 else -1)
        okspec = [ks[j] for j in out] == sorted(ks) and int(s) == want
        ctx.violation(f"C14:sort_with_sign:{ks}", f"sort_with_sign on keys {ks} returns sign {s}, order {out}"
            + ("" if okspec else f" -- expected sign {want}"),
            {"kind": "disagreement", "keys": ks, "observed": {"sign": int(s), "order": list(out)}, "expected": {"sign": want},
             "theorem_or_tie": "correspondence SortSign.v ~ sort_with_sign"}, found_input=not okspec)
    ctx.evaluated(2 * len(lists), len({tuple(l) for l in lists if len(l) > 1}))
    ctx.coverage["sort_with_sign_cases"] = {"lists": len(lists), "exhaustive_up_to_length": nmax,
        "sign_histogram": {str(k): v for k, v in hist.items()}, "disagreements": len(bad) + len(bad2)}
    ctx.sample({"stream": "sort_with_sign", "keys": lists[min(40, len(lists) - 1)]})


def corr_ordered_mul(ctx):
    from symplyphysics.core.experimental.vectors import VectorSymbol, _ordered_mul, into_terms, split_factor  # pylint: disable=import-outside-toplevel
    import sympy  # pylint: disable=import-outside-toplevel
    rng = ctx.rng
    n = ctx.pick(400, 4000)
    cases, descs = [], []
    keep = []
    nontrivial = set()
    split_checked = 0
    for _ in range(n):
        nv = rng.randint(1, 4)
        syms = [VectorSymbol(f"w{i}") for i in range(nv)]
        keys = rng.sample(range(-50, 50), nv)
        kmap = {id(s): k for s, k in zip(syms, keys)}
        nargs = rng.choice([2, 2, 3])
        args = []
        for _a in range(nargs):
            nt = rng.choice([1, 1, 2, 2, 3])
            args.append([(rng.choice([-3, -2, -1, 0, 1, 2, 3, 5]), rng.randrange(nv)) for _t in range(nt)])
        exprs = [sympy.Add(*[c * syms[i] for c, i in a]) for a in args]
        m = _ordered_mul(*exprs, key=lambda v, kmap=kmap: kmap[id(v)])
        flat = []
        idx = {id(s): i for i, s in enumerate(syms)}
        if isinstance(m, dict):
            for sign, d in m.items():
                for tup, fac in d.items():
                    flat.append((int(sign), [idx[id(v)] for v in tup], int(fac)))
        args_lit = "[" + "; ".join("[" + "; ".join(f"({zl(c)}, {i})" for c, i in a) + "]" for a in args) + "]"
        exp_lit = "[" + "; ".join(f"({zl(s)}, [{'; '.join(map(str, t))}], {zl(f)})" for s, t, f in flat) + "]"
        cases.append(f"({args_lit}, [{'; '.join(zl(k) for k in keys)}], {exp_lit})")
        descs.append({"args": args, "keys": keys, "impl": flat})
        if _ % 3 == 0:
            # the default key (object identity), on distinct symbols that share one display name
            twins = [VectorSymbol("w") for _i in range(nv)]
            exprs2 = [sympy.Add(*[c * twins[i] for c, i in a]) for a in args]
            m2 = _ordered_mul(*exprs2)
            idx2 = {id(s_): i for i, s_ in enumerate(twins)}
            flat2 = []
            if isinstance(m2, dict):
                for sign, d in m2.items():
                    for tup, fac in d.items():
                        flat2.append((int(sign), [idx2[id(v)] for v in tup], int(fac)))
            exp2 = "[" + "; ".join(f"({zl(s_)}, [{'; '.join(map(str, t))}], {zl(f)})" for s_, t, f in flat2) + "]"
            cases.append(f"({args_lit}, [{'; '.join(zl(id(s_)) for s_ in twins)}], {exp2})")
            descs.append({"args": args, "keys": "id() of distinct symbols all displayed as 'w'", "impl": flat2})
            keep.append(twins)
        nontrivial.add((tuple(tuple(a) for a in args), tuple(keys)))
        # into_terms / split_factor: the (factor, vector) view recombines to the expression (symbolic factors too)
        k = sympy.Symbol("k")
        e = exprs[0] * k + (exprs[1] if len(exprs) > 1 else 0)
        terms = [split_factor(t) for t in into_terms(e)]
        back = sympy.Add(*[v * f for v, f in terms])
        split_checked += 1
        if sympy.expand(back - e) != 0 or any(not isinstance(v, VectorSymbol) for v, _ in terms):
            ctx.violation(f"C14:split:{e}", f"into_terms/split_factor of {e} give {terms}, which do not recombine to it",
                {"kind": "violation", "expression": str(e), "observed": str(terms)}, True)
    bad = coqrun.eval_cases(ctx, "omul", PRE_CORR, cases, "omul_case", per_file=400)
    for i in bad[:5]:
        d = descs[i]
        # specification: the signed recombination must be multilinear/alternating-correct: check with determinant-free identity
        ctx.violation(f"C14:ordered_mul:{d['args']}:{d['keys']}", f"_ordered_mul on terms {d['args']} with keys {d['keys']} returns {d['impl']}, "
            "the model returns something else", {"kind": "disagreement", **d, "theorem_or_tie": "correspondence VecAlg.ordered_mul ~ _ordered_mul"},
            found_input=not ordered_mul_spec(d))
    ctx.evaluated(len(cases) + split_checked, len(nontrivial))
    ctx.coverage["ordered_mul_cases"] = {"cases": len(cases), "disagreements": len(bad), "split_factor_checks": split_checked}
    ctx.sample({"stream": "_ordered_mul", **descs[0]})


def ordered_mul_spec(d):
    """Specification predicate for a disagreement on _ordered_mul: with vectors e_i -> random integer vectors, the signed
    recombination by the determinant / dot product must equal the product of the sums (alternating resp. symmetric reading)."""
    import random  # pylint: disable=import-outside-toplevel
    from fractions import Fraction  # pylint: disable=import-outside-toplevel
    rng = random.Random(1)
    nv = 1 + max(i for a in d["args"] for _c, i in a)
    vecs = [tuple(Fraction(rng.randint(-5, 5)) for _ in range(3)) for _ in range(nv)]
    sums = []
    for a in d["args"]:
        s = vx.ZERO3
        for c, i in a:
            s = vx.v_add(s, vx.v_scale(Fraction(c), vecs[i]))
        sums.append(s)
    if len(sums) == 2:
        want = vx.v_cross(sums[0], sums[1])
        got = vx.ZERO3
        for s, t, f in d["impl"]:
            got = vx.v_add(got, vx.v_scale(Fraction(s * f), vx.v_cross(vecs[t[0]], vecs[t[1]])))
    else:
        want = vx.v_dot(sums[0], vx.v_cross(sums[1], sums[2]))
        got = sum(Fraction(s * f) * vx.v_dot(vecs[t[0]], vx.v_cross(vecs[t[1]], vecs[t[2]])) for s, t, f in d["impl"])
    return want == got


# ---------------------------------------------------------------------------------------------
# layer 3: trees
# ---------------------------------------------------------------------------------------------

def gen_scale_factor(rng, ns, allow_par=False):
    r = rng.random()
    if allow_par and r < 0.45:
        return rng.choice([("par",), ("smul", ("par",), ("par",)), ("sadd", ("par",), ("int", 1)), ("smul", ("int", 2), ("par",))])
    if r < 0.45:
        return ("int", rng.choice([-3, -2, -1, 2, 3]))
    if r < 0.8:
        return ("ssym", rng.randrange(ns))
    if r < 0.9:
        return ("smul", ("int", rng.choice([-2, 2, 3])), ("ssym", rng.randrange(ns)))
    return ("sadd", ("ssym", 0), ("ssym", ns - 1)) if ns > 1 else ("ssym", 0)


def gen_vec(rng, depth, nv, ns, nf=0, par=False):
    r = rng.random()
    if depth <= 0 or r < 0.22:
        if nf and rng.random() < 0.4:
            return ("vfun", rng.randrange(nf))
        return ("vzero",) if rng.random() < 0.03 else ("vsym", rng.randrange(nv))
    if r < 0.45:
        return ("vadd", gen_vec(rng, depth - 1, nv, ns, nf, par), gen_vec(rng, depth - 1, nv, ns, nf, par))
    if r < 0.65:
        if rng.random() < 0.15:
            k = gen_scal(rng, depth - 1, nv, ns, nf, par, allow_norm=False)
        else:
            k = gen_scale_factor(rng, ns, par)
        return ("vscale", k, gen_vec(rng, depth - 1, nv, ns, nf, par))
    return ("cross", gen_vec(rng, depth - 1, nv, ns, nf, par), gen_vec(rng, depth - 1, nv, ns, nf, par))


def gen_norm_arg(rng, nv, ns):
    """shallow arguments for norms: (scaled) symbols, sums of two, a cross product"""
    def atom():
        return ("vsym", rng.randrange(nv))
    r = rng.random()
    if r < 0.3:
        x = atom()
    elif r < 0.55:
        x = ("vadd", atom(), atom())
    elif r < 0.8:
        x = ("cross", atom(), atom())
    else:
        k = rng.choice([-2, 2, 3])
        x = ("vadd", ("vscale", ("int", k), atom()), ("vscale", ("int", k), atom()))
    r2 = rng.random()
    if r2 < 0.4:
        x = ("vscale", gen_scale_factor(rng, ns), x)
    elif r2 < 0.6:
        # a common (possibly negative) scalar denominator: |1/d| must come out of the norm
        d = rng.choice([("ssym", rng.randrange(ns)), ("smul", ("int", rng.choice([2, 3])), ("ssym", rng.randrange(ns)))])
        num = lambda: ("int", rng.choice([1, 1, 2, 3]))
        if x[0] == "vadd" and rng.random() < 0.7:
            x = ("vadd", ("vscale", ("sdiv", num(), d), x[1]), ("vscale", ("sdiv", num(), d), x[2]))
        else:
            x = ("vscale", ("sdiv", num(), d), x)
    return x


def gen_scal(rng, depth, nv, ns, nf=0, par=False, allow_norm=True):
    r = rng.random()
    if depth <= 0:
        return gen_scale_factor(rng, ns, par)
    if r < 0.36:
        return ("dot", gen_vec(rng, depth - 1, nv, ns, nf, par), gen_vec(rng, depth - 1, nv, ns, nf, par))
    if r < 0.62:
        return ("mixed", gen_vec(rng, depth - 1, nv, ns, nf, par), gen_vec(rng, depth - 1, nv, ns, nf, par), gen_vec(rng, depth - 1, nv, ns, nf, par))
    if r < 0.74 and allow_norm:
        return ("norm", gen_norm_arg(rng, nv, ns))
    if r < 0.87:
        return ("smul", gen_scal(rng, depth - 1, nv, ns, nf, par, allow_norm), gen_scal(rng, depth - 1, nv, ns, nf, par, allow_norm))
    return ("sadd", gen_scal(rng, depth - 1, nv, ns, nf, par, allow_norm), gen_scal(rng, depth - 1, nv, ns, nf, par, allow_norm))


PRODUCTS = {"dot", "cross", "mixed", "norm"}


def gen_tree(rng, nf=0, par=False, max_size=22):
    for _ in range(200):
        nv = rng.randint(2, 5) if not nf else rng.randint(1, 3)
        ns = 2
        depth = rng.choice([2, 3, 3, 4])
        t = gen_vec(rng, depth, nv, ns, nf, par) if rng.random() < 0.4 else gen_scal(rng, depth, nv, ns, nf, par, allow_norm=not par)
        tags = vx.recipe_tags(t)
        if not (set(tags) & PRODUCTS) or vx.recipe_size(t) > max_size:
            continue
        if par and not vx.recipe_atoms(t)["par"] and not vx.recipe_atoms(t)["f"]:
            continue
        return nv, ns, t
    raise RuntimeError("tree generator exhausted")


def churn_recipes(rng, n, run=60):
    """products whose operands are sums with integer coefficients, all different; in runs of `run` products of the SAME shape (kind, operand
    positions, symbols) that differ only in the coefficients -- the allocation pattern then repeats, so a freed operand's address is
    taken by the corresponding operand of the next product"""
    out = []
    seen = set()
    while len(out) < n:
        kind = rng.choice(["cross", "cross", "dot", "mixed"])
        nops = 3 if kind == "mixed" else 2
        shape = []
        for k in range(nops):
            if k == 0 or rng.random() < 0.35:
                shape.append(rng.sample(range(4), rng.choice([2, 3])))      # a sum over these symbols
            else:
                shape.append(rng.randrange(4))                             # a bare symbol: lives as long as the series
        rng.shuffle(shape)
        for _ in range(run):
            ops = []
            for sh in shape:
                if isinstance(sh, int):
                    ops.append(V(sh))
                    continue
                term = None
                for i_ in sh:
                    t_ = ("vscale", ("int", rng.choice([c for c in range(-99, 100) if c not in (0, 1)])), V(i_))
                    term = t_ if term is None else ("vadd", term, t_)
                ops.append(term)
            rec = (kind, *ops)
            if rec not in seen:
                seen.add(rec)
                out.append(rec)
    return out[:n]


def run_churn(recipes, envs_json, batch):
    """builds the products one after the other in THIS process, dropping every reference to earlier operands and emptying SymPy's cache
    and the garbage after each batch: the answer to a product must not depend on what was built before (objects at recycled addresses)"""
    import gc  # pylint: disable=import-outside-toplevel
    from sympy.core.cache import clear_cache  # pylint: disable=import-outside-toplevel
    out = []
    o = vx.Objs(4, 1)                  # the same four symbols for the whole series
    for i, rec in enumerate(recipes):
        if batch and i % batch == 0:
            clear_cache()
            gc.collect()
        r = vtree.process({"id": i, "recipe": rec, "nv": 4, "ns": 1, "mode": "auto", "rank": None, "envs": envs_json, "trace": False}, shared=o)
        out.append({k: r.get(k) for k in ("status", "mismatch", "error", "out_str", "statement", "proof")})
    return out


def churn(ctx):
    rng = ctx.rng
    n = ctx.pick(400, 5000)
    batch = ctx.rng.choice([1, 1, 3])        # reset SymPy's cache and collect garbage after every (third) product
    recipes = churn_recipes(rng, n)
    envs = [vtree.rand_env(rng, 4, 1, small=False).to_json() for _ in range(2)]
    res = run_churn(recipes, envs, batch)
    bad = 0
    lemmas = []
    for i, (rec, r) in enumerate(zip(recipes, res)):
        wrong = r["status"] != "ok" or r["mismatch"]
        if not wrong:
            if len(lemmas) < ctx.pick(40, 200) and i % 7 == 0:
                lemmas.append(coqrun.Lemma(f"churn_{i}", r["statement"], r["proof"], vx.show_recipe(rec)))
            continue
        bad += 1
        if bad > 5:
            continue
        what = (f"evaluates to {r['mismatch']['observed']} instead of {r['mismatch']['expected']}" if r.get("mismatch")
            else f"{r['status']}: {r.get('error')}")
        ctx.violation(f"C14:churn:{vx.show_recipe(rec)}", f"product number {i + 1} of a long series built in one process (cache and garbage emptied "
            f"every {batch} builds): {vx.show_recipe(rec)} gives {r.get('out_str')}, which {what}",
            {"kind": "churn", "recipes": recipes[:i + 1][-(batch + i % batch + 1):], "index_in_window": min(i, batch + i % batch), "batch": batch,
             "envs": envs, "observed": r.get("out_str"), "what": what, "expected": "the value of the expression, whatever was built before",
             "theorem_or_tie": "the engine is a function of its arguments (no state in Model/VecAlg.v)"}, True)
    proved = coqrun.prove_lemmas(ctx, "churn", vtree.TV_PREAMBLE, lemmas, per_file=20, timeout=600) if lemmas else {}
    ok = sum(v == "ok" for v in proved.values())
    ctx.obligations(len(lemmas), ok)
    for name, st in proved.items():
        if st != "ok":
            ctx.violation(f"C14:churn-proof:{name}", "a sampled product of the series could not be proved equal to its recipe",
                {"kind": "broken-proof", "theorem_or_tie": f"generated lemma {name}", "coq_error": st[-300:]}, False)
    ctx.evaluated(n, len(set(recipes)))
    ctx.coverage["streams"]["churn"] = {"products": n, "distinct": len(set(recipes)), "batch_between_cache_and_gc_resets": batch, "wrong": bad,
        "validated_numerically": n - bad, "also_proved_in_coq": ok}
    ctx.coverage["programs"] = ctx.coverage.get("programs", 0) + n


def replay_churn(rep):
    recipes = [vtree.totuple(r) for r in rep["recipes"]]
    res = run_churn(recipes, rep["envs"], rep["batch"])
    rc = 0
    for i, (rec, r) in enumerate(zip(recipes, res)):
        if r["status"] != "ok" or r["mismatch"]:
            print(f"product {i + 1}: {vx.show_recipe(rec)} -> {r.get('out_str')}   WRONG: {r.get('mismatch') or r.get('error')}")
            rc = 1
    print("REPRODUCED" if rc else f"all {len(recipes)} products of the window evaluate correctly")
    return rc


def tv_key(mode, rec, rank):
    return f"C14:tv:{mode}:{vx.show_recipe(rec)}:ids{''.join(map(str, rank)) if rank else 'spread'}"


def classify_recursion(cycle):
    if "VectorDerivative._eval_derivative" in cycle:
        return "second_derivative"
    if "VectorMixedProduct._eval_derivative" in cycle and not any("__new__" in c for c in cycle):
        return "mixed_derivative"
    if "VectorDerivative.__new__" in cycle:
        return "derivative_operand"
    return "+".join(cycle)


def layer3(ctx, failed_rules):
    rng = ctx.rng
    ntrees = ctx.pick(300, 2500)
    nranks = ctx.pick(3, 3)
    seeds = ctx.pick([None, 1], [None, 1, 2, 3])
    jobs_by_seed = {s: [] for s in seeds}
    meta = {}
    jid = 0
    hist_tags, hist_depth = {}, {}
    distinct = set()
    for _ in range(ntrees):
        nv, ns, rec = gen_tree(rng)
        distinct.add(rec)
        for k, v in vx.recipe_tags(rec).items():
            hist_tags[k] = hist_tags.get(k, 0) + v
        d = vx.recipe_depth(rec)
        hist_depth[d] = hist_depth.get(d, 0) + 1
        envs = [vtree.rand_env(rng, nv, ns).to_json() for _ in range(4)]
        for rank in all_ranks(nv, rng, nranks):
            seed = rng.choice(seeds)
            mode = rng.choice(["auto", "auto", "doit"])
            job = {"id": jid, "recipe": rec, "nv": nv, "ns": ns, "mode": mode, "rank": rank, "envs": envs,
                "same_name": rng.random() < 0.3}      # distinct symbols sharing one display name
            jobs_by_seed[seed].append(job)
            meta[jid] = job
            jid += 1
    # products with a composite operand, built so that the composite object lies between two symbols in id() order
    n_spread = 0
    for rep_i in range(ctx.pick(3, 12)):
        for nv, rec, roles in SPREAD_TRIGGERS["mixed_arm_composite"] + [
                (4, ("mixed", V(0), ("vscale", ("ssym", 0), ("cross", V(1), V(2))), ("vadd", V(3), V(0))), (1, 2, 0, 3)),
                (4, ("dot", V(0), ("cross", ("cross", V(1), V(2)), V(3))), (1, 2, 0, 3)),
                (4, ("mixed", ("vadd", V(0), V(3)), ("vadd", ("cross", V(1), V(2)), V(3)), V(3)), (1, 2, 0, 3))]:
            job = {"id": jid, "recipe": rec, "nv": nv, "ns": 2, "mode": rng.choice(["auto", "doit"]), "rank": None, "spread": roles,
                "spread_seed": rng.randrange(10**6), "envs": [vtree.rand_env(rng, nv, 2).to_json() for _ in range(4)],
                "same_name": rng.random() < 0.3}
            jobs_by_seed[None].append(job)
            meta[jid] = job
            distinct.add(rec)
            jid += 1
            n_spread += 1
    # distinct vectors that print identically (same display name; composites of them print identically too)
    same_family = [(2, ("cross", V(0), V(1))), (2, ("dot", V(0), V(1))), (3, ("mixed", V(0), V(1), V(2))),
        (4, ("dot", ("cross", V(0), V(1)), ("cross", V(2), V(3)))), (4, ("cross", ("cross", V(0), V(1)), ("cross", V(2), V(3)))),
        (3, ("mixed", ("vadd", V(0), V(1)), V(1), ("vadd", V(2), V(0)))), (2, ("norm", ("vadd", V(0), ("vscale", ("int", -1), V(1))))),
        (4, ("mixed", V(0), ("cross", V(1), V(2)), ("cross", V(3), V(2)))), (3, ("cross", ("vadd", V(0), ("vscale", ("ssym", 0), V(1))), V(2)))]
    for nv_, rec in same_family:
        for rank in all_ranks(nv_, rng, ctx.pick(2, 6)):
            job = {"id": jid, "recipe": rec, "nv": nv_, "ns": 2, "mode": rng.choice(["auto", "doit"]), "rank": rank, "same_name": True,
                "envs": [vtree.rand_env(rng, nv_, 2).to_json() for _ in range(4)]}
            jobs_by_seed[None].append(job)
            meta[jid] = job
            distinct.add(("same-name", rec))
            jid += 1
    # norms of sums whose terms carry a common scalar factor or denominator (symbolic, integer, negative)
    inv = lambda num, d: ("sdiv", ("int", num), d)
    s0, s1 = ("ssym", 0), ("ssym", 1)
    norm_family = []
    for d in (s0, ("smul", ("int", 2), s1), ("smul", s0, s1), ("smul", ("int", -3), s0)):
        norm_family += [("norm", ("vadd", ("vscale", inv(1, d), V(0)), ("vscale", inv(1, d), V(1)))),
            ("norm", ("vadd", ("vscale", inv(2, d), V(0)), ("vscale", inv(-1, d), ("cross", V(0), V(1))))),
            ("norm", ("vscale", inv(1, d), ("vadd", V(0), V(1)))),
            ("smul", s1, ("norm", ("vadd", ("vscale", inv(1, d), V(0)), ("vadd", ("vscale", inv(3, d), V(1)), ("vscale", inv(1, d), V(0))))))]
    for k in (s0, ("int", -2), ("smul", ("int", -1), s1), ("smul", s0, s1)):
        norm_family += [("norm", ("vadd", ("vscale", k, V(0)), ("vscale", k, V(1)))), ("norm", ("vscale", k, ("cross", V(0), V(1))))]
    for rec in norm_family:
        job = {"id": jid, "recipe": rec, "nv": 2, "ns": 2, "mode": rng.choice(["auto", "doit"]), "rank": all_ranks(2, rng, 1)[0],
            "envs": [vtree.rand_env(rng, 2, 2).to_json() for _ in range(8)]}
        jobs_by_seed[None].append(job)
        meta[jid] = job
        distinct.add(rec)
        jid += 1
    results = {}
    ctx.log(f"{jid} builds of {ntrees} recipes (+{n_spread} with a composite operand placed between symbols, +{len(norm_family)} norms "
        "with common factors/denominators)")
    for s, jobs in jobs_by_seed.items():
        for chunk in range(0, len(jobs), 400):
            for r in run_jobs(jobs[chunk:chunk + 400], s):
                r["hashseed"] = 0 if s is None else s
                results[r["id"]] = r
    decide_trees(ctx, meta, results, failed_rules, "tv", hist_tags, hist_depth, len(distinct))
    ctx.coverage["streams"]["tv"]["builds_with_composite_operand_in_the_middle_of_the_id_order"] = sum(
        1 for r in results.values() if "mixed_composite_middle" in (r.get("fired") or []))
    ctx.coverage["streams"]["tv"]["builds_with_composite_operand_first_or_last"] = sum(
        1 for r in results.values() if "mixed_composite_other" in (r.get("fired") or []))


def decide_trees(ctx, meta, results, failed_rules, stream, hist_tags, hist_depth, ndistinct):
    lemmas = []
    status_hist = {}
    id_orders = set()
    for jid, r in sorted(results.items()):
        status_hist[r["status"]] = status_hist.get(r["status"], 0) + 1
        if r.get("id_rank"):
            id_orders.add((meta[jid]["nv"], tuple(r["id_rank"])))
        if r["status"] == "ok" and not r["mismatch"]:
            # (a tree whose output already differs numerically is a refuted obligation: not sent to Coq)
            lemmas.append(coqrun.Lemma(f"{stream}_{jid}", r["statement"], r["proof"], vx.show_recipe(vtree.totuple(meta[jid]["recipe"]))))
    proved = coqrun.prove_lemmas(ctx, stream, vtree.TV_PREAMBLE, lemmas, per_file=ctx.pick(10, 20), timeout=900) if lemmas else {}
    ctx.log(f"{stream}: {len(lemmas)} lemmas through coqc")
    n_ok = sum(v == "ok" for v in proved.values())
    n_refuted = sum(1 for r in results.values() if r["status"] == "ok" and r["mismatch"])
    ctx.obligations(len(lemmas) + n_refuted, n_ok)
    attributed = 0
    fully = 0
    reported = 0
    suppressed = 0
    REPORT_CAP = 8
    for jid, r in sorted(results.items()):
        job = meta[jid]
        rec = vtree.totuple(job["recipe"])
        base = {"kind": "tree", "stream": stream, "recipe": job["recipe"], "shown": vx.show_recipe(rec), "nv": job["nv"], "ns": job["ns"],
            "nf": job.get("nf", 0), "mode": job["mode"], "rank": job["rank"], "spread": job.get("spread"), "spread_seed": job.get("spread_seed"),
            "same_name": job.get("same_name"), "nfun2": job.get("nfun2"), "order": job.get("order"), "orders": job.get("orders"),
            "twice_form": job.get("twice_form"), "hashseed": r.get("hashseed", 0), "fired": r.get("fired"),
            "output": r.get("out_str")}
        if r["status"] == "recursion":
            cls = classify_recursion(r["cycle"])
            ctx.violation(f"C14:diff:nontermination:{cls}" if job["mode"] in ("diff", "diff2", "partial", "diffn") else f"C14:nontermination:{cls}",
                f"{'differentiating' + (' twice' if job['mode'] == 'diff2' else '') if job['mode'] in ('diff', 'diff2', 'partial', 'diffn') else 'building'} "
                f"{vx.show_recipe(rec)} does not terminate "
                f"(RecursionError through {', '.join(r['cycle'])})", {**base, "observed": "RecursionError", "cycle": r["cycle"],
                "expected": "a value", "theorem_or_tie": "termination of the constructors / of .diff()"}, True)
            continue
        if r["status"] == "exception":
            ctx.violation(f"C14:exception:{job['mode']}:{vx.show_recipe(rec)}", f"{vx.show_recipe(rec)} raises {r['error']}",
                {**base, "observed": r["error"], "expected": "a value"}, True)
            continue
        if r["status"] == "unmodelled":
            ctx.violation(f"C14:unmodelled:{job['mode']}:{vx.show_recipe(rec)}", f"the output of {vx.show_recipe(rec)} is outside the "
                f"serialiser's vocabulary: {r['error']}", {**base, "kind": "broken-tie", "theorem_or_tie": "vp/vx.py coq_of_sympy",
                "message": r["error"]}, False)
            continue
        ok_coq = proved.get(f"{stream}_{jid}") == "ok"
        if ok_coq and not r["mismatch"]:
            fully += 1
            continue
        if ok_coq and r["mismatch"]:
            # Coq proved equality for all values but the numeric evaluators disagree: the harness is inconsistent
            ctx.violation(f"C14:harness:{vx.show_recipe(rec)}", "kernel-proved identity contradicted by numeric evaluation (serialiser/evaluator bug)",
                {**base, **r["mismatch"], "kind": "broken-tie", "theorem_or_tie": "vx.eval vs vx.coq"}, False)
            continue
        hit = r["mismatch"]
        blame = sorted(set(r.get("fired") or []) & failed_rules)
        if blame:
            # explained by an already reported wrong rule?  rebuild with the reference identity in its place
            undo = vtree.install_reference(set(failed_rules))
            try:
                r2 = vtree.process({**job, "trace": False, "envs": job["envs"] + [vtree.rand_env(ctx.rng, job["nv"], job["ns"]).to_json()
                    for _ in range(4)]})
            finally:
                undo()
            if r2["status"] == "recursion":
                # with the reported rule repaired, the same tree runs into the (separately reported) non-termination
                cls = classify_recursion(r2["cycle"])
                attributed += 1
                ctx.violation(f"C14:diff:nontermination:{cls}" if job["mode"] in ("diff", "diff2", "partial", "diffn") else f"C14:nontermination:{cls}",
                    f"{vx.show_recipe(rec)} does not terminate (RecursionError through {', '.join(r2['cycle'])})",
                    {**base, "observed": "RecursionError", "cycle": r2["cycle"], "expected": "a value"}, True)
                continue
            if r2["status"] == "ok" and not r2["mismatch"]:
                attributed += 1
                if hit:
                    ctx.violation(f"C14:rule:{blame[0]}", f"{vx.show_recipe(rec)} evaluates to {hit['observed']} instead of {hit['expected']} "
                        f"(through rule {blame[0]})", {**base, **hit, "rule": blame[0]}, True)
                continue
        if reported >= REPORT_CAP:
            suppressed += 1
            continue
        reported += 1
        if hit:
            ctx.violation(tv_key(job["mode"], rec, job["rank"]), f"{vx.show_recipe(rec)} ({job['mode']}, identity order {job['rank']}) gives "
                f"{r.get('out_str')}, which evaluates to {hit['observed']} instead of {hit['expected']}",
                {**base, **hit, "lemma": r["statement"], "theorem_or_tie": f"generated lemma {stream}_{jid}"}, True)
        else:
            # widen the numeric search before giving up
            more = vtree.process({**job, "trace": False, "envs": [vtree.rand_env(ctx.rng, job["nv"], job["ns"], job.get("nf", 0), small=False).to_json()
                for _ in range(40)]})
            if more["status"] == "ok" and more["mismatch"]:
                ctx.violation(tv_key(job["mode"], rec, job["rank"]), f"{vx.show_recipe(rec)} gives {r.get('out_str')}, which evaluates to "
                    f"{more['mismatch']['observed']} instead of {more['mismatch']['expected']}", {**base, **more["mismatch"],
                    "lemma": r["statement"]}, True)
            else:
                ctx.violation(f"C14:tv-proof:{job['mode']}:{vx.show_recipe(rec)}", f"could not prove that {vx.show_recipe(rec)} equals its output "
                    f"{r.get('out_str')}", {**base, "kind": "broken-proof", "lemma": r["statement"], "proof": r["proof"],
                    "coq_error": str(proved.get(f"{stream}_{jid}"))[-400:], "theorem_or_tie": f"generated lemma {stream}_{jid}"}, False)
    ctx.evaluated(len(results), ndistinct)
    cov = ctx.coverage.setdefault("streams", {})
    cov[stream] = {"builds": len(results), "distinct_recipes": ndistinct, "lemmas": len(lemmas) + n_refuted, "proved": n_ok, "refuted_numerically": n_refuted, "fully_validated": fully,
        "explained_by_reported_rule": attributed, "failing_trees_reported": reported,
        "failing_trees_not_reported_individually": suppressed, "status": status_hist, "node_histogram": hist_tags,
        "depth_histogram": {str(k): v for k, v in sorted(hist_depth.items())},
        "distinct_identity_orders": len(id_orders), "hash_seeds": sorted({r.get("hashseed", 0) for r in results.values()})}
    ctx.coverage["programs"] = ctx.coverage.get("programs", 0) + len(results)
    ctx.coverage["disagreements_checked"] = ctx.coverage.get("disagreements_checked", 0) + (len(lemmas) + n_refuted - n_ok)
    for jid, r in list(sorted(results.items()))[:2]:
        if r["status"] == "ok":
            ctx.sample({"stream": stream, "recipe": vx.show_recipe(vtree.totuple(meta[jid]["recipe"])), "mode": meta[jid]["mode"],
                "identity_order": meta[jid]["rank"], "output": r["out_str"], "lemma": r["statement"][:300]})


def embed(r) -> str:
    """recipe -> term of Model/VecDiff.v (pv / ps); a vector function becomes PFun with value f_i and derivative df_i"""
    t = r[0]
    g = embed
    if t == "vsym":
        return f"(PSym v{r[1]})"
    if t == "vfun":
        return (f"(PFun (fun n _ => match n with O => f{r[1]} | 1%nat => df{r[1]} | 2%nat => ddf{r[1]} | 3%nat => f{r[1]}_d3 "
                f"| 4%nat => f{r[1]}_d4 | _ => f{r[1]}_d5 end) 0)")
    if t == "vzero":
        return "(PSym vzero)"
    if t == "vadd":
        return f"(PAddV {g(r[1])} {g(r[2])})"
    if t == "vscale":
        return f"(PScaleV {g(r[1])} {g(r[2])})"
    if t == "cross":
        return f"(PCrossV {g(r[1])} {g(r[2])})"
    if t == "int":
        return f"(PConst {vx.zlit(r[1])})"
    if t == "ssym":
        return f"(PConst s{r[1]})"
    if t == "par":
        return "PPar"
    if t == "sadd":
        return f"(PAddS {g(r[1])} {g(r[2])})"
    if t == "smul":
        return f"(PMulS {g(r[1])} {g(r[2])})"
    if t == "dot":
        return f"(PDotS {g(r[1])} {g(r[2])})"
    if t == "mixed":
        return f"(PMixedS {g(r[1])} {g(r[2])} {g(r[3])})"
    if t == "norm":
        return f"(PNormS {g(r[1])})"
    raise vx.Unsupported(t)


DSPEC_PREAMBLE = vtree.TV_PREAMBLE + "From VP Require Import Model.VecDiff.\n"


def diff_spec_lemmas(ctx, meta):
    """the product rule the harness applies to recipes (vx.diff_recipe) is the structural derivative D of
    Model/VecDiff.v, about which diff_terminates_and_leibniz is proved"""
    lemmas = []
    for jid, job in meta.items():
        if job["mode"] == "partial" or (job["mode"] == "diffn" and (set(job["orders"]) != {"t"} or (ctx.quick and len(job["orders"]) > 3))):
            continue                  # Model/VecDiff.v has one parameter
        rec = vtree.totuple(job["recipe"])
        atoms = {"v": set(range(job["nv"])), "s": set(range(job["ns"])), "f": set(range(job.get("nf", 0))), "par": True}
        order = {"diff": 1, "diff2": 2}.get(job["mode"]) or len(job["orders"])
        spec = rec
        inner = embed(rec)
        for _ in range(order):
            spec = vx.diff_recipe(spec)
            inner = f"(Dv {inner})" if vx.is_vec(rec) else f"(Ds {inner})"
        atoms["high"] = True          # the embedding of a vector function names its derivatives up to order 5
        lhs = f"pval_v {inner} t" if vx.is_vec(rec) else f"pval_s {inner} t"
        lemmas.append(coqrun.Lemma(f"dspec_{jid}", f"forall {vx.binder(atoms)}, {lhs} = {vx.coq_of_recipe(spec)}",
            "intros. cbn [pval_s pval_v Ds Dv]. cbv beta iota. timeout 60 v3_finish.", vx.show_recipe(rec)))
    res = coqrun.prove_lemmas(ctx, "dspec", DSPEC_PREAMBLE, lemmas, per_file=20, timeout=600)
    ok = sum(v == "ok" for v in res.values())
    ctx.obligations(len(lemmas), ok)
    ctx.coverage["diff_spec_lemmas"] = {"lemmas": len(lemmas), "proved": ok}
    for name, st in res.items():
        if st != "ok":
            jid = int(name.split("_")[1])
            ctx.violation(f"C14:dspec:{vx.show_recipe(vtree.totuple(meta[jid]['recipe']))}", "the harness' product rule on a recipe differs from "
                "the structural derivative of Model/VecDiff.v", {"kind": "broken-tie", "theorem_or_tie": f"generated lemma {name}",
                "coq_error": st[-400:]}, False)


def layer_diff(ctx, failed_rules):
    rng = ctx.rng
    n = ctx.pick(120, 600)
    meta, jobs = {}, []
    hist_tags, hist_depth = {}, {}
    distinct = set()
    for jid in range(n):
        nf = rng.choice([0, 0, 0, 1, 2])
        nv, ns, rec = gen_tree(rng, nf=nf, par=True, max_size=14)
        distinct.add(rec)
        for k, v in vx.recipe_tags(rec).items():
            hist_tags[k] = hist_tags.get(k, 0) + v
        d = vx.recipe_depth(rec)
        hist_depth[d] = hist_depth.get(d, 0) + 1
        envs = [vtree.rand_env(rng, nv, ns, nf).to_json() for _ in range(4)]
        job = {"id": jid, "recipe": rec, "nv": nv, "ns": ns, "nf": nf, "mode": "diff", "rank": all_ranks(nv, rng, 1)[0], "envs": envs,
            "same_name": rng.random() < 0.25}
        jobs.append(job)
        meta[jid] = job
    jid = n
    # every pattern of which operands of a product depend on the parameter (through vector functions), and second derivatives
    fam = [("mixed", *ops) for ops in MIXED_DEPENDENCE] + [("dot", ops[0], ("cross", ops[1], ops[2])) for ops in MIXED_DEPENDENCE]
    fam += [("dot", F(0), V(0)), ("dot", F(0), F(1)), ("cross", F(0), V(0)), ("cross", F(0), F(1)), ("cross", V(0), ("cross", F(0), V(1))),
        ("vscale", P, F(0)), ("dot", F(0), ("vscale", P, V(0))), ("mixed", F(0), ("vadd", F(1), V(0)), ("vscale", P, V(1)))]
    for rec in fam:
        for mode in ("diff", "diff2"):
            job = {"id": jid, "recipe": rec, "nv": 2, "ns": 2, "nf": 3, "mode": mode, "rank": all_ranks(2, rng, 1)[0],
                "twice_form": rng.choice(["nested", "order2"]), "envs": [vtree.rand_env(rng, 2, 2, 3).to_json() for _ in range(4)]}
            jobs.append(job)
            meta[jid] = job
            distinct.add((mode, rec))
            jid += 1
    for rec in [F(0), ("vscale", ("smul", P, P), F(0)), ("vadd", F(0), ("vscale", P, V(0)))]:
        for form in ("nested", "order2"):
            job = {"id": jid, "recipe": rec, "nv": 2, "ns": 2, "nf": 3, "mode": "diff2", "rank": [0, 1], "twice_form": form,
                "envs": [vtree.rand_env(rng, 2, 2, 3).to_json() for _ in range(4)]}
            jobs.append(job)
            meta[jid] = job
            distinct.add(("diff2", form, rec))
            jid += 1
    # vector functions of two / three scalar arguments: mixed partial derivatives, both orders, nested and joint calls
    G = lambda i: ("vfun2", i)
    U = ("par2",)
    pfam = [G(0), G(1), ("vscale", U, G(0)), ("vscale", ("smul", P, U), G(1)), ("dot", G(0), ("vscale", U, V(0))), ("cross", G(0), V(0)),
        ("cross", G(1), ("vscale", ("smul", P, U), V(0))), ("mixed", G(0), G(1), V(0)), ("dot", G(0), G(0)), ("dot", G(0), G(1)),
        ("vadd", G(0), ("vscale", P, G(1))), ("dot", F(0), G(0)), ("mixed", V(0), ("vscale", U, G(0)), ("vadd", V(1), ("vscale", P, G(1)))),
        ("cross", ("vscale", U, V(0)), ("cross", G(0), V(1)))]
    for rec in pfam:
        for order in ("tu", "ut"):
            for form in ("nested", "joint"):
                job = {"id": jid, "recipe": rec, "nv": 2, "ns": 2, "nf": 3, "nfun2": 2, "mode": "partial", "order": order, "twice_form": form,
                    "rank": all_ranks(2, rng, 1)[0], "same_name": rng.random() < 0.25,
                    "envs": [vtree.rand_env(rng, 2, 2, 3, nf2=2).to_json() for _ in range(4)]}
                jobs.append(job)
                meta[jid] = job
                distinct.add(("partial", order, form, rec))
                jid += 1
    # derivatives of order 3 and 4 (also in two variables) requested in ONE call: diff(t, 3), diff(t, t, t), diff(t, 2, u)
    nfam = [("dot", F(0), F(1)), ("cross", F(0), F(1)), ("dot", F(0), F(0)), ("dot", F(0), ("vscale", P, V(0))), ("cross", F(0), ("vscale", P, V(0))),
        ("smul", P, ("dot", F(0), F(1))), ("vscale", P, ("cross", F(1), F(0))), ("mixed", F(0), F(1), V(0)), ("mixed", F(0), F(1), F(2)),
        ("cross", F(0), ("cross", F(1), V(0))), ("smul", ("dot", F(0), V(0)), ("dot", F(1), V(1))), ("sadd", ("dot", F(0), F(1)), ("smul", P, P)),
        ("dot", ("vadd", F(0), ("vscale", P, F(1))), F(1))]
    gfam = [("dot", G(0), G(1)), ("cross", G(0), G(1)), ("dot", G(0), ("vscale", U, V(0))), ("mixed", G(0), G(1), V(0)), ("dot", F(0), G(0))]
    for rec, orders_list in [(r_, (["t"] * 3, ["t"] * 4)) for r_ in nfam] + [(r_, (["t", "t", "u"], ["t", "u", "u"], ["u", "t", "t"])) for r_ in gfam]:
        if ctx.quick:
            # quick: order 3 for every recipe (one call form), order 4 for a few; thorough: every order and both call forms
            orders_list = [orders_list[0]] + ([orders_list[1]] if rec in nfam[:3] else []) if rec in nfam else [rng.choice(orders_list)]
        for orders in orders_list:
            for form in (("count", "repeat") if not ctx.quick else (rng.choice(["count", "repeat"]),)):
                job = {"id": jid, "recipe": rec, "nv": 2, "ns": 2, "nf": 3, "nfun2": 2, "mode": "diffn", "orders": orders, "twice_form": form,
                    "rank": all_ranks(2, rng, 1)[0], "same_name": rng.random() < 0.2,
                    "envs": [vtree.rand_env(rng, 2, 2, 3, nf2=2).to_json() for _ in range(4)]}
                jobs.append(job)
                meta[jid] = job
                distinct.add(("diffn", tuple(orders), form, rec))
                jid += 1
    results = {r["id"]: r for r in run_jobs(jobs)}
    for r in results.values():
        r["hashseed"] = 0
    decide_trees(ctx, meta, results, failed_rules, "diff", hist_tags, hist_depth, len(distinct))
    ctx.coverage["streams"]["diff"]["higher_order_single_call_builds"] = sum(1 for j in meta.values() if j["mode"] == "diffn")
    ctx.coverage["streams"]["diff"]["mixed_partial_builds"] = sum(1 for j in meta.values() if j["mode"] == "partial")
    ctx.coverage["streams"]["diff"]["second_derivative_builds"] = sum(1 for j in meta.values() if j["mode"] == "diff2")
    diff_spec_lemmas(ctx, meta)


# ---------------------------------------------------------------------------------------------

def run(ctx):
    sys.setrecursionlimit(3000)
    ctx.level = "translation_validation"
    ctx.static(STATIC)
    ctx.trust("Coq 8.16.1 kernel (vm_compute only in the correspondence files); axioms of Coq.Reals as listed under axioms",
        "harness/vp/vrules.py: reading of the rule bodies from the Python AST (fail-closed); its product rule on rule bodies",
        "harness/vp/vx.py: recipe -> Coq, SymPy output tree -> Coq (fail-closed), own evaluators and own product rule on recipes",
        "SymPy Add/Mul/expand/together/Abs canonicalisation (observed through the per-tree obligations, not modelled)",
        "CPython id() and sorted() on integers (modelled: insertion sort; keys identify objects)",
        "sympy.combinatorics Permutation.signature (modelled as parity of inversions; tied by correspondence)")
    ctx.assume("scalars are real; vectors are real 3-vectors; a VectorSymbol denotes the same vector wherever it occurs",
        "Model/VecAlg.v evaluates the calls made inside a rule body semantically (their own soundness is the theorem at smaller "
        "arguments); termination of the real recursion is observed per tree, not proved",
        "the derivative of a vector function of the parameter is an independent vector (fresh atom)")
    ctx.log("static theorems checked")
    failed = layer1(ctx)
    ctx.log(f"layer 1 done; rules that are not identities: {sorted(failed)}")
    corr_sort_with_sign(ctx)
    corr_ordered_mul(ctx)
    ctx.log("correspondence done")
    layer3(ctx, failed)
    ctx.log("trees done")
    churn(ctx)
    ctx.log("long series done")
    layer_diff(ctx, failed)
    ctx.log("derivatives done")
    ctx.coverage["rule"] = ("trees: seeded recipes (depth <= 4, <= 22 nodes) over 2-5 vector symbols and 2 real scalar symbols with sums, "
        "scalings, dot/cross/mixed/norm, repeated and composite arguments; each built by the real constructors (automatic evaluation or "
        "evaluate=False + doit()) under several identity orders of the symbols (objects are assigned by id() rank) and hash seeds; "
        "distinct = distinct recipes; every recipe contains at least one product.  correspondence: all key lists up to length 4 (5 in "
        "thorough) + seeded longer ones; seeded integer linear combinations for _ordered_mul")
    ctx.coverage["failed_rules"] = sorted(failed)


# ---------------------------------------------------------------------------------------------
# replay
# ---------------------------------------------------------------------------------------------

def replay(ctx, rep):
    sys.setrecursionlimit(3000)
    if "recipe" not in rep:
        print(json.dumps({k: rep.get(k) for k in ("key", "what", "theorem_or_tie", "message", "lemma", "coq_error")}, indent=1))
        return 0
    rec = vtree.totuple(rep["recipe"])
    envs = [rep["env"]] if rep.get("env") else []
    job = {"recipe": rec, "nv": rep["nv"], "ns": rep["ns"], "nf": rep.get("nf", 0), "mode": rep.get("mode", "auto"),
        "rank": rep.get("rank"), "envs": envs}
    for k in ("spread", "spread_seed", "same_name", "nfun2", "order", "orders", "twice_form"):
        if rep.get(k) is not None:
            job[k] = rep[k]
    if rep.get("kind") == "churn":
        return replay_churn(rep)
    hs = rep.get("hashseed", 0)
    r = run_jobs([job], None if hs in (0, None) else hs)[0]
    print(f"expression : {vx.show_recipe(rec)}   (mode {job['mode']}, identity order {job['rank']}, PYTHONHASHSEED {hs})")
    print(f"status     : {r['status']}  {r.get('error') or r.get('cycle') or ''}")
    print(f"output     : {r.get('out_str')}")
    if envs:
        print(f"assignment : {envs[0]}")
    if r.get("mismatch"):
        print(f"expected   : {r['mismatch']['expected']}\nobserved   : {r['mismatch']['observed']}")
        print("REPRODUCED")
        return 1
    if r["status"] in ("recursion", "exception"):
        print("REPRODUCED")
        return 1
    print("not reproduced (values agree)")
    return 0
