"""C08 -- the approximate-equality oracle accepts only same-dimension values within tolerance.

static theorems : coq/theories/Properties/C08.v  (about the exact instance QO of Model/Approx.v)
tie             : correspondence -- approx_equal_numbers / approx_equal_quantities / assert_equal / assert_equal_vectors
                  are run on seeded inputs (boundary-straddling pairs, complex operands, mixed units and prefixes, wrong
                  dimensions, bare numbers with and without dimension=, vectors of unequal length); the binary64 instance
                  FO of the SAME Gallina algorithm is evaluated on the same inputs inside Coq and must agree bit-exactly;
                  on the cases where every float operation is exact the exact instance QO (the one the theorems are
                  about) must agree too."""
from __future__ import annotations

import math
from fractions import Fraction

import sympy
from sympy import Float, Rational, S
from sympy.physics import units as u
from sympy.physics.units import Quantity as SymQuantity

from vp import coqrun, qx, unitgen
from vp.unitgen import build
from props.c07 import indep_scale_dim, indep_deps, erase, is_anyval, float_cert

STATIC = ["approx_numbers_spec", "approx_rejects", "approx_accepts_abs", "approx_accepts_rel", "approx_symmetric_without_abs",
    "approx_infinite_only_equal_to_itself", "approx_symmetric_extended", "assert_equal_infinite_rejects", "dim_gate_pass_iff", "approx_dimension_first", "assert_equal_dimension_first",
    "approx_imag_checked", "assert_equal_rejects", "assert_equal_accepts", "assert_equal_symmetric_without_abs",
    "approx_unit_independent", "approx_unit_independent_lhs", "bare_number_needs_dimension", "bare_number_with_dimension",
    "vectors_pass_iff", "vectors_need_equal_length"]

PREAMBLE = (qx.PREAMBLE + "From Coq Require Import Floats Qabs.\nFrom VP Require Import Model.Convert Model.Approx.\n"
    "Local Open Scope float_scope.\n")


# ---------------------------------------------------------------------------------------------
# literals
# ---------------------------------------------------------------------------------------------

def f_lit(x) -> str:
    x = float(x)
    if math.isnan(x):
        return "nan"
    if x == math.inf:
        return "infinity"
    if x == -math.inf:
        return "neg_infinity"
    h = x.hex()
    if h.startswith("-"):
        return f"(PrimFloat.opp {h[1:]})"
    return h


def fopt_lit(x) -> str:
    return "None" if x is None else f"(Some {f_lit(x)})"


def obs_bool(fn, *a, **k):
    """('ok', bool) | ('err', class, message)"""
    try:
        r = fn(*a, **k)
    except Exception as e:  # pylint: disable=broad-except
        return ("err", qx.err_class(e), f"{type(e).__name__}: {e}"[:160])
    return ("ok", bool(r))


def rbool_lit(obs) -> str:
    if obs[0] == "err":
        return f"(Err {obs[1]}%N)"
    return f"(Ok {'true' if obs[1] else 'false'})"


def obs_verdict(fn, *a, **k):
    """None (returned) | error class"""
    try:
        fn(*a, **k)
    except Exception as e:  # pylint: disable=broad-except
        return qx.err_class(e), f"{type(e).__name__}: {e}"[:160]
    return None, ""


def verdict_lit(v) -> str:
    return "None" if v is None else f"(Some {v}%N)"


def fr(x: float) -> Fraction:
    return Fraction(x)


def exact_float_ops(l, r, rel, abs_, dflt):
    """Are all float operations approx_equal_numbers performs on these inputs exact (so that exact rational arithmetic
    reproduces them)?  Only finite inputs qualify."""
    vals = [l, r] + [x for x in (rel, abs_) if x is not None]
    if not all(isinstance(x, (int, float)) and math.isfinite(x) for x in vals):
        return False
    rel_e = dflt if rel is None else rel
    try:
        if abs_ is None and fr(l) * fr(rel_e) != fr(float(l) * float(rel_e)):
            return False
        if fr(rel_e) * abs(fr(r)) != fr(float(rel_e) * abs(float(r))):
            return False
        if fr(r) - fr(l) != fr(float(r) - float(l)):
            return False
    except (OverflowError, ValueError):
        return False
    return True


# ---------------------------------------------------------------------------------------------
# specification predicate (from the property text; exact arithmetic with a 2^-40 guard band for float rounding)
# ---------------------------------------------------------------------------------------------
GUARD = Fraction(1, 2**40)


def spec_numbers(l, r, rel, abs_, dflt, passed):
    """True / False / None(silent).  `passed` = the implementation said "equal"."""
    if all(isinstance(x, (int, float)) for x in (l, r)) and (math.isinf(l) or math.isinf(r)) and not (math.isnan(l) or math.isnan(r)):
        return passed == (l == r)          # an infinite value differs from everything but itself by more than any tolerance
    vals = [l, r] + [x for x in (rel, abs_) if x is not None]
    if not all(isinstance(x, (int, float)) and math.isfinite(x) for x in vals):
        return None
    rel_e = fr(dflt if rel is None else rel)
    if rel_e < 0 or (abs_ is not None and abs_ < 0):
        return None
    d = abs(fr(l) - fr(r))
    big = max(abs(fr(l)), abs(fr(r)))
    reject_above = max(fr(abs_) if abs_ is not None else Fraction(0), rel_e * big)
    stated = fr(abs_) if abs_ is not None else rel_e * big
    if d > reject_above * (1 + GUARD) + Fraction(1, 10**320):
        return not passed
    if d <= stated * (1 - GUARD):
        return passed
    return None


def parts(obj):
    """(re, im) of the SI scale factor as floats, by plain SymPy (independent of the code under test)"""
    s = qx.pyvalue(obj) if not isinstance(obj, SymQuantity) else obj.scale_factor
    s = sympy.sympify(s)
    return float(sympy.re(s)), float(sympy.im(s))


def spec_assert_equal(lhs, rhs, rel, abs_, dimension, dflt, verdict):
    """True / False / None for assert_equal's verdict (None = passed, else error class) on python objects."""
    from sympy.physics.units.systems.si import dimsys_SI  # pylint: disable=import-outside-toplevel
    try:
        sl, dl = indep_deps(lhs)
        sr, dr = indep_deps(rhs)
        if dimension is not None and not _is_spq(rhs):
            dr = {str(k.name): sympy.nsimplify(v) for k, v in dimsys_SI.get_dimensional_dependencies(dimension).items()}
            dr.pop("angle", None)
    except Exception:  # pylint: disable=broad-except
        return None
    passed = verdict is None
    if (sl in (sympy.oo, -sympy.oo) or sr in (sympy.oo, -sympy.oo)) and sl is not sympy.nan and sr is not sympy.nan and sl != sr:
        return not passed                                   # infinite vs anything else: must fail, in either order
    if is_anyval(sl) or is_anyval(sr) or "any_dimension" in dl or "any_dimension" in dr or sl.has(sympy.zoo) or sr.has(sympy.zoo):
        return None
    if dl != dr:
        return not passed                                   # dependency dicts differ after angle erasure: must fail
    try:
        lre, lim = parts(lhs)
        rre, rim = parts(rhs)
    except Exception:  # pylint: disable=broad-except
        return None
    a = spec_numbers(lre, rre, rel, abs_, dflt, True)      # would "pass" be right for the real parts?
    b = spec_numbers(lim, rim, rel, abs_, dflt, True)
    if a is False or b is False:
        return not passed                                   # some part differs by more than the tolerance: must fail
    if a is True and b is True:
        return passed                                       # both parts within the stated tolerance: must pass
    return None


def _is_spq(obj):
    from symplyphysics import Quantity  # pylint: disable=import-outside-toplevel
    return isinstance(obj, Quantity)


# ---------------------------------------------------------------------------------------------
# stream 1: numbers
# ---------------------------------------------------------------------------------------------
RELS = [None, None, None, 2.0**-10, 2.0**-7, 0.001, 0.01, 0.5, 1.0, 0.0, 2.0**-20, 1e-9, 3.0]
ABSS = [None, None, None, None, 2.0**-10, 0.5, 0.0, 1e-12, 2.0**-30, 1.0, 1e6]


def nudge(x: float, k: int) -> float:
    for _ in range(abs(k)):
        x = math.nextafter(x, math.inf if k > 0 else -math.inf)
    return x


def gen_number_case(rng, dflt):
    """(l, r, rel, abs, kind)"""
    t = rng.random()
    if t < 0.62:
        # boundary-straddling: l = r*(1 +- rel) +- k ulp   (dyadic r and rel: every operation exact)
        rel = rng.choice(RELS)
        rel_e = dflt if rel is None else rel
        if rng.random() < 0.6:
            r = rng.choice([1, -1]) * rng.randrange(1, 2**20) * 2.0**rng.randrange(-30, 30)
        else:
            r = rng.choice([1, -1]) * rng.uniform(1, 10) * 10.0**rng.randrange(-12, 13)
        abs_ = rng.choice(ABSS) if rng.random() < 0.35 else None
        side = rng.choice([1, -1])
        which = rng.random()
        if which < 0.5:
            l = r * (1 + side * rel_e)                 # boundary of rel*|r|
        elif which < 0.8:
            l = r / (1 - side * rel_e) if rel_e != 1 else r * 2   # boundary of rel*|l|
        else:
            l = r + side * (abs_ if abs_ is not None else rel_e * abs(r))
        l = nudge(l, rng.randrange(-2, 3))
        if rng.random() < 0.5:
            l, r = r, l
        return l, r, rel, abs_, "boundary"
    if t < 0.75:
        pool = [0.0, -0.0, 1.0, -1.0, math.inf, -math.inf, math.nan, 5e-324, 2.2250738585072014e-308, 1.7976931348623157e308,
            1e-300, 1.001, 0.999, 1e300]
        return rng.choice(pool), rng.choice(pool), rng.choice(RELS), rng.choice(ABSS), "special"
    if t < 0.85:
        # hostile tolerances
        bad = [-1.0, -0.001, math.nan, math.inf, -math.inf, -0.0]
        l, r = rng.choice([1.0, 1.5, 0.0, 2.0, math.inf]), rng.choice([1.0, 1.5, 0.0, -2.0, math.nan])
        rel = rng.choice(bad + RELS)
        abs_ = rng.choice(bad + ABSS)
        return l, r, rel, abs_, "hostile-tolerance"
    if t < 0.93:
        l = rng.uniform(-1e3, 1e3)
        r = l * (1 + rng.uniform(-3e-3, 3e-3))
        return l, r, rng.choice(RELS), rng.choice(ABSS), "random-near"
    a = rng.randrange(-50, 50)
    return a, a + rng.randrange(-2, 3), rng.choice([None, 1, 0, 0.5]), rng.choice([None, 1, 2, 0]), "ints"


def stream_numbers(ctx, n, dflt):
    from symplyphysics.core.approx import approx_equal_numbers  # pylint: disable=import-outside-toplevel
    rng = ctx.rng
    cases, hist = [], {}
    pool = [math.inf, -math.inf, 1.0, 0.0, -1e300, math.nan]
    fixed = [(l, r, rel, abs_, "infinite-boundary") for l in pool for r in pool if math.isinf(l) or math.isinf(r)
        for rel, abs_ in ((None, None), (0.5, None), (None, 1.0), (math.inf, None), (None, math.inf), (-1.0, None))]
    for i in range(n):
        l, r, rel, abs_, kind = fixed[i] if i < len(fixed) else gen_number_case(rng, dflt)
        kw = {}
        if rel is not None:
            kw["relative_tolerance"] = rel
        if abs_ is not None:
            kw["absolute_tolerance"] = abs_
        obs = obs_bool(approx_equal_numbers, l, r, **kw)
        ex = exact_float_ops(l, r, rel, abs_, dflt)
        lit = f"({f_lit(l)}, {f_lit(r)}, {fopt_lit(rel)}, {fopt_lit(abs_)}, {'true' if ex else 'false'}, {rbool_lit(obs)})"
        cases.append({"lit": lit, "l": l, "r": r, "rel": rel, "abs": abs_, "kind": kind, "obs": obs, "exact": ex})
        k = f"numbers/{kind}:{obs[1] if obs[0] == 'ok' else 'err%d' % obs[1]}"
        hist[k] = hist.get(k, 0) + 1
    return cases, hist


NUM_CHECK = ("fun c : float * float * option float * option float * bool * result bool => "
    "let '(l, r, rel, ab, ex, o) := c in "
    "rbool_eqb (approx_numbers FO live_dflt l r rel ab) o && "
    "(if ex then rbool_eqb (approx_numbers QO (xq_of_float live_dflt) (xq_of_float l) (xq_of_float r) (xq_of_opt rel) (xq_of_opt ab)) o "
    " else true)")


# ---------------------------------------------------------------------------------------------
# stream 2: quantities
# ---------------------------------------------------------------------------------------------

def representable(fr_: Fraction) -> bool:
    try:
        return Fraction(float(fr_)) == fr_
    except OverflowError:
        return False


EXTRA_BASES = ["information", "apples", "pears"]


def dim_vec_x(d):
    """qx.dim_vec, or -- when the dimension has a base outside Dim.v's nine slots -- the nine slots followed by one slot per
    extra base (sympy's `information`, user-defined Dimension symbols).  Dim.v's functions (deqb, dimensionless, erase_angle)
    are generic in the length of the vector; a 9-slot and a 12-slot vector are never equivalent, which is the right verdict
    because the 12-slot form is only used when an extra component is non-zero."""
    from sympy.physics.units.systems.si import dimsys_SI  # pylint: disable=import-outside-toplevel
    try:
        return qx.dim_vec(d)
    except qx.Unsupported:
        deps = {str(k.name): sympy.nsimplify(v) for k, v in dimsys_SI.get_dimensional_dependencies(d).items()}
        names = qx.BASES + EXTRA_BASES
        if any(k not in names for k in deps):
            raise
        return tuple(Fraction(int(deps[k].p), int(deps[k].q)) if k in deps else Fraction(0) for k in names)


def aq_lit(q) -> str:
    """Model/Approx.v `aq FO` for a Quantity object: class of the scale factor, float(re), float(im), dimension."""
    s = sympy.sympify(q.scale_factor)
    vc = qx.val_class(s)
    re_, im_ = float(sympy.re(s)), float(sympy.im(s))
    return (f"(@Build_aq FO {qx.val_lit(vc)} {f_lit(re_)} {f_lit(im_)} {qx.dim_lit(dim_vec_x(q.dimension))})")


def operand_lit(obj):
    """(literal, ok) -- a symplyphysics Quantity is OQ; anything else is OE (the model builds the quantity).  For OE the
    collected scale must be a real rational that binary64 represents exactly (the model converts it exactly)."""
    if _is_spq(obj):
        return f"(OQ {aq_lit(obj)})", True
    s = sympy.sympify(qx.pyvalue(obj))
    vc = qx.val_class(s)
    if vc[0] == "Q" and not representable(vc[1]):
        return None, False
    if vc[0] in ("Other", "Sym", "Zoo"):
        return None, False
    return f"(@OE FO {qx.qexpr_lit(obj)})", True


BOUNDARY_UNITS = {
    # units whose scale factors are powers of two times small integers are rare; what matters is that the harness reads
    # the floats off the constructed Quantity, so any unit will do for OQ operands
    "length": ["u.meter", "u.kilometer", "u.centimeter", "prefixes.milli*u.meter", "u.inch", "u.kilo*u.meter"],
    "mass": ["u.kilogram", "u.gram", "u.tonne", "prefixes.micro*u.gram"],
    "time": ["u.second", "u.minute", "u.hour", "u.millisecond"],
    "energy": ["u.joule", "u.kilo*u.joule", "u.newton*u.meter", "u.watt*u.hour"],
    "pressure": ["u.pascal", "u.bar", "u.atmosphere"],
    "frequency": ["u.hertz", "1/u.second", "u.radian/u.second"],
    "dimensionless": ["S.One", "u.percent", "u.radian"],
    "velocity": ["u.meter/u.second", "u.kilometer/u.hour"],
}


def float_src(x: float) -> str:
    return f"Float({float(x)!r}, 17)" if math.isfinite(x) else ("oo" if x > 0 else "-oo") if not math.isnan(x) else "nan"


EXTRA_Q = ["Quantity({v}*u.byte)", "Quantity({v8}*u.bit)", "Quantity({v}*u.bit/u.second)", "Quantity({v}*u.hertz)", "Quantity({v}*u.joule/u.bit)",
    "Quantity({v}*u.joule)", "Quantity({v}, dimension=Dimension('apples'))", "Quantity({v}, dimension=Dimension('pears'))", "Quantity({v})",
    "Quantity({v}*u.meter, dimension=u.length*Dimension('apples'))", "Quantity({v}*u.meter)", "Quantity({v8})", "Quantity({v}*u.byte*u.radian)",
    "Quantity({v}, dimension=angle_type*Dimension('apples'))", "Quantity({v}*u.kibibyte/1024)", "Quantity({v8}*u.bit/u.second)"]


def gen_extra_dimension_case(rng):
    """dimensions with a base outside the seven SI ones (information, user-defined symbols): equal scale factors, so only the
    dimension check can tell the operands apart"""
    v = rng.randrange(1, 2**10) * 2.0**rng.randrange(-4, 5)
    fmt = {"v": float_src(v), "v8": float_src(8 * v)}
    lsrc, rsrc = rng.choice(EXTRA_Q).format(**fmt), rng.choice(EXTRA_Q).format(**fmt)
    dim_src = None
    r = rng.random()
    if r < 0.15:
        rsrc = rng.choice([float_src(8 * v), float_src(v)])                    # bare number, no dimension
    elif r < 0.3:
        rsrc = rng.choice([float_src(8 * v), float_src(v)])
        dim_src = rng.choice(["u.information", "Dimension('apples')", "u.information/u.time", "u.length"])
    return {"lsrc": lsrc, "rsrc": rsrc, "rel": rng.choice([None, None, 0.5]), "abs": None, "dim": dim_src, "kind": "extra-dimension"}


def gen_quantity_case(rng, dflt):
    """returns dict(lsrc, rsrc, rel, abs, dim_src, kind)"""
    if rng.random() < 0.1:
        return gen_extra_dimension_case(rng)
    cls = rng.choice(sorted(BOUNDARY_UNITS))
    rel = rng.choice(RELS)
    rel_e = dflt if rel is None else rel
    abs_ = rng.choice(ABSS) if rng.random() < 0.25 else None
    t = rng.random()
    dim_src = None
    if t < 0.45:
        # boundary: same physical value written in two units, rhs displaced to the tolerance boundary +- k ulp
        ul, ur = rng.choice(BOUNDARY_UNITS[cls]), rng.choice(BOUNDARY_UNITS[cls])
        v = rng.choice([1, -1]) * rng.randrange(1, 2**16) * 2.0**rng.randrange(-12, 12)
        sl = float(sympy.N(qx.pyvalue(build(ul)), 30))
        sr = float(sympy.N(qx.pyvalue(build(ur)), 30))
        side = rng.choice([1, -1])
        target = v * sl * (1 + side * rel_e)          # SI value at the boundary
        w = nudge(target / sr, rng.randrange(-2, 3))
        lsrc = f"Quantity({float_src(v)}*{ul})" if ul != "S.One" else f"Quantity({float_src(v)})"
        rsrc = f"Quantity({float_src(w)}*{ur})" if ur != "S.One" else f"Quantity({float_src(w)})"
        if rng.random() < 0.5:
            lsrc, rsrc = rsrc, lsrc
        kind = "boundary-units"
    elif t < 0.6:
        # complex operands; the displacement is on the real or on the imaginary part
        unit = rng.choice(BOUNDARY_UNITS[cls])
        a, b = rng.randrange(-2**10, 2**10) * 2.0**rng.randrange(-6, 6), rng.randrange(1, 2**10) * 2.0**rng.randrange(-6, 6)
        side = rng.choice([1, -1])
        on_im = rng.random() < 0.6
        a2, b2 = (a, nudge(b * (1 + side * rel_e), rng.randrange(-2, 3))) if on_im else (nudge(a * (1 + side * rel_e), rng.randrange(-2, 3)), b)
        if rng.random() < 0.3:
            a2, b2 = (a, b * (1 + 5 * rel_e + 0.1)) if on_im else (a * (1 + 5 * rel_e + 0.1) + 0.5, b)
        mk = lambda x, y: (f"Quantity(({float_src(x)} + {float_src(y)}*I)*{unit})" if unit != "S.One" else f"Quantity({float_src(x)} + {float_src(y)}*I)")
        lsrc, rsrc = mk(a, b), mk(a2, b2)
        if rng.random() < 0.5:
            lsrc, rsrc = rsrc, lsrc
        kind = "complex-im" if on_im else "complex-re"
    elif t < 0.75:
        # wrong dimensions (values equal), with occasional zero / infinite / NaN operand that matches everything
        c2 = rng.choice([c for c in sorted(BOUNDARY_UNITS) if c != cls])
        mag = rng.choice(["1", "2", "Float(1.5)", "S.Zero", "oo", "nan", "3", "Rational(1,4)"])
        mag2 = rng.choice(["1", "2", "Float(1.5)", "S.Zero", "oo", "3", "Rational(1,4)"])
        lsrc = f"Quantity(({mag})*{rng.choice(BOUNDARY_UNITS[cls])})"
        rsrc = f"Quantity(({mag2})*{rng.choice(BOUNDARY_UNITS[c2])})"
        if rng.random() < 0.3:
            rsrc = rsrc[len("Quantity("):-1]
        kind = "wrong-dimension"
    elif t < 0.9:
        # bare numbers / raw expressions, with and without dimension=
        unit = rng.choice([x for x in BOUNDARY_UNITS[cls] if "prefixes" not in x and "percent" not in x and "centi" not in x
            and "inch" not in x and "milli" not in x] or ["u.meter"])
        v = rng.randrange(1, 2**12) * 2.0**rng.randrange(-8, 8)
        side = rng.choice([1, -1])
        w = nudge(v * (1 + side * rel_e), rng.randrange(-2, 3))
        wq = Fraction(w)
        rnum = f"Rational({wq.numerator},{wq.denominator})"
        lsrc = f"Quantity({float_src(v)}*{unit})" if unit != "S.One" else f"Quantity({float_src(v)})"
        scale = float(sympy.N(qx.pyvalue(build(unit)), 30))
        wq2 = Fraction(w * scale) if representable(Fraction(w) * Fraction(scale)) else Fraction(w)
        choice = rng.random()
        if choice < 0.35:
            rsrc = f"Rational({wq2.numerator},{wq2.denominator})"     # bare number = SI scale, no dimension
            kind = "bare-no-dimension"
        elif choice < 0.7:
            rsrc = f"Rational({wq2.numerator},{wq2.denominator})"
            dim_src = f"({unit}).dimension" if unit != "S.One" else "Dimension(1)"
            if unit.count("u.") != 1 or "*" in unit or "/" in unit:
                dim_src = f"Quantity({unit}).dimension"
            kind = "bare-with-dimension"
        elif choice < 0.85:
            rsrc = f"({rnum})*{unit}" if unit != "S.One" else rnum          # raw unit expression
            kind = "raw-expression"
        else:
            lsrc, rsrc = (f"({rnum})*{unit}" if unit != "S.One" else rnum), lsrc      # bare / raw on the LEFT
            if rng.random() < 0.5:
                dim_src = "u.length"       # must not override the lhs
            kind = "raw-lhs"
    else:
        pool = ["Quantity(oo)", "Quantity(-oo)", "Quantity(nan)", "Quantity(S.Zero)", "Quantity(Float(0.0))", "Quantity(oo*u.meter)",
            "Quantity(1*u.meter)", "Quantity(S(1))", "Quantity(Float(1.0005))", "Quantity(0*u.second)", "S(1)", "S.Zero",
            "Quantity(oo, dimension=u.length)", "Quantity(nan, dimension=u.length)", "Quantity(3, dimension=angle_type)", "S(3)",
            "Quantity(3*u.radian)", "Quantity(5e-324)", "Quantity(1e-320*u.meter)", "Quantity(1e308*u.kilometer)"]
        lsrc, rsrc = rng.choice(pool), rng.choice(pool)
        kind = "special"
    return {"lsrc": lsrc, "rsrc": rsrc, "rel": rel, "abs": abs_, "dim": dim_src, "kind": kind}


def run_quantity_case(c, fn_name):
    from symplyphysics.core import approx as A  # pylint: disable=import-outside-toplevel
    lhs, rhs = build(c["lsrc"]), build(c["rsrc"])
    dimension = build(c["dim"]) if c["dim"] else None
    kw = {}
    if c["rel"] is not None:
        kw["relative_tolerance"] = c["rel"]
    if c["abs"] is not None:
        kw["absolute_tolerance"] = c["abs"]
    if dimension is not None:
        kw["dimension"] = dimension
    if fn_name == "assert_equal":
        v, msg = obs_verdict(A.assert_equal, lhs, rhs, **kw)
        return lhs, rhs, dimension, ("verdict", v, msg)
    return lhs, rhs, dimension, obs_bool(A.approx_equal_quantities, lhs, rhs, **kw)


def stream_quantities(ctx, n, dflt):
    rng = ctx.rng
    cases, hist = [], {}
    tries = 0
    inf_pool = ["Quantity(oo, dimension=u.length)", "Quantity(-oo, dimension=u.length)", "Quantity(1*u.meter)", "Quantity(oo)", "Quantity(-oo)",
        "Quantity(S(1))", "Quantity(oo*u.meter)", "Quantity(Float(1e300)*u.meter)", "S(1)", "oo"]
    fixed = [{"lsrc": a, "rsrc": b, "rel": rel, "abs": ab, "dim": None, "kind": "infinite-boundary"}
        for a in inf_pool for b in inf_pool if "oo" in a or "oo" in b for rel, ab in ((None, None), (0.5, 1.0))]
    while len(cases) < n and tries < 6 * n:
        tries += 1
        c = fixed.pop(0) if fixed else gen_quantity_case(rng, dflt)
        try:
            lhs0 = build(c["lsrc"])
        except Exception:  # pylint: disable=broad-except
            continue
        fn = "assert_equal" if (not _is_spq(lhs0) or rng.random() < 0.6) else "approx_equal_quantities"
        try:
            lhs, rhs, dimension, obs = run_quantity_case(c, fn)
            ll, ok1 = operand_lit(lhs)
            rl, ok2 = operand_lit(rhs)
            if not (ok1 and ok2):
                continue
            dl = "None" if dimension is None else f"(Some {qx.dim_lit(dim_vec_x(dimension))})"
        except qx.Unsupported:
            continue
        except Exception:  # pylint: disable=broad-except
            continue
        if fn == "assert_equal":
            lit = f"(inl ({ll}, {rl}, {fopt_lit(c['rel'])}, {fopt_lit(c['abs'])}, {dl}, {verdict_lit(obs[1])}))"
            key = "pass" if obs[1] is None else f"err{obs[1]}"
        else:
            lit = f"(inr ({aq_lit(lhs)}, {rl}, {fopt_lit(c['rel'])}, {fopt_lit(c['abs'])}, {dl}, {rbool_lit(obs)}))"
            key = str(obs[1]) if obs[0] == "ok" else f"err{obs[1]}"
        c.update({"lit": lit, "fn": fn, "obs": obs, "lhs": lhs, "rhs": rhs, "dimension": dimension})
        cases.append(c)
        hist[f"{fn}/{c['kind']}:{key}"] = hist.get(f"{fn}/{c['kind']}:{key}", 0) + 1
    return cases, hist


Q_CHECK = ("fun c : (operand FO * operand FO * option float * option float * option dim * verdict) + "
    "(aq FO * operand FO * option float * option float * option dim * result bool) => match c with "
    "| inl (l, r, rel, ab, d, o) => verdict_eqb (assert_equal FO live_dflt l r rel ab d) o "
    "| inr (l, r, rel, ab, d, o) => rbool_eqb (approx_quantities FO live_dflt l r rel ab d) o end")

# the exact instance on the same literals (used for the rounding-free subset)
Q_CHECK_EXACT = ("fun c : (operand FO * operand FO * option float * option float * option dim * verdict) + "
    "(aq FO * operand FO * option float * option float * option dim * result bool) => match c with "
    "| inl (l, r, rel, ab, d, o) => verdict_eqb (assert_equal QO (xq_of_float live_dflt) (operand_to_q l) (operand_to_q r) "
    "      (xq_of_opt rel) (xq_of_opt ab) d) o "
    "| inr (l, r, rel, ab, d, o) => rbool_eqb (approx_quantities QO (xq_of_float live_dflt) (aq_to_q l) (operand_to_q r) "
    "      (xq_of_opt rel) (xq_of_opt ab) d) o end")


Q_TYPE = ("(operand FO * operand FO * option float * option float * option dim * verdict) + (aq FO * operand FO * option float * option float * option dim * result bool)")


def quantity_case_exact(c, dflt):
    """every float operation of both number comparisons exact (so that QO must agree as well)"""
    try:
        lre, lim = parts(c["lhs"])
        rre, rim = parts(c["rhs"])
    except Exception:  # pylint: disable=broad-except
        return False
    return exact_float_ops(lre, rre, c["rel"], c["abs"], dflt) and exact_float_ops(lim, rim, c["rel"], c["abs"], dflt)


# ---------------------------------------------------------------------------------------------
# stream 3: vectors
# ---------------------------------------------------------------------------------------------

SYSTEMS = {"cartesian": (), "cylindrical": (1,), "spherical": (1, 2)}          # angle slots per coordinate-system type


def gen_system_vector_case(rng, dflt):
    """QuantityVectors in all three coordinate-system types, same and mixed pairs.  All components carry the SAME SI scale
    factors, so only the component-wise dimensions (angle slots of the system type vs the vector's dimension) can tell a
    cylindrical (r, theta, z) from a Cartesian (x, y, z)."""
    cls = rng.choice(["length", "time", "velocity", "energy"])
    unit = rng.choice(BOUNDARY_UNITS[cls])
    scale = float(sympy.N(qx.pyvalue(build(unit)), 30))
    sl, sr = rng.choice(sorted(SYSTEMS)), rng.choice(sorted(SYSTEMS))
    rel = rng.choice([None, None, 0.5, 2.0**-10])
    rel_e = dflt if rel is None else rel
    comps = [rng.randrange(1, 2**10) * 2.0**rng.randrange(-5, 5) for _ in range(3)]
    rcomps = list(comps)
    if rng.random() < 0.3:
        i = rng.randrange(3)
        rcomps[i] = nudge(comps[i] * (1 + rng.choice([1, -1]) * rel_e), rng.randrange(-2, 3))

    def vec(cs, system):
        items = []
        for i, x in enumerate(cs):
            if i in SYSTEMS[system]:
                items.append(rng.choice([float_src(x * scale), f"{float_src(x * scale)}*u.radian"]))      # an angle: same SI number
            else:
                items.append(f"{float_src(x)}*{unit}")
        return f"QuantityVector([{', '.join(items)}], CoordinateSystem(CoordinateSystem.System.{system.upper()}))"
    return {"lsrc": vec(comps, sl), "rsrc": vec(rcomps, sr), "rel": rel, "abs": None, "kind": f"vectors/{sl}-vs-{sr}"}


def gen_vector_case(rng, dflt):
    if rng.random() < 0.4:
        return gen_system_vector_case(rng, dflt)
    cls = rng.choice(["length", "time", "energy", "velocity", "dimensionless"])
    unit = rng.choice(BOUNDARY_UNITS[cls])
    nl = rng.choice([1, 2, 3, 3, 3])
    nr = nl if rng.random() < 0.65 else rng.choice([k for k in (0, 1, 2, 3, 4) if k != nl])
    rel = rng.choice(RELS)
    rel_e = dflt if rel is None else rel
    abs_ = rng.choice(ABSS) if rng.random() < 0.2 else None
    comps = [rng.randrange(-2**10, 2**10) * 2.0**rng.randrange(-5, 5) for _ in range(max(nl, nr))]
    lcomps = comps[:nl]
    rcomps = []
    bad_at = rng.randrange(max(nr, 1)) if rng.random() < 0.5 else None
    for i, x in enumerate(comps[:nr]):
        if i == bad_at:
            rcomps.append(nudge(x * (1 + rng.choice([1, -1]) * rel_e), rng.randrange(-2, 3)))
        else:
            rcomps.append(x)
    if rng.random() < 0.12:
        unit_r = rng.choice(BOUNDARY_UNITS[rng.choice(["mass", "pressure"])])
    else:
        unit_r = rng.choice(BOUNDARY_UNITS[cls]) if rng.random() < 0.3 else unit

    def vec(cs, un):
        items = ", ".join((f"{float_src(x)}*{un}" if un != "S.One" else float_src(x)) for x in cs)
        return f"QuantityVector([{items}])"
    lsrc = vec(lcomps, unit)
    if unit_r == unit:
        rsrc = vec(rcomps, unit_r)
    else:
        sl = float(sympy.N(qx.pyvalue(build(unit)), 30))
        sr = float(sympy.N(qx.pyvalue(build(unit_r)), 30))
        rsrc = vec([x * sl / sr for x in rcomps], unit_r)
    return {"lsrc": lsrc, "rsrc": rsrc, "rel": rel, "abs": abs_, "kind": "vectors/" + ("equal-length" if nl == nr else "unequal-length")}


def stream_vectors(ctx, n, dflt):
    from symplyphysics.core.approx import assert_equal_vectors  # pylint: disable=import-outside-toplevel
    rng = ctx.rng
    cases, hist = [], {}
    tries = 0
    while len(cases) < n and tries < 6 * n:
        tries += 1
        c = gen_vector_case(rng, dflt)
        try:
            lv, rv = build(c["lsrc"]), build(c["rsrc"])
            lc = "[" + "; ".join(aq_lit(q) for q in lv.components) + "]"
            rc = "[" + "; ".join(aq_lit(q) for q in rv.components) + "]"
        except Exception:  # pylint: disable=broad-except
            continue
        kw = {}
        if c["rel"] is not None:
            kw["relative_tolerance"] = c["rel"]
        if c["abs"] is not None:
            kw["absolute_tolerance"] = c["abs"]
        v, msg = obs_verdict(assert_equal_vectors, lv, rv, **kw)
        c.update({"lit": f"({lc}, {rc}, {fopt_lit(c['rel'])}, {fopt_lit(c['abs'])}, {verdict_lit(v)})", "obs": (v, msg), "lv": lv, "rv": rv})
        cases.append(c)
        k = f"{c['kind']}:{'pass' if v is None else 'err%d' % v}"
        hist[k] = hist.get(k, 0) + 1
    return cases, hist


V_CHECK = ("fun c : list (aq FO) * list (aq FO) * option float * option float * verdict => "
    "let '(l, r, rel, ab, o) := c in verdict_eqb (assert_equal_vectors FO live_dflt l r rel ab None) o")


def spec_vectors(c, dflt):
    v = c["obs"][0]
    lc, rc = list(c["lv"].components), list(c["rv"].components)
    if len(lc) != len(rc):
        return v is not None           # vectors need equal lengths
    res = [spec_assert_equal(a, b, c["rel"], c["abs"], None, dflt, None) for a, b in zip(lc, rc)]
    if any(x is False for x in res):   # some component must fail
        return v is not None
    if all(x is True for x in res):
        return v is None
    return None


# ---------------------------------------------------------------------------------------------

def live_preamble():
    from symplyphysics.core import approx as A  # pylint: disable=import-outside-toplevel
    d = A.APPROX_RELATIVE_TOLERANCE
    if isinstance(d, bool) or not isinstance(d, (int, float)) or not math.isfinite(d) or d <= 0:
        raise qx.Unsupported(f"APPROX_RELATIVE_TOLERANCE = {d!r}")
    d = float(d)
    m, e = float_cert(d)
    text = (f"Definition live_dflt : float := {f_lit(d)}.\n"
        f"Definition live_dflt_q : Q := {qx.q_lit(Fraction(d))}.\n"
        f"Definition live_dflt_cert : Z * Z := (({m})%Z, ({e})%Z).\n")
    return text, d


def replay_infinite_lhs(ctx):
    """regression guard for 7783335: an infinite operand is equal only to itself, in both orders"""
    from symplyphysics import Quantity  # pylint: disable=import-outside-toplevel
    from symplyphysics.core.approx import approx_equal_numbers, assert_equal  # pylint: disable=import-outside-toplevel
    a = obs_bool(approx_equal_numbers, math.inf, 1.0)
    b = obs_bool(approx_equal_numbers, 1.0, math.inf)
    v1, _ = obs_verdict(assert_equal, Quantity(sympy.oo, dimension=u.length), Quantity(1 * u.meter))
    v2, _ = obs_verdict(assert_equal, Quantity(1 * u.meter), Quantity(sympy.oo, dimension=u.length))
    ctx.coverage["infinite_lhs_replay"] = {"approx_equal_numbers(inf, 1.0)": str(a[1]), "approx_equal_numbers(1.0, inf)": str(b[1]),
        "assert_equal(oo m, 1 m)": "passes" if v1 is None else f"fails({v1})", "assert_equal(1 m, oo m)": "passes" if v2 is None else f"fails({v2})"}
    c = obs_bool(approx_equal_numbers, math.inf, math.inf)
    d = obs_bool(approx_equal_numbers, -math.inf, math.inf)
    ctx.coverage["infinite_lhs_replay"].update({"approx_equal_numbers(inf, inf)": str(c[1]), "approx_equal_numbers(-inf, inf)": str(d[1])})
    if a != ("ok", False) or b != ("ok", False) or c != ("ok", True) or d != ("ok", False) or v1 is None or v2 is None:
        ctx.violation("C08:infinite-lhs-accepted",
            "an infinite operand is not treated as equal only to itself: "
            f"approx_equal_numbers(inf, 1.0) = {a[1]}, approx_equal_numbers(1.0, inf) = {b[1]}; assert_equal(oo m, 1 m) "
            f"{'passes' if v1 is None else 'fails'}, assert_equal(1 m, oo m) {'passes' if v2 is None else 'fails'}",
            {"kind": "violation", "stream": "infinite-lhs", "observed": ctx.coverage["infinite_lhs_replay"],
             "expected": "an infinite value differs from 1 by more than any tolerance: the assertion must fail, in both orders",
             "theorem_or_tie": "approx_infinite_only_equal_to_itself / approx_symmetric_extended (l = +inf, r = 1) checked on the implementation"}, True)


def run(ctx):
    ctx.level = "proof"
    ctx.static(STATIC)
    ctx.trust("Coq 8.16.1 kernel incl. vm_compute and primitive binary64 floats (PrimFloat = IEEE 754 round-to-nearest-even; "
        "CPython float is the same format)",
        "harness/vp/qx.py + props/c08.py serialisers: Quantity -> (scale class, float(re), float(im), dimension); float -> hex literal",
        "Model/CollectQ.v (Quantity construction, tied by C05) and Model/Gate.v (dimension gate, tied by C04) are reused, and "
        "re-tied here through every quantity case",
        "pytest.approx (ApproxScalar.__eq__/.tolerance) is MODELLED inside approx_numbers and tied by the correspondence",
        "float(sympy.re/im(scale_factor)) is read by the harness, not modelled (operands are chosen so that it is exact for raw expressions)")
    ctx.assume("theorems are about the exact-arithmetic instance QO; on binary64 a verdict can differ from the real-number reading only "
        "within rounding of the boundary (the FO instance is the bit-exact tie)",
        "tolerances are non-negative in the theorems (negative ones raise ValueError in model and implementation alike)")
    try:
        live, dflt = live_preamble()
    except qx.Unsupported as e:
        ctx.violation(f"C08:default-untranslatable:{e}", f"cannot read the default relative tolerance: {e}",
            {"kind": "broken-tie", "theorem_or_tie": "live_preamble"}, found_input=False)
        return
    pre = PREAMBLE + live

    # the default relative tolerance is "0.1 %"
    res = coqrun.prove_lemmas(ctx, "tables", pre, [coqrun.Lemma("default_rel_live_ok",
        "default_rel_ok live_dflt_q (fst live_dflt_cert) (snd live_dflt_cert) = true /\\ xq_of_float live_dflt = XQ (Qred live_dflt_q)",
        "split; vm_compute; reflexivity.", "APPROX_RELATIVE_TOLERANCE is the binary64 nearest to 1/1000")])
    ctx.obligations(len(res), sum(v == "ok" for v in res.values()))
    if res.get("default_rel_live_ok") != "ok":
        from symplyphysics.core.approx import approx_equal_numbers  # pylint: disable=import-outside-toplevel
        probe = [(1.0, 1.002), (1.0, 1.005), (1000.0, 1001.5), (1.0, 1.0005)]
        bad = [(l, r, obs_bool(approx_equal_numbers, l, r)) for l, r in probe]
        bad = [(l, r, o) for l, r, o in bad if spec_numbers(l, r, None, None, 0.001, o[0] == "ok" and o[1]) is False]
        ctx.violation("C08:default-tolerance", f"APPROX_RELATIVE_TOLERANCE = {dflt!r} is not 0.1 %",
            {"kind": "broken-proof", "theorem_or_tie": "default_rel_live_ok", "observed": {"default": repr(dflt)},
             "failing_inputs": [f"approx_equal_numbers({l}, {r}) = {o[1]}" for l, r, o in bad], "expected": "default relative tolerance 0.001",
             "stream": "default"}, found_input=bool(bad))
    ctx.coverage["default_relative_tolerance"] = repr(dflt)

    hist = {}
    n_bad = 0
    # ---- numbers -------------------------------------------------------------------------------
    ncases, h = stream_numbers(ctx, ctx.pick(4000, 40000), dflt)
    hist.update(h)
    bad = coqrun.eval_cases(ctx, "numbers", pre, [c["lit"] for c in ncases], NUM_CHECK,
        case_type="float * float * option float * option float * bool * result bool")
    for i in bad[:25]:
        c = ncases[i]
        ok = spec_numbers(c["l"], c["r"], c["rel"], c["abs"], 0.001, c["obs"][0] == "ok" and c["obs"][1]) if c["obs"][0] == "ok" else None
        ctx.violation(f"C08:numbers:{c['l']!r}:{c['r']!r}:{c['rel']!r}:{c['abs']!r}",
            f"approx_equal_numbers({c['l']!r}, {c['r']!r}, rel={c['rel']!r}, abs={c['abs']!r}) = {c['obs'][1:]}",
            {"kind": "disagreement", "stream": "numbers", "l": repr(c["l"]), "r": repr(c["r"]), "rel": repr(c["rel"]), "abs": repr(c["abs"]),
             "case_kind": c["kind"], "gallina": c["lit"], "observed": str(c["obs"][1:]),
             "expected": "False when |l-r| > max(abs, rel*max(|l|,|r|)); True when |l-r| <= stated tolerance",
             "theorem_or_tie": "correspondence Approx.approx_numbers (FO bit-exact, QO on rounding-free cases) ~ approx_equal_numbers"},
            ok is False)
    n_bad += len(bad)
    ctx.evaluated(len(ncases), len({c["lit"] for c in ncases if c["kind"] != "ints"}))
    ctx.coverage["numbers_rounding_free_cases"] = sum(c["exact"] for c in ncases)
    for c in ncases[:2]:
        ctx.sample({"stream": "numbers", "l": repr(c["l"]), "r": repr(c["r"]), "rel": repr(c["rel"]), "abs": repr(c["abs"]), "impl": str(c["obs"][1:])})

    # ---- quantities ----------------------------------------------------------------------------
    qcases, h = stream_quantities(ctx, ctx.pick(2500, 20000), dflt)
    hist.update(h)
    badq = coqrun.eval_cases(ctx, "quantities", pre, [c["lit"] for c in qcases], Q_CHECK, case_type=Q_TYPE)
    exact_q = [c for c in qcases if quantity_case_exact(c, dflt)]
    badx = coqrun.eval_cases(ctx, "quantities_exact", pre, [c["lit"] for c in exact_q], Q_CHECK_EXACT, case_type=Q_TYPE)
    seen = set()

    def spec_of(c):
        if c["fn"] == "assert_equal":
            return spec_assert_equal(c["lhs"], c["rhs"], c["rel"], c["abs"], c["dimension"], 0.001, c["obs"][1])
        o = c["obs"]
        return spec_assert_equal(c["lhs"], c["rhs"], c["rel"], c["abs"], c["dimension"], 0.001,
            None if (o[0] == "ok" and o[1]) else (qx.E_ASSERT if o[0] == "ok" else o[1]))
    decided = [(c, which, spec_of(c)) for c, which in [(qcases[i], "FO") for i in badq[:200]] + [(exact_q[i], "QO") for i in badx[:50]]]
    decided.sort(key=lambda t: t[2] is not False)          # disagreements with a concrete failing input first
    for c, which, ok in decided[:40]:
        if id(c) in seen:
            continue
        seen.add(id(c))
        ctx.violation(f"C08:{c['fn']}:{c['lsrc']}:{c['rsrc']}:{c['rel']!r}:{c['abs']!r}:{c['dim']}",
            f"{c['fn']}({c['lsrc']}, {c['rsrc']}, rel={c['rel']!r}, abs={c['abs']!r}, dimension={c['dim']}) -> {c['obs'][1:]}",
            {"kind": "disagreement", "stream": "quantities", "fn": c["fn"], "lhs": c["lsrc"], "rhs": c["rsrc"], "rel": repr(c["rel"]),
             "abs": repr(c["abs"]), "dimension": c["dim"], "case_kind": c["kind"], "gallina": c["lit"], "observed": str(c["obs"][1:]),
             "model_instance": which,
             "expected": "fail on inequivalent dimensions or a part beyond tolerance; pass within the stated tolerance",
             "theorem_or_tie": "correspondence Approx.assert_equal / approx_quantities ~ core/approx.py"}, ok is False)
    n_bad += len(badq) + len(badx)
    ctx.evaluated(len(qcases), len({c["lit"] for c in qcases if c["kind"] != "special"}))
    ctx.coverage["quantities_rounding_free_cases"] = len(exact_q)
    for c in qcases[:3]:
        ctx.sample({"stream": "quantities", "fn": c["fn"], "lhs": c["lsrc"], "rhs": c["rsrc"], "rel": repr(c["rel"]), "abs": repr(c["abs"]),
            "dimension": c["dim"], "impl": str(c["obs"][1:])})

    # ---- vectors -------------------------------------------------------------------------------
    vcases, h = stream_vectors(ctx, ctx.pick(600, 5000), dflt)
    hist.update(h)
    badv = coqrun.eval_cases(ctx, "vectors", pre, [c["lit"] for c in vcases], V_CHECK,
        case_type="list (aq FO) * list (aq FO) * option float * option float * verdict")
    for i in badv[:25]:
        c = vcases[i]
        ok = spec_vectors(c, 0.001)
        ctx.violation(f"C08:vectors:{c['lsrc']}:{c['rsrc']}:{c['rel']!r}:{c['abs']!r}",
            f"assert_equal_vectors({c['lsrc']}, {c['rsrc']}, rel={c['rel']!r}, abs={c['abs']!r}) -> {c['obs']}",
            {"kind": "disagreement", "stream": "vectors", "lhs": c["lsrc"], "rhs": c["rsrc"], "rel": repr(c["rel"]), "abs": repr(c["abs"]),
             "gallina": c["lit"], "observed": str(c["obs"]), "expected": "component-wise comparison; unequal lengths never pass",
             "theorem_or_tie": "correspondence Approx.assert_equal_vectors ~ assert_equal_vectors"}, ok is False)
    n_bad += len(badv)
    ctx.evaluated(len(vcases), len({c["lit"] for c in vcases}))
    if vcases:
        ctx.sample({"stream": "vectors", "lhs": vcases[0]["lsrc"], "rhs": vcases[0]["rsrc"], "impl": str(vcases[0]["obs"])})

    replay_infinite_lhs(ctx)

    ctx.coverage["disagreements"] = n_bad
    ctx.coverage["verdict_histogram"] = dict(sorted(hist.items()))
    ctx.coverage["rule"] = ("numbers: 62% boundary-straddling pairs l = r*(1 +- rel) +- k ulp / r/(1 -+ rel) / r +- abs, k in -2..2, dyadic and "
        "decimal r over 1e-12..1e12, rel in {default, 2^-k, 0.001, 0.01, 0.5, 1, 0, 3}, abs in {none, 2^-k, 0.5, 0, 1e-12, 1, 1e6}; specials "
        "(+-0, +-inf, nan, subnormal, max); hostile tolerances (negative, nan, inf); ints.  quantities: the same boundary written in two units "
        "of one dimension (prefixed / derived / non-decimal), complex operands displaced on the real or the imaginary part, wrong dimensions "
        "(with zero / inf / nan operands), bare numbers with and without dimension=, raw unit expressions on either side, special quantities; "
        "assert_equal and approx_equal_quantities.  vectors: 1-3 components, 35% unequal lengths, one displaced component, other units / "
        "dimensions.  distinct = distinct Gallina literals; non-trivial = not the ints / special pools")


# ---------------------------------------------------------------------------------------------

def _parse(x):
    return None if x in (None, "None") else (int(x) if isinstance(x, str) and x.lstrip("-").isdigit() else float(x))


def replay(ctx, rep):
    from symplyphysics.core import approx as A  # pylint: disable=import-outside-toplevel
    print(f"replaying {rep.get('key')} on {ctx.coverage.get('implementation')}")
    stream = rep.get("stream")
    rc = 0
    if stream == "numbers":
        l, r, rel, ab = _parse(rep["l"]), _parse(rep["r"]), _parse(rep["rel"]), _parse(rep["abs"])
        kw = {k: v for k, v in (("relative_tolerance", rel), ("absolute_tolerance", ab)) if v is not None}
        obs = obs_bool(A.approx_equal_numbers, l, r, **kw)
        ok = spec_numbers(l, r, rel, ab, 0.001, obs[1]) if obs[0] == "ok" else None
        print(f"approx_equal_numbers({l!r}, {r!r}, {kw}) -> {obs[1:]}; |l-r| = {abs(Fraction(l) - Fraction(r)) if all(map(math.isfinite, (l, r))) else 'n/a'}"
            f"; specification predicate: {ok}")
        rc = 1 if ok is False else 0
    elif stream == "quantities":
        c = {"lsrc": rep["lhs"], "rsrc": rep["rhs"], "rel": _parse(rep["rel"]), "abs": _parse(rep["abs"]), "dim": rep.get("dimension")}
        lhs, rhs, dimension, obs = run_quantity_case(c, rep["fn"])
        if rep["fn"] == "assert_equal":
            v = obs[1]
        else:
            v = None if (obs[0] == "ok" and obs[1]) else (qx.E_ASSERT if obs[0] == "ok" else obs[1])
        ok = spec_assert_equal(lhs, rhs, c["rel"], c["abs"], dimension, 0.001, v)
        print(f"{rep['fn']}({rep['lhs']}, {rep['rhs']}, rel={c['rel']!r}, abs={c['abs']!r}, dimension={c['dim']}) -> {obs[1:]}")
        try:
            print("  SI parts lhs:", parts(lhs), " rhs:", parts(rhs))
        except Exception:  # pylint: disable=broad-except
            pass
        print("  specification predicate:", ok)
        rc = 1 if ok is False else 0
    elif stream == "vectors":
        lv, rv = build(rep["lhs"]), build(rep["rhs"])
        rel, ab = _parse(rep["rel"]), _parse(rep["abs"])
        kw = {k: v for k, v in (("relative_tolerance", rel), ("absolute_tolerance", ab)) if v is not None}
        v, msg = obs_verdict(A.assert_equal_vectors, lv, rv, **kw)
        c = {"obs": (v, msg), "lv": lv, "rv": rv, "rel": rel, "abs": ab}
        ok = spec_vectors(c, 0.001)
        print(f"assert_equal_vectors({rep['lhs']}, {rep['rhs']}, {kw}) -> {'passes' if v is None else msg}; specification predicate: {ok}")
        rc = 1 if ok is False else 0
    elif stream == "infinite-lhs":
        a = obs_bool(A.approx_equal_numbers, math.inf, 1.0)
        b = obs_bool(A.approx_equal_numbers, 1.0, math.inf)
        print(f"approx_equal_numbers(inf, 1.0) = {a[1:]}; approx_equal_numbers(1.0, inf) = {b[1:]}")
        rc = 1 if (a[0] == "ok" and a[1]) else 0
    else:
        print("theorem / tie:", rep.get("theorem_or_tie"), rep.get("observed"))
        for l, r in [(1.0, 1.002), (1.0, 1.005), (1.0, 1.0005)]:
            o = obs_bool(A.approx_equal_numbers, l, r)
            ok = spec_numbers(l, r, None, None, 0.001, o[0] == "ok" and o[1])
            print(f"  approx_equal_numbers({l}, {r}) = {o[1:]}; specification (default 0.1 %): {ok}")
            if ok is False:
                rc = 1
    print("replay verdict:", "property violated on this input" if rc else "no violation reproduced")
    return rc
